(* C17.v — property C17: coordinate-frame transformations are mutually inverse rigid maps.  Statements only.
   All C17_*_R definitions are regenerated from ahrs/common/frames.py on every run (AhrsGen.C17gen_R);
   Tgeo / Nrad / geo_height / ecef2geodetic_model are the hand model AhrsModel.C17_geodetic. Angles in degrees
   unless the target name ends in _rad;  rad d = d * (1/180 * PI). *)
From Coq Require Import Reals List Lra.
From AhrsLib Require Import Base Rot FramesLib.
From AhrsModel Require Import C17_geodetic.
From AhrsGen Require Import C17gen_R.
From AhrsProps Require Import C17_linear C17_aer C17_geo C17_conv.
Import ListNotations.
Open Scope R_scope.

(* ECEF -> ENU -> ECEF and ENU -> ECEF -> ENU are identities for every local origin in the documented ranges *)
Theorem C17_enu_ecef_inverse : forall lat lon h, Rabs lat <= 90 -> Rabs lon <= 180 ->
  (forall x y z, exists ea no up,
     C17_ecef2enu_R x y z lat lon h = Val [ea; no; up] /\ C17_enu2ecef_R ea no up lat lon h = Val [x; y; z]) /\
  (forall ea no up, exists x y z,
     C17_enu2ecef_R ea no up lat lon h = Val [x; y; z] /\ C17_ecef2enu_R x y z lat lon h = Val [ea; no; up]).
Proof.
  intros lat lon h H1 H2. split.
  - intros x y z. exact (enu_ecef_inverse_1 x y z lat lon h H1 H2).
  - intros ea no up. exact (enu_ecef_inverse_2 ea no up lat lon h H1 H2).
Qed.
Print Assumptions C17_enu_ecef_inverse.

(* outside the ranges both directions raise ValueError (so the guard above is exactly the accepted domain) *)
Theorem C17_enu_ecef_reject : forall x y z lat lon h, 90 < Rabs lat \/ 180 < Rabs lon ->
  C17_ecef2enu_R x y z lat lon h = Raise ValueError /\ C17_enu2ecef_R x y z lat lon h = Raise ValueError.
Proof. exact enu_ecef_reject. Qed.
Print Assumptions C17_enu_ecef_reject.

(* what the maps are: a rotation by the matrix Renu (SO(3)) about the ECEF position of the origin *)
Theorem C17_ecef_enu_are_rotations : forall x y z x0 y0 z0 ea no up lat lon h,
  C17_ecef2enuv_R x y z x0 y0 z0 lat lon = Val (mvec3 (Renu (rad lat) (rad lon)) [x - x0; y - y0; z - z0]) /\
  C17_enu2uvw_R ea no up lat lon = Val (mvec3 (mtr3 (Renu (rad lat) (rad lon))) [ea; no; up]) /\
  C17_enu2uvw_rad_R ea no up lat lon = Val (mvec3 (mtr3 (Renu lat lon)) [ea; no; up]) /\
  SO3 (Renu (rad lat) (rad lon)) /\
  (C17_geodetic2ecef_R lat lon h = Val [x0; y0; z0] ->
     C17_ecef2enu_R x y z lat lon h = C17_ecef2enuv_R x y z x0 y0 z0 lat lon /\
     C17_enu2ecef_R ea no up lat lon h = Val (vadd3 [x0; y0; z0] (mvec3 (mtr3 (Renu (rad lat) (rad lon))) [ea; no; up]))).
Proof.
  intros. split; [apply ecef2enuv_spec|]. split; [apply enu2uvw_spec|]. split; [apply enu2uvw_rad_spec|].
  split; [apply Renu_SO3|]. intros G. split; [exact (ecef2enu_spec _ _ _ _ _ _ _ _ _ G)|exact (enu2ecef_spec _ _ _ _ _ _ _ _ _ G)].
Qed.
Print Assumptions C17_ecef_enu_are_rotations.

(* ECEF -> ENU preserves the distance between any two points (both entry points) *)
Theorem C17_ecef2enu_isometry : forall x1 y1 z1 x2 y2 z2 lat lon h p q,
  C17_ecef2enu_R x1 y1 z1 lat lon h = Val p -> C17_ecef2enu_R x2 y2 z2 lat lon h = Val q ->
  length p = 3%nat /\ length q = 3%nat /\ dist2 p q = dist2 [x1; y1; z1] [x2; y2; z2].
Proof. exact ecef2enu_isometry. Qed.
Print Assumptions C17_ecef2enu_isometry.

Theorem C17_ecef2enuv_isometry : forall x1 y1 z1 x2 y2 z2 x0 y0 z0 lat lon p q,
  C17_ecef2enuv_R x1 y1 z1 x0 y0 z0 lat lon = Val p -> C17_ecef2enuv_R x2 y2 z2 x0 y0 z0 lat lon = Val q ->
  length p = 3%nat /\ length q = 3%nat /\ dist2 p q = dist2 [x1; y1; z1] [x2; y2; z2].
Proof. exact ecef2enuv_isometry. Qed.
Print Assumptions C17_ecef2enuv_isometry.

(* ... and maps the origin to zero *)
Theorem C17_ecef2enu_origin : forall lat lon h x0 y0 z0,
  (C17_geodetic2ecef_R lat lon h = Val [x0; y0; z0] -> C17_ecef2enu_R x0 y0 z0 lat lon h = Val [0; 0; 0]) /\
  C17_ecef2enuv_R x0 y0 z0 x0 y0 z0 lat lon = Val [0; 0; 0] /\
  (Rabs lat <= 90 -> Rabs lon <= 180 -> C17_geodetic2enu_R lat lon h lat lon h = Val [0; 0; 0]).
Proof.
  intros. split; [apply ecef2enu_origin|]. split; [apply ecef2enuv_origin|apply geodetic2enu_self].
Qed.
Print Assumptions C17_ecef2enu_origin.

(* the ECEF <-> local-level matrices are proper rotations and transposes (= inverses) of each other, for all angles *)
Theorem C17_llf_orthogonal_transposes : forall lat lon,
  exists A B, C17_llf2ecef_R lat lon = Val A /\ C17_ecef2llf_R lat lon = Val B /\
              A = mtr3 B /\ SO3 A /\ SO3 B /\ mmul3 A B = I3 /\ mmul3 B A = I3.
Proof. exact llf_orthogonal_transposes. Qed.
Print Assumptions C17_llf_orthogonal_transposes.

(* NED -> ENU -> NED and ENU -> NED -> ENU are identities, for single vectors and row-wise for (N,3) arrays *)
Theorem C17_ned_enu_involution : forall x y z x0 y0 z0,
  C17_ned2enu_R x y z = Val [y; x; - z] /\ C17_enu2ned_R x y z = Val [y; x; - z] /\
  C17_enu2ned_R y x (- z) = Val [x; y; z] /\ C17_ned2enu_R y x (- z) = Val [x; y; z] /\
  C17_ned2enu_rows_R x y z x0 y0 z0 = Val [y; x; - z; y0; x0; - z0] /\
  C17_enu2ned_rows_R y x (- z) y0 x0 (- z0) = Val [x; y; z; x0; y0; z0].
Proof.
  intros. destruct (ned_enu_involution x y z) as (A & B & C & D). destruct (ned_enu_rows x y z x0 y0 z0) as (E & F).
  repeat split; assumption.
Qed.
Print Assumptions C17_ned_enu_involution.

(* (3,3) and (4,3) arrays are transformed row by row as well (a square array is not transposed) *)
Theorem C17_ned_enu_involution_arrays : forall x1 y1 z1 x2 y2 z2 x3 y3 z3 x4 y4 z4,
  C17_ned2enu_rows3_R x1 y1 z1 x2 y2 z2 x3 y3 z3 = Val [y1; x1; - z1; y2; x2; - z2; y3; x3; - z3] /\
  C17_enu2ned_rows3_R y1 x1 (- z1) y2 x2 (- z2) y3 x3 (- z3) = Val [x1; y1; z1; x2; y2; z2; x3; y3; z3] /\
  C17_ned2enu_rows4_R x1 y1 z1 x2 y2 z2 x3 y3 z3 x4 y4 z4 = Val [y1; x1; - z1; y2; x2; - z2; y3; x3; - z3; y4; x4; - z4] /\
  C17_enu2ned_rows4_R y1 x1 (- z1) y2 x2 (- z2) y3 x3 (- z3) y4 x4 (- z4) = Val [x1; y1; z1; x2; y2; z2; x3; y3; z3; x4; y4; z4].
Proof.
  intros. destruct (ned_enu_rows3 x1 y1 z1 x2 y2 z2 x3 y3 z3) as [A B].
  destruct (ned_enu_rows4 x1 y1 z1 x2 y2 z2 x3 y3 z3 x4 y4 z4) as [C D]. repeat split; assumption.
Qed.
Print Assumptions C17_ned_enu_involution_arrays.

(* ENU -> DCA -> ENU and DCA -> ENU -> DCA are identities for every angle (degrees and radians) *)
Theorem C17_enu_dca_inverse : forall ea no up ang,
  (exists d c k, C17_enu2dca_R ea no up ang = Val [d; c; k] /\ C17_dca2enu_R d c k ang = Val [ea; no; up]) /\
  (exists p q k, C17_dca2enu_R ea no up ang = Val [p; q; k] /\ C17_enu2dca_R p q k ang = Val [ea; no; up]) /\
  (exists d c k, C17_enu2dca_rad_R ea no up ang = Val [d; c; k] /\ C17_dca2enu_rad_R d c k ang = Val [ea; no; up]) /\
  (exists p q k, C17_dca2enu_rad_R ea no up ang = Val [p; q; k] /\ C17_enu2dca_rad_R p q k ang = Val [ea; no; up]).
Proof.
  intros. destruct (enu_dca_inverse ea no up ang) as [A B]. destruct (enu_dca_inverse_rad ea no up ang) as [C D].
  split; [exact A|]. split; [exact B|]. split; [exact C|exact D].
Qed.
Print Assumptions C17_enu_dca_inverse.

(* ENU -> AER -> ENU is the identity for EVERY point (no guard: zenith, nadir and the origin included);
   the azimuth wrap `% 2 pi` is handled through Rfmod *)
Theorem C17_enu_aer_inverse : forall ea no up,
  (exists az el r, C17_enu2aer_R ea no up = Val [az; el; r] /\ C17_aer2enu_R az el r = Val [ea; no; up]) /\
  (exists az el r, C17_enu2aer_rad_R ea no up = Val [az; el; r] /\ C17_aer2enu_rad_R az el r = Val [ea; no; up]).
Proof. intros. split; [apply enu_aer_inverse|apply enu_aer_inverse_rad]. Qed.
Print Assumptions C17_enu_aer_inverse.

(* what enu2aer returns: Euclidean slant range, azimuth in [0, 360), elevation in [-90, 90] *)
Theorem C17_enu2aer_range : forall ea no up az el r, C17_enu2aer_R ea no up = Val [az; el; r] ->
  r * r = ea * ea + no * no + up * up /\ 0 <= r /\ 0 <= az < 360 /\ -90 <= el <= 90.
Proof. exact enu2aer_range. Qed.
Print Assumptions C17_enu2aer_range.

(* the other order on the chart where AER coordinates are unique (slant range > 0, elevation in (-90, 90)) *)
Theorem C17_aer_enu_inverse_on_chart : forall az el r, 0 <= az < 360 -> -90 < el < 90 -> 0 < r ->
  exists ea no up, C17_aer2enu_R az el r = Val [ea; no; up] /\ C17_enu2aer_R ea no up = Val [az; el; r].
Proof. exact aer_enu_inverse. Qed.
Print Assumptions C17_aer_enu_inverse_on_chart.

(* the tie of the hand model: the regenerated trace of the public ecef2geodetic, with its `while` cut after the
   sixth exit test, IS the model with fuel 5 (Raise OtherError = budget exhausted), for every ellipsoid *)
Theorem C17_unrolled_is_model : forall x y z a b,
  C17_ecef2geodetic_ab_u_R x y z a b = ecef2geodetic_model 5 a b x y z /\
  C17_ecef2lla_u_R x y z = C17_ecef2geodetic_u_R x y z.
Proof. intros. split; [apply unrolled_is_model|apply lla_is_geodetic]. Qed.
Print Assumptions C17_unrolled_is_model.

(* geodetic -> ECEF -> geodetic, PARTIAL.  Proved: the true latitude is a fixed point of the loop body T (poles
   included); away from the poles the height formula returns h there and the longitude is recovered.
   Not proved: that the loop's iterates converge to that fixed point within its 1e-8 rad exit test (search oracle only),
   and the height / longitude at |lat| = 90 exactly, where the real-number model is 0/0 (see C17_pole_real_model). *)
Theorem C17_geodetic_fixed_point_partial : forall lat lon h a b,
  0 < b <= a -> - a < h -> Rabs lat <= 90 -> Rabs lon <= 180 ->
  exists x y z, C17_geodetic2ecef_ab_R lat lon h a b = Val [x; y; z] /\
    [x; y; z] = geodetic2ecef_spec a b (rad lat) (rad lon) h /\
    let p := sqrt (x ^ 2 + y ^ 2) in
    Tgeo a b p z (rad lat) = rad lat /\
    (Rabs lat < 90 -> geo_height p (rad lat) (Nrad a b (rad lat)) = h) /\
    (Rabs lat < 90 -> - 180 < lon -> atan2 y x * (180 / PI) = lon).
Proof.
  intros lat lon h a b Hab Hh H1 H2.
  destruct (geodetic_fixed_point lat lon h a b Hab Hh H1 H2) as (x & y & z & G & P).
  exists x, y, z. split; [exact G|]. split; [|exact P].
  rewrite (geodetic2ecef_ab_spec _ _ _ _ _ H1 H2) in G. apply Val_inv in G. symmetry. exact G.
Qed.
Print Assumptions C17_geodetic_fixed_point_partial.

(* the longitude returned by the CODE (any exit of the loop) is the original one, for every height *)
Theorem C17_geodetic_roundtrip_lon : forall lat lon h a b x y z la lo hh,
  0 < b <= a -> - a < h -> Rabs lat < 90 -> - 180 < lon <= 180 ->
  C17_geodetic2ecef_ab_R lat lon h a b = Val [x; y; z] -> C17_ecef2geodetic_ab_u_R x y z a b = Val [la; lo; hh] -> lo = lon.
Proof. exact geodetic_roundtrip_lon. Qed.
Print Assumptions C17_geodetic_roundtrip_lon.

(* on the ellipsoid (h = 0) the whole round trip through the code is exact: latitude, longitude and height *)
Theorem C17_geodetic_roundtrip_surface_partial : forall lat lon a b, 0 < b <= a -> Rabs lat < 90 -> - 180 < lon <= 180 ->
  exists x y z, C17_geodetic2ecef_ab_R lat lon 0 a b = Val [x; y; z] /\ C17_ecef2geodetic_ab_u_R x y z a b = Val [lat; lon; 0].
Proof. exact geodetic_roundtrip_surface. Qed.
Print Assumptions C17_geodetic_roundtrip_surface_partial.

(* CONVERGENCE.  The loop body is a global contraction towards the geodetic latitude: for EVERY real phi,
   |T(phi) - phi_g| <= k |phi - phi_g| with k = Lip/(a + h - 2 Lip), Lip = e^2 a/(1 - e^2)^3 (WGS84, h >= -10 km: k <= 0.0070) *)
Theorem C17_loop_body_contraction : forall lat lon h a b x y z phi,
  0 < b <= a -> - a < h -> Rabs lat < 90 -> Rabs lon <= 180 -> 2 * Lip a b < a + h ->
  C17_geodetic2ecef_ab_R lat lon h a b = Val [x; y; z] ->
  Rabs (Tgeo a b (sqrt (x ^ 2 + y ^ 2)) z phi - rad lat) <= Lip a b / (a + h - 2 * Lip a b) * Rabs (phi - rad lat).
Proof. exact T_contraction_code. Qed.
Print Assumptions C17_loop_body_contraction.

(* geodetic -> ECEF -> geodetic THROUGH THE CODE (every exit of the loop, incl. the zero-iteration exit at the equator), any
   height: for q bounding the contraction factor and the relative error of the first estimate, the returned latitude is within
   delta*q/(1-q) rad of the original, the longitude is exact, and the height is off by at most the stated bound.
   PARTIAL only in that |lat| = 90 is excluded (see C17_pole_height_limit) and the loop is the 6-test unrolling
   (C17_unrolled_is_model; Raise OtherError leaves are not Val, so nothing is claimed for more than 5 iterations —
   the search oracle observes at most 3). *)
Theorem C17_geodetic_roundtrip_bound_partial : forall lat lon h a b q x y z la lo hh,
  0 < b <= a -> - a < h -> Rabs lat < 90 -> - 180 < lon <= 180 -> 0 <= q < 1 ->
  2 * Lip a b < a + h -> Lip a b <= q * (a + h - 2 * Lip a b) ->
  ecc2 a b * Rabs h < (1 - ecc2 a b) * (a + h) ->
  ecc2 a b * Rabs h <= q * ((1 - ecc2 a b) * (a + h) - ecc2 a b * Rabs h) ->
  C17_geodetic2ecef_ab_R lat lon h a b = Val [x; y; z] -> C17_ecef2geodetic_ab_u_R x y z a b = Val [la; lo; hh] ->
  let eps := geo_delta * q / (1 - q) in
  let M := Nrad a b (rad lat) + h in
  Rabs (rad la - rad lat) <= eps /\ lo = lon /\
  (eps < cos (rad lat) -> Rabs (hh - h) <= M * eps / (cos (rad lat) - eps) + Lip a b * (geo_delta + eps)).
Proof. exact geodetic_roundtrip_bound. Qed.
Print Assumptions C17_geodetic_roundtrip_bound_partial.

(* Earth-like ellipsoids (e^2 <= 0.012), heights between -a/100 and a/6 (WGS84: -63 km .. 1063 km): q = 1/75, so the
   returned latitude is within 1e-8/74 rad — less than 1e-8 degrees — of the original, and the longitude is exact *)
Theorem C17_geodetic_roundtrip_earthlike_partial : forall lat lon h a b x y z la lo hh,
  0 < b <= a -> ecc2 a b <= 3 / 250 -> - a / 100 <= h <= a / 6 -> Rabs lat < 90 -> - 180 < lon <= 180 ->
  C17_geodetic2ecef_ab_R lat lon h a b = Val [x; y; z] -> C17_ecef2geodetic_ab_u_R x y z a b = Val [la; lo; hh] ->
  Rabs (rad la - rad lat) <= geo_delta / 74 /\ Rabs (la - lat) <= 1 / 100000000 /\ lo = lon.
Proof. exact geodetic_roundtrip_earthlike. Qed.
Print Assumptions C17_geodetic_roundtrip_earthlike_partial.

(* the pole: the height formula is constant = h = |z_pole| - b along the whole meridian |phi| < 90 deg, hence tends to
   |z_pole| - b as cos(phi) -> 0; the real model's value AT the pole is 0/0 (C17_pole_real_model); the binary64 code
   relies on cos(fl(pi/2)) = 6.1e-17 appearing in both p and cos(lat) *)
Theorem C17_pole_height_limit : forall a b h lam, 0 < b <= a -> - b < h ->
  let zp := (Nrad a b (PI / 2) * (1 - ecc2 a b) + h) * sin (PI / 2) in
  Rabs zp - b = h /\
  (forall phi, - (PI / 2) < phi < PI / 2 ->
     let N := Nrad a b phi in
     let p := sqrt (((N + h) * cos phi * cos lam) ^ 2 + ((N + h) * cos phi * sin lam) ^ 2) in
     geo_height p phi N = Rabs zp - b) /\
  (forall eps, 0 < eps -> exists alp, 0 < alp /\ forall phi, - (PI / 2) < phi < PI / 2 -> Rabs (phi - PI / 2) < alp ->
     let N := Nrad a b phi in
     let p := sqrt (((N + h) * cos phi * cos lam) ^ 2 + ((N + h) * cos phi * sin lam) ^ 2) in
     Rabs (geo_height p phi N - (Rabs ((Nrad a b (PI / 2) * (1 - ecc2 a b) + h) * sin (PI / 2)) - b)) < eps).
Proof.
  intros a b h lam Hab Hb. cbv zeta. destruct (pole_height_limit a b h lam Hab Hb) as [A B].
  split; [exact A|]. split; [exact B|exact (pole_height_limit_eps a b h lam Hab Hb)].
Qed.
Print Assumptions C17_pole_height_limit.

(* the antimeridian: the returned longitude equals the original modulo 360; it differs (by +360) only for lon = -180 *)
Theorem C17_geodetic_roundtrip_lon_mod360 : forall lat lon h a b x y z la lo hh,
  0 < b <= a -> - a < h -> Rabs lat < 90 -> Rabs lon <= 180 ->
  C17_geodetic2ecef_ab_R lat lon h a b = Val [x; y; z] -> C17_ecef2geodetic_ab_u_R x y z a b = Val [la; lo; hh] ->
  (lon <> -180 -> lo = lon) /\ (lon = -180 -> lo = lon + 360) /\ - 180 < lo <= 180.
Proof. exact geodetic_roundtrip_lon_mod360. Qed.
Print Assumptions C17_geodetic_roundtrip_lon_mod360.

(* geodetic2ecef rejects exactly the out-of-range angles *)
Theorem C17_geodetic2ecef_domain : forall lat lon h,
  (Rabs lat <= 90 -> Rabs lon <= 180 -> exists x y z, C17_geodetic2ecef_R lat lon h = Val [x; y; z]) /\
  (90 < Rabs lat \/ 180 < Rabs lon -> C17_geodetic2ecef_R lat lon h = Raise ValueError).
Proof. intros. split; [apply geodetic2ecef_val|apply geodetic2ecef_raises]. Qed.
Print Assumptions C17_geodetic2ecef_domain.

(* why the guard |lat| < 90: at a pole the real-number height formula is p / cos(PI/2) - N with p = 0, i.e. -N in Coq *)
Theorem C17_pole_real_model : forall N, geo_height 0 (PI / 2) N = - N.
Proof. exact pole_height_degenerate. Qed.
Print Assumptions C17_pole_real_model.
