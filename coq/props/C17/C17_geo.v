(* C17_geo.v — geodetic <-> ECEF (ahrs/common/frames.py:46-114, 196-296).
   (1) the regenerated K-times unrolled trace of the PUBLIC ecef2geodetic equals the hand model of
       coq/model/C17_geodetic.v with the same fuel (so the model's loop body T is the code's loop body);
   (2) geodetic2ecef computes the textbook formulas; (3) the true latitude is a fixed point of T, the height formula
       returns h there, the longitude is recovered; (4) on the ellipsoid (h = 0) the whole round trip through the code is exact. *)
From Coq Require Import Reals List Lra.
From AhrsLib Require Import Base Rot FramesLib.
From AhrsModel Require Import C17_geodetic.
From AhrsGen Require Import C17gen_R.
From AhrsProps Require Import C17_linear.
Import ListNotations.
Open Scope R_scope.

(* ---------------------------------------------------------------- (1) generated unrolled code = hand model *)
Lemma unrolled_is_model x y z a b : C17_ecef2geodetic_ab_u_R x y z a b = ecef2geodetic_model 5 a b x y z.
Proof.
  unfold C17_ecef2geodetic_ab_u_R, ecef2geodetic_model. cbv zeta.
  unfold geo_loop, phi_init, Tgeo, Nrad, geo_height, geo_delta, ecc2.
  rewrite Rminus_0_l, Rabs_Ropp.
  repeat (destr_dec; try reflexivity).
Qed.

(* ecef2lla is a synonym of ecef2geodetic *)
Lemma lla_is_geodetic x y z : C17_ecef2lla_u_R x y z = C17_ecef2geodetic_u_R x y z.
Proof. reflexivity. Qed.

(* every value the model returns carries the longitude atan2(y, x) in degrees *)
Lemma model_lon fuel a b x y z la lo hh :
  ecef2geodetic_model fuel a b x y z = Val [la; lo; hh] -> lo = atan2 y x * (180 / PI).
Proof.
  unfold ecef2geodetic_model. cbv zeta.
  destruct (geo_loop fuel a b (sqrt (x ^ 2 + y ^ 2)) z 0 _ _) as [[lat N]|]; [|discriminate].
  intros H. apply Val_inv3 in H. destruct H as (_ & H & _). symmetry. exact H.
Qed.

(* ---------------------------------------------------------------- ellipsoid facts *)
Lemma ecc2_range a b : 0 < b <= a -> 0 <= ecc2 a b < 1.
Proof.
  intros [Hb Hab]. unfold ecc2.
  assert (Hq : 0 < b / a <= 1).
  { split; [apply Rdiv_lt_0_compat; lra|].
    apply (Rmult_le_reg_r a); [lra|]. unfold Rdiv. rewrite Rmult_assoc, Rinv_l by lra. lra. }
  replace ((a ^ 2 - b ^ 2) / a ^ 2) with (1 - (b / a) * (b / a)) by (field; lra). nra.
Qed.

Lemma sin2_le1 t : 0 <= sin t ^ 2 <= 1.
Proof. pose proof (sc_unit t). simpl. nra. Qed.

Lemma Nrad_radicand a b phi : 0 < b <= a -> 0 < 1 - ecc2 a b * sin phi ^ 2 <= 1.
Proof. intros H. pose proof (ecc2_range a b H). pose proof (sin2_le1 phi). nra. Qed.

Lemma Nrad_ge_a a b phi : 0 < b <= a -> a <= Nrad a b phi.
Proof.
  intros H. pose proof (Nrad_radicand a b phi H) as [W0 W1]. unfold Nrad.
  set (w := 1 - ecc2 a b * sin phi ^ 2) in *.
  assert (S0 : 0 < sqrt w) by (apply sqrt_lt_R0; exact W0).
  assert (S1 : sqrt w <= 1) by (rewrite <- sqrt_1; apply sqrt_le_1; lra).
  apply (Rmult_le_reg_r (sqrt w)); [exact S0|]. unfold Rdiv. rewrite Rmult_assoc, Rinv_l by lra. nra.
Qed.

(* ---------------------------------------------------------------- (2) geodetic2ecef = the textbook formulas *)
Lemma geodetic2ecef_ab_spec lat lon h a b : Rabs lat <= 90 -> Rabs lon <= 180 ->
  C17_geodetic2ecef_ab_R lat lon h a b = Val (geodetic2ecef_spec a b (rad lat) (rad lon) h).
Proof.
  intros H1 H2. unfold C17_geodetic2ecef_ab_R, geodetic2ecef_spec, Nrad, ecc2, rad. cbv zeta. guards. val_eq; ring.
Qed.

Lemma Rabs_le_inv x m : Rabs x <= m -> - m <= x <= m.
Proof. unfold Rabs. destruct (Rcase_abs x); lra. Qed.

Lemma rad_range d m : Rabs d <= m -> - (m * (1 / 180 * PI)) <= rad d <= m * (1 / 180 * PI).
Proof.
  intros H. pose proof PI_RGT_0. unfold rad. apply Rabs_le_inv in H.
  assert (0 < 1 / 180 * PI) by lra. split; nra.
Qed.

(* ---------------------------------------------------------------- (3) fixed point, height, longitude *)
Section FixedPoint.
  Variables a b phi lam h : R.
  Hypothesis Hab : 0 < b <= a.
  Hypothesis Hh : - a < h.
  Hypothesis Hphi : - (PI / 2) <= phi <= PI / 2.

  Let N := Nrad a b phi.
  Let x := (N + h) * cos phi * cos lam.
  Let y := (N + h) * cos phi * sin lam.
  Let z := (N * (1 - ecc2 a b) + h) * sin phi.
  Let p := sqrt (x ^ 2 + y ^ 2).

  Lemma NH_pos : 0 < N + h.
  Proof. pose proof (Nrad_ge_a a b phi Hab). unfold N. lra. Qed.

  Lemma cos_phi_nonneg : 0 <= cos phi.
  Proof. apply cos_ge_0; lra. Qed.

  Lemma p_closed : p = (N + h) * cos phi.
  Proof.
    unfold p, x, y. pose proof NH_pos. pose proof cos_phi_nonneg.
    assert (Hu : sin lam * sin lam = 1 - cos lam * cos lam) by (pose proof (sc_unit lam); lra).
    replace (((N + h) * cos phi * cos lam) ^ 2 + ((N + h) * cos phi * sin lam) ^ 2)
      with (((N + h) * cos phi) * ((N + h) * cos phi)) by ring [Hu].
    rewrite sqrt_sq_abs, Rabs_right; [reflexivity|nra].
  Qed.

  (* the geodetic latitude is a fixed point of the loop body — the poles included *)
  Lemma T_fixed_point : Tgeo a b p z phi = phi.
  Proof.
    unfold Tgeo. rewrite p_closed. fold N. pose proof PI_RGT_0.
    replace (z + ecc2 a b * N * sin phi) with ((N + h) * sin phi) by (unfold z; ring).
    apply atan2_polar; [exact NH_pos|lra].
  Qed.

  (* away from the poles the height formula returns h at the fixed point *)
  Lemma height_at_fixed_point : - (PI / 2) < phi < PI / 2 -> geo_height p phi N = h.
  Proof.
    intros Hs. unfold geo_height. rewrite p_closed.
    assert (0 < cos phi) by (apply cos_gt_0; lra). field. lra.
  Qed.

  (* and the longitude is recovered *)
  Lemma lon_recovered : - (PI / 2) < phi < PI / 2 -> - PI < lam <= PI -> atan2 y x = lam.
  Proof.
    intros Hs Hl. unfold x, y.
    assert (0 < cos phi) by (apply cos_gt_0; lra). pose proof NH_pos.
    apply atan2_polar; [nra|exact Hl].
  Qed.

  (* on the ellipsoid the initial estimate is already the latitude *)
  Lemma init_exact_on_surface : h = 0 -> - (PI / 2) < phi < PI / 2 -> phi_init a b p z = phi.
  Proof.
    intros Hz Hs. unfold phi_init. rewrite p_closed. unfold z. pose proof PI_RGT_0.
    pose proof (ecc2_range a b Hab). pose proof NH_pos as HN. rewrite Hz in HN |- *. rewrite Rplus_0_r in HN.
    replace ((N * (1 - ecc2 a b) + 0) * sin phi) with ((1 - ecc2 a b) * N * sin phi) by ring.
    replace ((1 - ecc2 a b) * ((N + 0) * cos phi)) with ((1 - ecc2 a b) * N * cos phi) by ring.
    apply atan2_polar; [nra|lra].
  Qed.

  (* hence the model returns (phi, lam, 0) exactly, after zero or one pass through the loop *)
  Lemma model_exact_on_surface fuel : h = 0 -> - (PI / 2) < phi < PI / 2 -> - PI < lam <= PI ->
    ecef2geodetic_model (S fuel) a b x y z = Val [phi * (180 / PI); lam * (180 / PI); 0].
  Proof.
    intros Hz Hs Hl. unfold ecef2geodetic_model. cbv zeta. fold p.
    rewrite (init_exact_on_surface Hz Hs). fold N.
    assert (R : geo_loop (S fuel) a b p z 0 phi N = Some (phi, N)).
    { simpl. destruct (Rlt_dec geo_delta (Rabs (0 - phi))); [|reflexivity].
      rewrite T_fixed_point. fold N.
      destruct fuel; simpl;
        (destruct (Rlt_dec geo_delta (Rabs (phi - phi))) as [C|C]; [|reflexivity]);
        exfalso; revert C; unfold Rminus; rewrite Rplus_opp_r, Rabs_R0; unfold geo_delta; lra. }
    rewrite R. rewrite (lon_recovered Hs Hl), (height_at_fixed_point Hs). rewrite Hz. reflexivity.
  Qed.
End FixedPoint.

(* ---------------------------------------------------------------- statements over the generated definitions *)
Lemma deg_guard_lat lat : Rabs lat <= 90 -> - (PI / 2) <= rad lat <= PI / 2.
Proof. intros H. pose proof (rad_range lat 90 H). lra. Qed.
Lemma deg_guard_lat_strict lat : Rabs lat < 90 -> - (PI / 2) < rad lat < PI / 2.
Proof.
  intros H. pose proof PI_RGT_0. unfold rad. apply Rabs_def2 in H. assert (0 < 1 / 180 * PI) by lra. split; nra.
Qed.
Lemma deg_guard_lon lon : - 180 < lon <= 180 -> - PI < rad lon <= PI.
Proof. intros H. pose proof PI_RGT_0. unfold rad. assert (0 < 1 / 180 * PI) by lra. split; nra. Qed.

Lemma geodetic_fixed_point lat lon h a b : 0 < b <= a -> - a < h -> Rabs lat <= 90 -> Rabs lon <= 180 ->
  exists x y z, C17_geodetic2ecef_ab_R lat lon h a b = Val [x; y; z] /\
    let p := sqrt (x ^ 2 + y ^ 2) in
    Tgeo a b p z (rad lat) = rad lat /\
    (Rabs lat < 90 -> geo_height p (rad lat) (Nrad a b (rad lat)) = h) /\
    (Rabs lat < 90 -> - 180 < lon -> atan2 y x * (180 / PI) = lon).
Proof.
  intros Hab Hh H1 H2. rewrite (geodetic2ecef_ab_spec _ _ _ _ _ H1 H2). unfold geodetic2ecef_spec.
  eexists; eexists; eexists. split; [reflexivity|]. cbv zeta.
  pose proof (deg_guard_lat lat H1) as P1.
  split; [exact (T_fixed_point a b (rad lat) (rad lon) h Hab Hh P1)|]. split.
  - intros Hs. exact (height_at_fixed_point a b (rad lat) (rad lon) h Hab Hh P1 (deg_guard_lat_strict lat Hs)).
  - intros Hs Hl. apply Rabs_le_inv in H2.
    rewrite (lon_recovered a b (rad lat) (rad lon) h Hab Hh (deg_guard_lat_strict lat Hs)).
    + unfold rad. field. apply PI_neq0.
    + apply deg_guard_lon. lra.
Qed.

(* longitude through the CODE (every exit of the unrolled loop), any height *)
Lemma geodetic_roundtrip_lon lat lon h a b x y z la lo hh : 0 < b <= a -> - a < h -> Rabs lat < 90 -> - 180 < lon <= 180 ->
  C17_geodetic2ecef_ab_R lat lon h a b = Val [x; y; z] -> C17_ecef2geodetic_ab_u_R x y z a b = Val [la; lo; hh] -> lo = lon.
Proof.
  intros Hab Hh H1 H2 G E.
  assert (L1 : Rabs lat <= 90) by lra. assert (L2 : Rabs lon <= 180) by (apply Rabs_le; lra).
  rewrite (geodetic2ecef_ab_spec _ _ _ _ _ L1 L2) in G. unfold geodetic2ecef_spec in G. apply Val_inv3 in G.
  destruct G as (<- & <- & <-).
  rewrite unrolled_is_model in E. apply model_lon in E. rewrite E.
  rewrite (lon_recovered a b (rad lat) (rad lon) h Hab Hh (deg_guard_lat_strict lat H1) (deg_guard_lon lon H2)).
  unfold rad. field. apply PI_neq0.
Qed.

(* the whole round trip through the CODE is exact on the ellipsoid *)
Lemma geodetic_roundtrip_surface lat lon a b : 0 < b <= a -> Rabs lat < 90 -> - 180 < lon <= 180 ->
  exists x y z, C17_geodetic2ecef_ab_R lat lon 0 a b = Val [x; y; z] /\ C17_ecef2geodetic_ab_u_R x y z a b = Val [lat; lon; 0].
Proof.
  intros Hab H1 H2.
  assert (L1 : Rabs lat <= 90) by lra. assert (L2 : Rabs lon <= 180) by (apply Rabs_le; lra).
  assert (Hh : - a < 0) by lra.
  rewrite (geodetic2ecef_ab_spec _ _ _ _ _ L1 L2). unfold geodetic2ecef_spec.
  eexists; eexists; eexists. split; [reflexivity|].
  rewrite unrolled_is_model.
  rewrite (model_exact_on_surface a b (rad lat) (rad lon) 0 Hab Hh (deg_guard_lat lat L1) 4 eq_refl
             (deg_guard_lat_strict lat H1) (deg_guard_lon lon H2)).
  unfold rad. val_eq; field; apply PI_neq0.
Qed.

(* why the theorems stop short of the poles: in the real-number model the height formula degenerates there
   (p = 0 and cos(PI/2) = 0, Coq's 0/0 = 0), while binary64 has cos(pi/2) = 6.1e-17 on both legs of the round trip *)
Lemma pole_height_degenerate N : geo_height 0 (PI / 2) N = - N.
Proof. unfold geo_height. rewrite cos_PI2. unfold Rdiv. ring. Qed.

(* non-vacuity: WGS84 *)
Example geo_nonvacuous : 0 < 63567523142 / 10000 <= 6378137 /\ - 6378137 < -10000 /\ Rabs 45 < 90 /\ -180 < 30 <= 180.
Proof. split; [lra|]. split; [lra|]. split; [rewrite Rabs_right; lra|lra]. Qed.
