(* C17_conv.v — convergence of the ecef2geodetic iteration (ahrs/common/frames.py:280-296).
   The loop body T is a GLOBAL contraction towards the geodetic latitude phi_g with the explicit factor
       k = Lip / (M - 2 Lip),   Lip = e^2 a / (1 - e^2)^3,   M = N(phi_g) + h,
   the first estimate is within kappa*|sin phi_g| of phi_g, hence every exit of the loop (|lat - lat_old| <= delta) returns a
   latitude within delta*q/(1-q) of phi_g (q >= k, kappa), and the height formula is off by at most
   M eps/(cos phi_g - eps) + Lip (delta + eps).  Stated at the end for the regenerated code and for Earth-like ellipsoids. *)
From Coq Require Import Reals List Lra.
From AhrsLib Require Import Base Rot FramesLib.
From AhrsModel Require Import C17_geodetic.
From AhrsGen Require Import C17gen_R.
From AhrsProps Require Import C17_linear C17_geo.
Import ListNotations.
Open Scope R_scope.

(* ---------------------------------------------------------------- analytic bounds *)
Lemma sin_lipschitz x y : Rabs (sin y - sin x) <= Rabs (y - x).
Proof.
  destruct (MVT_abs sin cos x y) as (c & H & _); [intros; apply derivable_pt_lim_sin|].
  rewrite H. pose proof (COS_bound c) as [C1 C2]. pose proof (Rabs_pos (y - x)).
  assert (Rabs (cos c) <= 1) by (apply Rabs_le; lra). nra.
Qed.

Lemma cos_lipschitz x y : Rabs (cos y - cos x) <= Rabs (y - x).
Proof.
  destruct (MVT_abs cos (fun t => - sin t) x y) as (c & H & _); [intros; apply derivable_pt_lim_cos|].
  rewrite H. pose proof (SIN_bound c) as [C1 C2]. pose proof (Rabs_pos (y - x)).
  assert (Rabs (- sin c) <= 1) by (apply Rabs_le; lra). nra.
Qed.

Lemma Rabs_sin_le x : Rabs (sin x) <= Rabs x.
Proof. pose proof (sin_lipschitz 0 x) as H. rewrite sin_0, !Rminus_0_r in H. exact H. Qed.

Lemma atan_abs_le t : Rabs (atan t) <= Rabs t.
Proof.
  destruct (MVT_abs atan (fun x => / (1 + x ^ 2)) 0 t) as (c & H & _); [intros; apply derivable_pt_lim_atan|].
  rewrite atan_0, !Rminus_0_r in H. rewrite H. pose proof (Rabs_pos t).
  assert (0 < / (1 + c ^ 2) <= 1).
  { assert (1 <= 1 + c ^ 2) by (simpl; nra). split; [apply Rinv_0_lt_compat; lra|].
    rewrite <- Rinv_1. apply Rinv_le_contravar; lra. }
  rewrite (Rabs_right (/ (1 + c ^ 2))) by lra. nra.
Qed.

Lemma cos_pos_range d : - PI < d < PI -> 0 < cos d -> - (PI / 2) < d < PI / 2.
Proof.
  intros [H1 H2] Hc. split.
  - destruct (Rlt_dec (- (PI / 2)) d) as [|N]; [assumption|exfalso].
    assert (cos (- d) <= 0) by (apply cos_le_0; lra). rewrite cos_neg in *. lra.
  - destruct (Rlt_dec d (PI / 2)) as [|N]; [assumption|exfalso].
    assert (cos d <= 0) by (apply cos_le_0; lra). lra.
Qed.

(* the angle of (M cos phi, M sin phi + D) differs from phi by at most |D| cos phi / (M - |D|) *)
Lemma atan2_perturb M D phi : 0 < M -> Rabs D < M -> - (PI / 2) < phi < PI / 2 ->
  Rabs (atan2 (M * sin phi + D) (M * cos phi) - phi) <= Rabs D * cos phi / (M - Rabs D).
Proof.
  intros HM HD Hphi. pose proof PI_RGT_0 as Hpi.
  assert (Hc : 0 < cos phi) by (apply cos_gt_0; lra).
  set (Y := M * sin phi + D). set (p := M * cos phi). assert (Hp : 0 < p) by (unfold p; nra).
  set (th := atan2 Y p).
  assert (Hth : - (PI / 2) < th < PI / 2).
  { unfold th, atan2. destruct (Rlt_dec 0 p); [|lra]. pose proof (atan_bound (Y / p)). lra. }
  destruct (polar_atan2 p Y) as [P1 P2]. fold th in P1, P2.
  set (rho := sqrt (p * p + Y * Y)) in *.
  assert (Hrho : 0 < rho).
  { unfold rho. apply sqrt_lt_R0. nra. }
  pose proof (SIN_bound phi) as [S1 S2]. apply Rabs_def2 in HD. destruct HD as [HD1 HD2].
  assert (HDabs : Rabs D <= Rabs D) by lra.
  assert (Hden : 0 < M + D * sin phi).
  { destruct (Rle_dec 0 D); nra. }
  assert (Hs : rho * sin (th - phi) = D * cos phi).
  { rewrite sin_minus. pose proof (sc_unit phi). unfold Y, p in *. nra. }
  assert (Hk : rho * cos (th - phi) = M + D * sin phi).
  { rewrite cos_minus. pose proof (sc_unit phi). unfold Y, p in *. nra. }
  assert (Hcd : 0 < cos (th - phi)) by nra.
  assert (Hd : - (PI / 2) < th - phi < PI / 2) by (apply cos_pos_range; [lra|exact Hcd]).
  assert (Ht : tan (th - phi) = D * cos phi / (M + D * sin phi)).
  { unfold tan. rewrite <- Hs, <- Hk. field. split; lra. }
  rewrite <- (atan_tan (th - phi)) by lra. rewrite Ht.
  eapply Rle_trans; [apply atan_abs_le|].
  unfold Rdiv. rewrite Rabs_mult, Rabs_mult, (Rabs_right (cos phi)) by lra.
  rewrite (Rabs_right (/ (M + D * sin phi))) by (left; apply Rinv_0_lt_compat; lra).
  assert (HM' : 0 < M - Rabs D) by (unfold Rabs; destruct (Rcase_abs D); lra).
  assert (Hle : M - Rabs D <= M + D * sin phi).
  { unfold Rabs. destruct (Rcase_abs D); nra. }
  apply Rmult_le_compat_l; [pose proof (Rabs_pos D); nra|].
  apply Rinv_le_contravar; lra.
Qed.

(* ---------------------------------------------------------------- algebraic Lipschitz bounds for s/w(s), 1/w(s),
   w(s) = sqrt(1 - E s^2) *)
Section Alg.
  Variables E s t u v : R.
  Hypothesis HE : 0 <= E < 1.
  Hypothesis Hs : -1 <= s <= 1.
  Hypothesis Ht : -1 <= t <= 1.
  Hypothesis Hu : 0 < u.
  Hypothesis Hv : 0 < v.
  Hypothesis Hu2 : u * u = 1 - E * (s * s).
  Hypothesis Hv2 : v * v = 1 - E * (t * t).

  Lemma w_bounds : 1 - E <= u <= 1 /\ 1 - E <= v <= 1.
  Proof.
    assert (S2 : 0 <= s * s <= 1) by nra. assert (T2 : 0 <= t * t <= 1) by nra.
    assert (U1 : u <= 1) by (destruct (Rle_dec u 1); [assumption|exfalso; nra]).
    assert (V1 : v <= 1) by (destruct (Rle_dec v 1); [assumption|exfalso; nra]).
    assert (U0 : u * u <= u) by nra. assert (V0 : v * v <= v) by nra.
    repeat split; nra.
  Qed.

  Lemma cross_lip : Rabs (s * v - t * u) * (1 - E) <= Rabs (s - t).
  Proof.
    destruct w_bounds as [[U1 U2] [V1 V2]].
    assert (Id : (s * v - t * u) * (u + v) = (s - t) * (v * (u + v) + E * t * (s + t))).
    { assert (X : t * (v * v - u * u) - E * t * (s * s - t * t) = 0) by (rewrite Hu2, Hv2; ring).
      replace ((s * v - t * u) * (u + v))
        with ((s - t) * (v * (u + v) + E * t * (s + t)) + (t * (v * v - u * u) - E * t * (s * s - t * t))) by ring.
      rewrite X. ring. }
    assert (A : Rabs (s * v - t * u) * (u + v) = Rabs (s - t) * Rabs (v * (u + v) + E * t * (s + t))).
    { rewrite <- (Rabs_right (u + v)) at 1 by lra. rewrite <- !Rabs_mult. f_equal. exact Id. }
    assert (C : Rabs (v * (u + v) + E * t * (s + t)) * (1 - E) <= u + v).
    { assert (Rabs (v * (u + v) + E * t * (s + t)) <= v * (u + v) + 2 * E).
      { assert (Q : -2 <= t * (s + t) <= 2) by nra. apply Rabs_le. split; nra. }
      assert (0 < v * (u + v)) by nra.
      assert (Q1 : v * (u + v) <= u + v) by nra.
      assert (Q2 : (1 - E) * (v * (u + v)) <= (1 - E) * (u + v)) by (apply Rmult_le_compat_l; lra).
      assert (Q3 : 2 * E * (1 - E) <= E * (u + v)) by nra.
      set (R0 := Rabs (v * (u + v) + E * t * (s + t))) in *.
      assert (R0 * (1 - E) <= (v * (u + v) + 2 * E) * (1 - E)) by (apply Rmult_le_compat_r; lra).
      nra. }
    pose proof (Rabs_pos (s - t)). pose proof (Rabs_pos (s * v - t * u)).
    apply (Rmult_le_reg_r (u + v)); [lra|]. nra.
  Qed.

  Lemma quot_lip : Rabs (s / u - t / v) * (1 - E) ^ 3 <= Rabs (s - t).
  Proof.
    destruct w_bounds as [[U1 U2] [V1 V2]]. pose proof cross_lip as CL.
    replace (s / u - t / v) with ((s * v - t * u) * / (u * v)) by (field; lra).
    assert (Huv : 0 < u * v) by nra.
    rewrite Rabs_mult, (Rabs_right (/ (u * v))) by (left; apply Rinv_0_lt_compat; exact Huv).
    pose proof (Rabs_pos (s * v - t * u)) as PA.
    assert (Hinv : / (u * v) * ((1 - E) * (1 - E)) <= 1).
    { apply (Rmult_le_reg_l (u * v)); [exact Huv|]. rewrite <- Rmult_assoc, Rinv_r by lra. nra. }
    set (A := Rabs (s * v - t * u)) in *. set (I := / (u * v)) in *.
    replace (A * I * (1 - E) ^ 3) with ((A * (1 - E)) * (I * ((1 - E) * (1 - E)))) by (simpl; ring).
    apply Rle_trans with (A * (1 - E) * 1); [apply Rmult_le_compat_l; [nra|exact Hinv]|lra].
  Qed.

  Lemma inv_lip : Rabs (/ u - / v) * (1 - E) ^ 3 <= E * Rabs (s - t).
  Proof.
    destruct w_bounds as [[U1 U2] [V1 V2]].
    assert (Id : (v - u) * (u + v) = E * ((s - t) * (s + t))).
    { replace ((v - u) * (u + v)) with (v * v - u * u) by ring. rewrite Hu2, Hv2. ring. }
    assert (A : Rabs (v - u) * (u + v) <= 2 * E * Rabs (s - t)).
    { rewrite <- (Rabs_right (u + v)) at 1 by lra. rewrite <- Rabs_mult, Id, Rabs_mult, Rabs_mult.
      rewrite (Rabs_right E) by lra. assert (Rabs (s + t) <= 2) by (apply Rabs_le; lra).
      pose proof (Rabs_pos (s - t)) as P0.
      assert (P1 : Rabs (s - t) * Rabs (s + t) <= Rabs (s - t) * 2) by (apply Rmult_le_compat_l; lra).
      assert (P2 : E * (Rabs (s - t) * Rabs (s + t)) <= E * (Rabs (s - t) * 2)) by (apply Rmult_le_compat_l; lra).
      lra. }
    assert (B : Rabs (v - u) * (1 - E) <= E * Rabs (s - t)).
    { pose proof (Rabs_pos (v - u)) as P0. pose proof (Rabs_pos (s - t)) as P1.
      assert (P2 : Rabs (v - u) * (2 * (1 - E)) <= Rabs (v - u) * (u + v)) by (apply Rmult_le_compat_l; lra).
      lra. }
    replace (/ u - / v) with ((v - u) * / (u * v)) by (field; lra).
    assert (Huv : 0 < u * v) by nra.
    rewrite Rabs_mult, (Rabs_right (/ (u * v))) by (left; apply Rinv_0_lt_compat; exact Huv).
    pose proof (Rabs_pos (v - u)) as PA.
    assert (Hinv : / (u * v) * ((1 - E) * (1 - E)) <= 1).
    { apply (Rmult_le_reg_l (u * v)); [exact Huv|]. rewrite <- Rmult_assoc, Rinv_r by lra. nra. }
    set (A0 := Rabs (v - u)) in *. set (I := / (u * v)) in *.
    replace (A0 * I * (1 - E) ^ 3) with ((A0 * (1 - E)) * (I * ((1 - E) * (1 - E)))) by (simpl; ring).
    apply Rle_trans with (A0 * (1 - E) * 1); [apply Rmult_le_compat_l; [nra|exact Hinv]|lra].
  Qed.
End Alg.

(* ---------------------------------------------------------------- Lipschitz constant of the loop body's numerator *)
Definition Lip (a b : R) : R := ecc2 a b * a / (1 - ecc2 a b) ^ 3.
Definition wrad (a b phi : R) : R := sqrt (1 - ecc2 a b * sin phi ^ 2).

Lemma wrad_facts a b phi : 0 < b <= a ->
  0 < wrad a b phi /\ wrad a b phi * wrad a b phi = 1 - ecc2 a b * (sin phi * sin phi).
Proof.
  intros H. pose proof (Nrad_radicand a b phi H) as [W0 W1]. unfold wrad. split.
  - apply sqrt_lt_R0. exact W0.
  - rewrite sqrt_sqrt by lra. simpl. ring.
Qed.

Lemma Lip_nonneg a b : 0 < b <= a -> 0 <= Lip a b.
Proof.
  intros H. pose proof (ecc2_range a b H). unfold Lip.
  apply Rmult_le_pos; [nra|]. left. apply Rinv_0_lt_compat. apply pow_lt. lra.
Qed.

Lemma cube_pos a b : 0 < b <= a -> 0 < (1 - ecc2 a b) ^ 3.
Proof. intros H. pose proof (ecc2_range a b H). apply pow_lt. lra. Qed.

(* e^2 N(phi) sin(phi) is Lip-Lipschitz in sin(phi), hence in phi; same constant for N itself *)
Lemma F_lipschitz a b phi psi : 0 < b <= a ->
  Rabs (ecc2 a b * Nrad a b phi * sin phi - ecc2 a b * Nrad a b psi * sin psi) <= Lip a b * Rabs (sin phi - sin psi).
Proof.
  intros H. pose proof (ecc2_range a b H) as HE. pose proof (cube_pos a b H) as H3.
  destruct (wrad_facts a b phi H) as [U0 U2]. destruct (wrad_facts a b psi H) as [V0 V2].
  pose proof (quot_lip (ecc2 a b) (sin phi) (sin psi) (wrad a b phi) (wrad a b psi) HE (SIN_bound phi) (SIN_bound psi) U0 V0 U2 V2) as Q.
  unfold Nrad. fold (wrad a b phi) (wrad a b psi).
  replace (ecc2 a b * (a / wrad a b phi) * sin phi - ecc2 a b * (a / wrad a b psi) * sin psi)
    with (ecc2 a b * a * (sin phi / wrad a b phi - sin psi / wrad a b psi)) by (field; lra).
  assert (Ha : 0 <= ecc2 a b * a) by nra.
  rewrite Rabs_mult, (Rabs_right (ecc2 a b * a)) by lra.
  unfold Lip. set (X := Rabs (sin phi / wrad a b phi - sin psi / wrad a b psi)) in *.
  set (Y := Rabs (sin phi - sin psi)) in *. set (c3 := (1 - ecc2 a b) ^ 3) in *.
  assert (X <= Y / c3).
  { apply (Rmult_le_reg_r c3); [exact H3|]. unfold Rdiv. rewrite Rmult_assoc, Rinv_l by lra. lra. }
  unfold Rdiv in *. replace (ecc2 a b * a * / c3 * Y) with (ecc2 a b * a * (Y * / c3)) by ring.
  apply Rmult_le_compat_l; [exact Ha|]. lra.
Qed.

Lemma N_lipschitz a b phi psi : 0 < b <= a ->
  Rabs (Nrad a b phi - Nrad a b psi) <= Lip a b * Rabs (sin phi - sin psi).
Proof.
  intros H. pose proof (ecc2_range a b H) as HE. pose proof (cube_pos a b H) as H3.
  destruct (wrad_facts a b phi H) as [U0 U2]. destruct (wrad_facts a b psi H) as [V0 V2].
  pose proof (inv_lip (ecc2 a b) (sin phi) (sin psi) (wrad a b phi) (wrad a b psi) HE (SIN_bound phi) (SIN_bound psi) U0 V0 U2 V2) as Q.
  unfold Nrad. fold (wrad a b phi) (wrad a b psi).
  replace (a / wrad a b phi - a / wrad a b psi) with (a * (/ wrad a b phi - / wrad a b psi)) by (field; lra).
  assert (Ha : 0 <= a) by lra.
  rewrite Rabs_mult, (Rabs_right a) by lra.
  unfold Lip. set (X := Rabs (/ wrad a b phi - / wrad a b psi)) in *.
  set (Y := Rabs (sin phi - sin psi)) in *. set (c3 := (1 - ecc2 a b) ^ 3) in *.
  assert (X <= ecc2 a b * Y / c3).
  { apply (Rmult_le_reg_r c3); [exact H3|]. unfold Rdiv. rewrite Rmult_assoc, Rinv_l by lra. lra. }
  unfold Rdiv in *. replace (ecc2 a b * a * / c3 * Y) with (a * (ecc2 a b * Y * / c3)) by ring.
  apply Rmult_le_compat_l; [exact Ha|]. lra.
Qed.

(* ---------------------------------------------------------------- the loop body is a global contraction *)
Section Contraction.
  Variables a b phis lam h : R.        (* phis = the geodetic latitude (radians) of the point *)
  Hypothesis Hab : 0 < b <= a.
  Hypothesis Hh : - a < h.
  Hypothesis Hphis : - (PI / 2) < phis < PI / 2.

  Let E := ecc2 a b.
  Let Ns := Nrad a b phis.
  Let M := Ns + h.
  Let x := M * cos phis * cos lam.
  Let y := M * cos phis * sin lam.
  Let z := (Ns * (1 - E) + h) * sin phis.
  Let p := sqrt (x ^ 2 + y ^ 2).

  Lemma M_pos : 0 < M.
  Proof. unfold M, Ns. pose proof (Nrad_ge_a a b phis Hab). lra. Qed.
  Lemma M_ge : a + h <= M.
  Proof. unfold M, Ns. pose proof (Nrad_ge_a a b phis Hab). lra. Qed.

  Lemma p_is : p = M * cos phis.
  Proof.
    assert (Hp : - (PI / 2) <= phis <= PI / 2) by lra.
    exact (p_closed a b phis lam h Hab Hh Hp).
  Qed.

  (* numerator of the loop body = M sin(phis) + D(phi) *)
  Let Dn (phi : R) : R := E * Nrad a b phi * sin phi - E * Ns * sin phis.

  Lemma numerator_split phi : z + ecc2 a b * Nrad a b phi * sin phi = M * sin phis + Dn phi.
  Proof. unfold z, Dn, M, E. ring. Qed.

  Lemma Dn_bound phi : Rabs (Dn phi) <= Lip a b * Rabs (phi - phis) /\ Rabs (Dn phi) <= 2 * Lip a b.
  Proof.
    pose proof (F_lipschitz a b phi phis Hab) as F. fold E Ns in F. fold (Dn phi) in F.
    pose proof (Lip_nonneg a b Hab) as L0. pose proof (sin_lipschitz phis phi) as SL.
    assert (S2 : Rabs (sin phi - sin phis) <= 2).
    { pose proof (SIN_bound phi). pose proof (SIN_bound phis). apply Rabs_le. lra. }
    split; eapply Rle_trans; try exact F.
    - apply Rmult_le_compat_l; [exact L0|exact SL].
    - rewrite (Rmult_comm 2). apply Rmult_le_compat_l; [exact L0|exact S2].
  Qed.

  (* |T(phi) - phis| <= k |phi - phis|  for EVERY real phi,  k = Lip / (M - 2 Lip) *)
  Lemma T_contraction phi : 2 * Lip a b < M ->
    Rabs (Tgeo a b p z phi - phis) <= Lip a b / (M - 2 * Lip a b) * Rabs (phi - phis).
  Proof.
    intros HL. unfold Tgeo. rewrite numerator_split, p_is.
    destruct (Dn_bound phi) as [D1 D2]. pose proof M_pos as HM. pose proof (Lip_nonneg a b Hab) as L0.
    assert (HD : Rabs (Dn phi) < M) by lra.
    eapply Rle_trans; [apply (atan2_perturb M (Dn phi) phis HM HD Hphis)|].
    assert (Hc : 0 < cos phis <= 1) by (split; [apply cos_gt_0; lra|apply COS_bound]).
    pose proof (Rabs_pos (Dn phi)) as P0. pose proof (Rabs_pos (phi - phis)) as P1.
    assert (I1 : / (M - Rabs (Dn phi)) <= / (M - 2 * Lip a b)) by (apply Rinv_le_contravar; lra).
    assert (I0 : 0 < / (M - 2 * Lip a b)) by (apply Rinv_0_lt_compat; lra).
    assert (I2 : 0 < / (M - Rabs (Dn phi))) by (apply Rinv_0_lt_compat; lra).
    unfold Rdiv.
    apply Rle_trans with (Rabs (Dn phi) * 1 * / (M - 2 * Lip a b)).
    - apply Rle_trans with (Rabs (Dn phi) * cos phis * / (M - 2 * Lip a b)).
      + apply Rmult_le_compat_l; [nra|exact I1].
      + apply Rmult_le_compat_r; [lra|]. apply Rmult_le_compat_l; lra.
    - rewrite Rmult_1_r.
      replace (Lip a b * / (M - 2 * Lip a b) * Rabs (phi - phis)) with (Lip a b * Rabs (phi - phis) * / (M - 2 * Lip a b)) by ring.
      apply Rmult_le_compat_r; lra.
  Qed.

  (* the first estimate atan2(z, (1-e^2) p) is within kappa |sin phis| of phis, kappa = e^2|h| / ((1-e^2) M - e^2|h|) *)
  Lemma init_error : E * Rabs h < (1 - E) * M ->
    Rabs (phi_init a b p z - phis) <= E * Rabs h / ((1 - E) * M - E * Rabs h) * Rabs (sin phis).
  Proof.
    intros Hk. unfold phi_init. rewrite p_is. fold E.
    pose proof (ecc2_range a b Hab) as HE. fold E in HE. pose proof M_pos as HM.
    replace z with ((1 - E) * M * sin phis + E * h * sin phis) by (unfold z, M; ring).
    replace ((1 - E) * (M * cos phis)) with ((1 - E) * M * cos phis) by ring.
    assert (HM0 : 0 < (1 - E) * M) by nra.
    pose proof (SIN_bound phis) as [S1 S2].
    assert (HS : Rabs (sin phis) <= 1) by (apply Rabs_le; lra).
    assert (HD0 : Rabs (E * h * sin phis) = E * Rabs h * Rabs (sin phis)).
    { rewrite !Rabs_mult, (Rabs_right E) by lra. ring. }
    pose proof (Rabs_pos h) as Ph. pose proof (Rabs_pos (sin phis)) as Ps.
    assert (Q0 : 0 <= E * Rabs h) by nra.
    assert (Q1 : E * Rabs h * Rabs (sin phis) <= E * Rabs h * 1) by (apply Rmult_le_compat_l; lra).
    assert (HD : Rabs (E * h * sin phis) < (1 - E) * M) by (rewrite HD0; lra).
    eapply Rle_trans; [apply (atan2_perturb ((1 - E) * M) (E * h * sin phis) phis HM0 HD Hphis)|].
    assert (Hc : 0 < cos phis <= 1) by (split; [apply cos_gt_0; lra|apply COS_bound]).
    rewrite HD0.
    assert (I1 : / ((1 - E) * M - E * Rabs h * Rabs (sin phis)) <= / ((1 - E) * M - E * Rabs h)).
    { apply Rinv_le_contravar; lra. }
    assert (I0 : 0 < / ((1 - E) * M - E * Rabs h)) by (apply Rinv_0_lt_compat; lra).
    unfold Rdiv.
    apply Rle_trans with (E * Rabs h * Rabs (sin phis) * 1 * / ((1 - E) * M - E * Rabs h)).
    - apply Rle_trans with (E * Rabs h * Rabs (sin phis) * cos phis * / ((1 - E) * M - E * Rabs h)).
      + assert (Q2 : 0 <= E * Rabs h * Rabs (sin phis)) by (apply Rmult_le_pos; lra).
        apply Rmult_le_compat_l; [|exact I1]. apply Rmult_le_pos; lra.
      + assert (Q2 : 0 <= E * Rabs h * Rabs (sin phis)) by (apply Rmult_le_pos; lra).
        apply Rmult_le_compat_r; [lra|]. apply Rmult_le_compat_l; lra.
    - right. ring.
  Qed.

  (* ------------------------------------------------------------ every exit of the loop is close to phis *)
  Variable q : R.
  Hypothesis Hq : 0 <= q < 1.
  Hypothesis HL : 2 * Lip a b < M.
  Hypothesis Hk : Lip a b / (M - 2 * Lip a b) <= q.
  Hypothesis Hkap0 : E * Rabs h < (1 - E) * M.
  Hypothesis Hkap : E * Rabs h / ((1 - E) * M - E * Rabs h) <= q.

  Let eps := geo_delta * q / (1 - q).

  Lemma eps_fix e d : 0 <= d <= geo_delta -> e <= q * (d + e) -> e <= eps.
  Proof.
    intros Hd He. unfold eps. apply (Rmult_le_reg_r (1 - q)); [lra|].
    unfold Rdiv. rewrite Rmult_assoc, Rinv_l by lra. nra.
  Qed.

  Lemma T_q phi : Rabs (Tgeo a b p z phi - phis) <= q * Rabs (phi - phis).
  Proof.
    eapply Rle_trans; [apply (T_contraction phi HL)|]. apply Rmult_le_compat_r; [apply Rabs_pos|exact Hk].
  Qed.

  (* invariant of the recursive calls: the current latitude is T of the previous one and N was computed from the previous one *)
  Lemma loop_exit_T fuel : forall lo lat Nr,
    geo_loop fuel a b p z lo (Tgeo a b p z lo) (Nrad a b lo) = Some (lat, Nr) ->
    Rabs (lat - phis) <= eps /\ exists lo', Nr = Nrad a b lo' /\ Rabs (lo' - lat) <= geo_delta.
  Proof.
    assert (Exit : forall lo, ~ geo_delta < Rabs (lo - Tgeo a b p z lo) -> Rabs (Tgeo a b p z lo - phis) <= eps).
    { intros lo C. apply (eps_fix _ (Rabs (lo - Tgeo a b p z lo))); [split; [apply Rabs_pos|lra]|].
      eapply Rle_trans; [apply T_q|]. apply Rmult_le_compat_l; [lra|].
      replace (lo - phis) with ((lo - Tgeo a b p z lo) + (Tgeo a b p z lo - phis)) by ring. apply Rabs_triang. }
    induction fuel as [|f IH]; intros lo lat Nr; simpl.
    - destruct (Rlt_dec geo_delta (Rabs (lo - Tgeo a b p z lo))) as [C|C]; [discriminate|].
      intros H. injection H as <- <-. split; [exact (Exit lo C)|]. exists lo. split; [reflexivity|lra].
    - destruct (Rlt_dec geo_delta (Rabs (lo - Tgeo a b p z lo))) as [C|C].
      + intros H. exact (IH _ _ _ H).
      + intros H. injection H as <- <-. split; [exact (Exit lo C)|]. exists lo. split; [reflexivity|lra].
  Qed.

  (* the whole loop, started as the code starts it: lat_old = 0, lat = first estimate, N = N(first estimate) *)
  Lemma loop_exit fuel lat Nr :
    geo_loop fuel a b p z 0 (phi_init a b p z) (Nrad a b (phi_init a b p z)) = Some (lat, Nr) ->
    Rabs (lat - phis) <= eps /\ exists lo', Nr = Nrad a b lo' /\ Rabs (lo' - lat) <= geo_delta.
  Proof.
    set (l0 := phi_init a b p z).
    assert (Exit0 : ~ geo_delta < Rabs (0 - l0) -> Rabs (l0 - phis) <= eps).
    { intros C. pose proof (init_error Hkap0) as IE. fold l0 in IE.
      assert (Hl0 : Rabs l0 <= geo_delta) by (rewrite Rminus_0_l, Rabs_Ropp in C; lra).
      apply (eps_fix _ (Rabs l0)); [split; [apply Rabs_pos|exact Hl0]|].
      eapply Rle_trans; [exact IE|].
      assert (S1 : Rabs (sin phis) <= Rabs l0 + Rabs (l0 - phis)).
      { eapply Rle_trans; [apply Rabs_sin_le|]. replace phis with (l0 + - (l0 - phis)) at 1 by ring.
        eapply Rle_trans; [apply Rabs_triang|]. rewrite Rabs_Ropp. lra. }
      pose proof (Rabs_pos (sin phis)).
      apply Rle_trans with (q * Rabs (sin phis)); [apply Rmult_le_compat_r; [lra|exact Hkap]|].
      apply Rmult_le_compat_l; lra. }
    assert (G0 : 0 < geo_delta) by (unfold geo_delta; lra).
    destruct fuel as [|f]; simpl.
    - destruct (Rlt_dec geo_delta (Rabs (0 - l0))) as [C|C]; [discriminate|].
      intros H. injection H as <- <-. split; [exact (Exit0 C)|]. exists l0. split; [reflexivity|].
      unfold Rminus. rewrite Rplus_opp_r, Rabs_R0. lra.
    - destruct (Rlt_dec geo_delta (Rabs (0 - l0))) as [C|C].
      + intros H. exact (loop_exit_T f _ _ _ H).
      + intros H. injection H as <- <-. split; [exact (Exit0 C)|]. exists l0. split; [reflexivity|].
        unfold Rminus. rewrite Rplus_opp_r, Rabs_R0. lra.
  Qed.

  (* height returned at such an exit *)
  Lemma height_error lat lo' : Rabs (lat - phis) <= eps -> Rabs (lo' - lat) <= geo_delta -> eps < cos phis ->
    Rabs (geo_height p lat (Nrad a b lo') - h) <= M * eps / (cos phis - eps) + Lip a b * (geo_delta + eps).
  Proof.
    intros H1 H2 H3. unfold geo_height. rewrite p_is. pose proof M_pos as HM.
    pose proof (cos_lipschitz phis lat) as CL.
    assert (Hcl : cos phis - eps <= cos lat).
    { assert (CL' : Rabs (cos lat - cos phis) <= eps) by lra. apply Rabs_le_inv in CL'. lra. }
    assert (Hcl0 : 0 < cos lat) by lra.
    replace (M * cos phis / cos lat - Nrad a b lo' - h) with (M * ((cos phis - cos lat) / cos lat) - (Nrad a b lo' - Ns))
      by (unfold M; field; lra).
    eapply Rle_trans; [apply Rabs_triang|]. rewrite Rabs_Ropp.
    apply Rplus_le_compat.
    - rewrite Rabs_mult, (Rabs_right M) by lra. unfold Rdiv at 2. rewrite Rmult_assoc.
      apply Rmult_le_compat_l; [lra|].
      unfold Rdiv. rewrite Rabs_mult, (Rabs_right (/ cos lat)) by (left; apply Rinv_0_lt_compat; lra).
      assert (E1 : Rabs (cos phis - cos lat) <= eps) by (rewrite Rabs_minus_sym; lra).
      assert (E0 : 0 <= eps) by (pose proof (Rabs_pos (lat - phis)); lra).
      assert (I1 : / cos lat <= / (cos phis - eps)) by (apply Rinv_le_contravar; lra).
      assert (I0 : 0 < / cos lat) by (apply Rinv_0_lt_compat; lra).
      pose proof (Rabs_pos (cos phis - cos lat)).
      apply Rle_trans with (eps * / cos lat); [apply Rmult_le_compat_r; lra|apply Rmult_le_compat_l; lra].
    - eapply Rle_trans; [apply (N_lipschitz a b lo' phis Hab)|]. fold Ns.
      apply Rmult_le_compat_l; [apply (Lip_nonneg a b Hab)|].
      eapply Rle_trans; [apply sin_lipschitz|].
      replace (lo' - phis) with ((lo' - lat) + (lat - phis)) by ring.
      eapply Rle_trans; [apply Rabs_triang|]. lra.
  Qed.

  (* the model's return value *)
  Lemma model_roundtrip fuel la lo hh : - PI < lam <= PI ->
    ecef2geodetic_model fuel a b x y z = Val [la; lo; hh] ->
    Rabs (la * (PI / 180) - phis) <= eps /\ lo = lam * (180 / PI) /\
    (eps < cos phis -> Rabs (hh - h) <= M * eps / (cos phis - eps) + Lip a b * (geo_delta + eps)).
  Proof.
    intros Hl. unfold ecef2geodetic_model. cbv zeta. fold p.
    destruct (geo_loop fuel a b p z 0 (phi_init a b p z) (Nrad a b (phi_init a b p z))) as [[lat Nr]|] eqn:G; [|discriminate].
    intros H. apply Val_inv3 in H. destruct H as (H1 & H2 & H3).
    destruct (loop_exit fuel lat Nr G) as (B & lo' & -> & Bl).
    split; [|split].
    - rewrite <- H1. replace (lat * (180 / PI) * (PI / 180)) with lat by (field; apply PI_neq0). exact B.
    - rewrite <- H2. f_equal. exact (lon_recovered a b phis lam h Hab Hh Hphis Hl).
    - intros Hc. rewrite <- H3. exact (height_error lat lo' B Bl Hc).
  Qed.
End Contraction.

(* ---------------------------------------------------------------- statements over the regenerated code *)
Lemma Rdiv_le_q X Y q : 0 < Y -> X <= q * Y -> X / Y <= q.
Proof.
  intros HY H. apply (Rmult_le_reg_r Y); [exact HY|]. unfold Rdiv. rewrite Rmult_assoc, Rinv_l by lra. lra.
Qed.

(* geodetic -> ECEF -> geodetic through the code, any height: explicit error bound at every exit of the loop.
   Hypotheses on q are stated with the lower bound a + h <= N + h so that they do not mention the latitude. *)
Lemma geodetic_roundtrip_bound lat lon h a b q x y z la lo hh :
  0 < b <= a -> - a < h -> Rabs lat < 90 -> - 180 < lon <= 180 -> 0 <= q < 1 ->
  2 * Lip a b < a + h -> Lip a b <= q * (a + h - 2 * Lip a b) ->
  ecc2 a b * Rabs h < (1 - ecc2 a b) * (a + h) ->
  ecc2 a b * Rabs h <= q * ((1 - ecc2 a b) * (a + h) - ecc2 a b * Rabs h) ->
  C17_geodetic2ecef_ab_R lat lon h a b = Val [x; y; z] -> C17_ecef2geodetic_ab_u_R x y z a b = Val [la; lo; hh] ->
  let eps := geo_delta * q / (1 - q) in
  let M := Nrad a b (rad lat) + h in
  Rabs (rad la - rad lat) <= eps /\ lo = lon /\
  (eps < cos (rad lat) -> Rabs (hh - h) <= M * eps / (cos (rad lat) - eps) + Lip a b * (geo_delta + eps)).
Proof.
  intros Hab Hh H1 H2 Hq HL Hk Hkap0 Hkap G Ec. cbv zeta.
  assert (L1 : Rabs lat <= 90) by lra. assert (L2 : Rabs lon <= 180) by (apply Rabs_le; lra).
  rewrite (geodetic2ecef_ab_spec _ _ _ _ _ L1 L2) in G. unfold geodetic2ecef_spec in G. apply Val_inv3 in G.
  destruct G as (<- & <- & <-). rewrite unrolled_is_model in Ec.
  pose proof (deg_guard_lat_strict lat H1) as P1. pose proof (deg_guard_lon lon H2) as P2.
  pose proof (M_ge a b (rad lat) h Hab) as MG. pose proof (Lip_nonneg a b Hab) as L0.
  pose proof (ecc2_range a b Hab) as HE. pose proof (Rabs_pos h) as Ph.
  set (M := Nrad a b (rad lat) + h) in *.
  assert (HL' : 2 * Lip a b < M) by lra.
  assert (Hk' : Lip a b / (M - 2 * Lip a b) <= q).
  { apply Rdiv_le_q; [lra|]. apply Rle_trans with (q * (a + h - 2 * Lip a b)); [exact Hk|]. apply Rmult_le_compat_l; lra. }
  assert (HMM : (1 - ecc2 a b) * (a + h) <= (1 - ecc2 a b) * M) by (apply Rmult_le_compat_l; lra).
  assert (Hkap0' : ecc2 a b * Rabs h < (1 - ecc2 a b) * M) by lra.
  assert (Hkap' : ecc2 a b * Rabs h / ((1 - ecc2 a b) * M - ecc2 a b * Rabs h) <= q).
  { apply Rdiv_le_q; [lra|]. eapply Rle_trans; [exact Hkap|]. apply Rmult_le_compat_l; lra. }
  destruct (model_roundtrip a b (rad lat) (rad lon) h Hab Hh P1 q Hq HL' Hk' Hkap0' Hkap' 5 la lo hh P2 Ec) as (A & B & C).
  split; [|split].
  - replace (rad la - rad lat) with (la * (PI / 180) - rad lat) by (unfold rad; field). exact A.
  - rewrite B. unfold rad. field. apply PI_neq0.
  - exact C.
Qed.

(* Earth-like ellipsoids (e^2 <= 0.012: Earth 0.0067, Mars 0.0117), heights from -1% to +1/6 of the equatorial radius
   (WGS84: -63 km .. 1063 km, which contains the property's -10 km .. 1000 km):  q = 1/75, i.e. the returned latitude is
   within delta/74 = 1.35e-10 rad of the true one — below 1e-8 degrees — and the longitude is exact *)
Lemma Lip_earthlike a b : 0 < b <= a -> ecc2 a b <= 3 / 250 -> Lip a b <= a / 80.
Proof.
  intros Hab HE. pose proof (ecc2_range a b Hab) as [E0 E1]. unfold Lip. set (E := ecc2 a b) in *.
  assert (C3 : 1 - 3 * E <= (1 - E) ^ 3) by (simpl; nra).
  assert (P3 : 0 < (1 - E) ^ 3) by lra.
  apply (Rmult_le_reg_r ((1 - E) ^ 3)); [exact P3|]. unfold Rdiv. rewrite Rmult_assoc, Rinv_l by lra.
  assert (E * 80 <= (1 - E) ^ 3) by lra. nra.
Qed.

Lemma geodetic_roundtrip_earthlike lat lon h a b x y z la lo hh :
  0 < b <= a -> ecc2 a b <= 3 / 250 -> - a / 100 <= h <= a / 6 -> Rabs lat < 90 -> - 180 < lon <= 180 ->
  C17_geodetic2ecef_ab_R lat lon h a b = Val [x; y; z] -> C17_ecef2geodetic_ab_u_R x y z a b = Val [la; lo; hh] ->
  Rabs (rad la - rad lat) <= geo_delta / 74 /\ Rabs (la - lat) <= 1 / 100000000 /\ lo = lon.
Proof.
  intros Hab HE Hh H1 H2 G Ec. pose proof (Lip_earthlike a b Hab HE) as LE. pose proof (Lip_nonneg a b Hab) as L0.
  pose proof (ecc2_range a b Hab) as [E0 E1]. assert (Ha : 0 < a) by lra.
  assert (Hh' : - a < h) by lra.
  assert (Ph : Rabs h <= a / 6) by (apply Rabs_le; lra).
  pose proof (Rabs_pos h) as Ph0.
  assert (Q : 0 <= 1 / 75 < 1) by lra.
  assert (K0 : ecc2 a b * Rabs h <= 3 / 250 * (a / 6)).
  { apply Rmult_le_compat; lra. }
  assert (K1 : (1 - 3 / 250) * (a + h) <= (1 - ecc2 a b) * (a + h)) by (apply Rmult_le_compat_r; lra).
  destruct (geodetic_roundtrip_bound lat lon h a b (1 / 75) x y z la lo hh Hab Hh' H1 H2 Q) as (A & B & _);
    try assumption; try nra.
  replace (geo_delta * (1 / 75) / (1 - 1 / 75)) with (geo_delta / 74) in A by field.
  split; [exact A|]. split; [|exact B].
  assert (Hpi : 3 < PI) by (pose proof PI2_3_2; lra).
  replace (la - lat) with ((rad la - rad lat) * (180 / PI)) by (unfold rad; field; lra).
  rewrite Rabs_mult, (Rabs_right (180 / PI)) by (left; apply Rdiv_lt_0_compat; lra).
  assert (D : 180 / PI <= 60).
  { apply (Rmult_le_reg_r PI); [lra|]. unfold Rdiv. rewrite Rmult_assoc, Rinv_l by lra. lra. }
  pose proof (Rabs_pos (rad la - rad lat)). unfold geo_delta in *.
  assert (D0 : 0 <= 180 / PI) by (left; apply Rdiv_lt_0_compat; lra).
  apply Rle_trans with (1 / 100000000 / 74 * 60); [apply Rmult_le_compat; assumption|lra].
Qed.

(* ---------------------------------------------------------------- (b) the poles *)
(* N(+-PI/2) (1 - e^2) = b: on the polar axis z = +-(b + h), so h = |z| - b there *)
Lemma N_pole a b : 0 < b <= a -> Nrad a b (PI / 2) * (1 - ecc2 a b) = b /\ Nrad a b (- (PI / 2)) * (1 - ecc2 a b) = b.
Proof.
  intros [Hb Hab]. assert (Ha : 0 < a) by lra.
  assert (R : 1 - ecc2 a b * 1 ^ 2 = (b / a) * (b / a)) by (unfold ecc2; field; lra).
  assert (Q : 0 < b / a) by (apply Rdiv_lt_0_compat; lra).
  assert (N1 : a / sqrt (1 - ecc2 a b * 1 ^ 2) * (1 - ecc2 a b) = b).
  { rewrite R, sqrt_sq_abs, Rabs_right by lra. unfold ecc2. field. lra. }
  unfold Nrad. rewrite sin_neg, sin_PI2. split; [exact N1|].
  replace ((- (1)) ^ 2) with (1 ^ 2) by ring. exact N1.
Qed.

(* the true limit statement: along the meridian the height formula is CONSTANT = h for every |phi| < 90 deg, and this
   constant is |z_pole| - b, the height measured on the polar axis; so  p/cos(phi) - N -> |z_pole| - b  as cos(phi) -> 0.
   The real-number model evaluates the formula AT the pole as 0/0 = 0 (pole_height_degenerate), the float code evaluates
   it with cos(fl(pi/2)) = 6.1e-17 in numerator (via geodetic2ecef) and denominator, which cancels. *)
Lemma pole_height_limit a b h lam : 0 < b <= a -> - b < h ->
  let zp := (Nrad a b (PI / 2) * (1 - ecc2 a b) + h) * sin (PI / 2) in
  Rabs zp - b = h /\
  forall phi, - (PI / 2) < phi < PI / 2 ->
    let N := Nrad a b phi in
    let p := sqrt (((N + h) * cos phi * cos lam) ^ 2 + ((N + h) * cos phi * sin lam) ^ 2) in
    geo_height p phi N = Rabs zp - b.
Proof.
  intros Hab Hb. assert (Hh : - a < h) by lra. cbv zeta. destruct (N_pole a b Hab) as [NP _]. rewrite NP, sin_PI2, Rmult_1_r.
  assert (Hz : Rabs (b + h) - b = h) by (rewrite Rabs_right; lra).
  split; [exact Hz|]. intros phi Hphi. rewrite Hz.
  assert (Hp : - (PI / 2) <= phi <= PI / 2) by lra.
  exact (height_at_fixed_point a b phi lam h Hab Hh Hp Hphi).
Qed.

(* in epsilon-delta form *)
Lemma pole_height_limit_eps a b h lam : 0 < b <= a -> - b < h ->
  forall eps, 0 < eps -> exists alp, 0 < alp /\ forall phi, - (PI / 2) < phi < PI / 2 -> Rabs (phi - PI / 2) < alp ->
    let N := Nrad a b phi in
    let p := sqrt (((N + h) * cos phi * cos lam) ^ 2 + ((N + h) * cos phi * sin lam) ^ 2) in
    Rabs (geo_height p phi N - (Rabs ((Nrad a b (PI / 2) * (1 - ecc2 a b) + h) * sin (PI / 2)) - b)) < eps.
Proof.
  intros Hab Hh eps He. exists 1. split; [lra|]. intros phi Hphi _. cbv zeta.
  destruct (pole_height_limit a b h lam Hab Hh) as [_ L]. cbv zeta in L. rewrite (L phi Hphi).
  unfold Rminus. rewrite Rplus_opp_r, Rabs_R0. exact He.
Qed.

(* ---------------------------------------------------------------- (c) the antimeridian *)
(* in the real-number model longitude -180 comes back as +180: equal modulo 360, and it is the only such case *)
Lemma lon_antimeridian lat h a b x y z : 0 < b <= a -> - a < h -> Rabs lat < 90 ->
  C17_geodetic2ecef_ab_R lat (-180) h a b = Val [x; y; z] -> atan2 y x * (180 / PI) = 180.
Proof.
  intros Hab Hh H1 G.
  assert (L1 : Rabs lat <= 90) by lra. assert (L2 : Rabs (-180) <= 180) by (rewrite Rabs_left; lra).
  rewrite (geodetic2ecef_ab_spec _ _ _ _ _ L1 L2) in G. unfold geodetic2ecef_spec in G. apply Val_inv3 in G.
  destruct G as (<- & <- & _).
  assert (R : rad (-180) = - PI) by (unfold rad; field).
  rewrite R, cos_neg, sin_neg. pose proof PI_RGT_0.
  replace (- sin PI) with (sin PI) by (rewrite sin_PI; ring).
  rewrite (lon_recovered a b (rad lat) PI h Hab Hh (deg_guard_lat_strict lat H1)) by lra.
  field. lra.
Qed.

Lemma geodetic_roundtrip_lon_mod360 lat lon h a b x y z la lo hh :
  0 < b <= a -> - a < h -> Rabs lat < 90 -> Rabs lon <= 180 ->
  C17_geodetic2ecef_ab_R lat lon h a b = Val [x; y; z] -> C17_ecef2geodetic_ab_u_R x y z a b = Val [la; lo; hh] ->
  (lon <> -180 -> lo = lon) /\ (lon = -180 -> lo = lon + 360) /\ - 180 < lo <= 180.
Proof.
  intros Hab Hh H1 H2 G Ec. apply Rabs_le_inv in H2.
  assert (Hlo : lo = atan2 y x * (180 / PI)) by (rewrite unrolled_is_model in Ec; exact (model_lon _ _ _ _ _ _ _ _ _ Ec)).
  destruct (Req_dec lon (-180)) as [E|E].
  - subst lon. rewrite (lon_antimeridian lat h a b x y z Hab Hh H1 G) in Hlo. subst lo.
    split; [intros N; contradiction|]. split; [intros _; ring|lra].
  - assert (H2' : -180 < lon <= 180) by lra.
    pose proof (geodetic_roundtrip_lon lat lon h a b x y z la lo hh Hab Hh H1 H2' G Ec) as R.
    split; [intros _; exact R|]. split; [intros N; contradiction|lra].
Qed.

(* ---------------------------------------------------------------- the contraction, stated on geodetic2ecef's output *)
Lemma T_contraction_code lat lon h a b x y z phi : 0 < b <= a -> - a < h -> Rabs lat < 90 -> Rabs lon <= 180 ->
  2 * Lip a b < a + h ->
  C17_geodetic2ecef_ab_R lat lon h a b = Val [x; y; z] ->
  Rabs (Tgeo a b (sqrt (x ^ 2 + y ^ 2)) z phi - rad lat) <= Lip a b / (a + h - 2 * Lip a b) * Rabs (phi - rad lat).
Proof.
  intros Hab Hh H1 H2 HL G. assert (L1 : Rabs lat <= 90) by lra.
  rewrite (geodetic2ecef_ab_spec _ _ _ _ _ L1 H2) in G. unfold geodetic2ecef_spec in G. apply Val_inv3 in G.
  destruct G as (<- & <- & <-).
  pose proof (deg_guard_lat_strict lat H1) as P1.
  pose proof (M_ge a b (rad lat) h Hab) as MG. pose proof (Lip_nonneg a b Hab) as L0.
  assert (HL' : 2 * Lip a b < Nrad a b (rad lat) + h) by lra.
  eapply Rle_trans; [exact (T_contraction a b (rad lat) (rad lon) h Hab Hh P1 phi HL')|].
  apply Rmult_le_compat_r; [apply Rabs_pos|]. unfold Rdiv. apply Rmult_le_compat_l; [exact L0|].
  apply Rinv_le_contravar; lra.
Qed.

(* non-vacuity: WGS84 satisfies the Earth-like hypotheses on the property's whole height range *)
Example earthlike_nonvacuous :
  0 < 63567523142 / 10000 <= 6378137 /\ ecc2 6378137 (63567523142 / 10000) <= 3 / 250 /\
  - 6378137 / 100 <= -10000 /\ 1000000 <= 6378137 / 6.
Proof.
  split; [lra|]. split; [|lra]. unfold ecc2. apply Rdiv_le_q; simpl; lra.
Qed.
