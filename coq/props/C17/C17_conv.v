(* C17_conv.v — convergence of the ecef2geodetic iteration (ahrs/common/frames.py:280-296).
   The loop body T is a GLOBAL contraction towards the geodetic latitude phi_g with the explicit factor
       k = Lip / (M - 2 Lip),   Lip = e^2 a / (1 - e^2)^3,   M = N(phi_g) + h,
   the first estimate is within kappa*|sin phi_g| of phi_g, hence every exit of the loop (|lat - lat_old| <= delta) returns a
   latitude within delta*q/(1-q) of phi_g (q >= k, kappa), and the height formula is off by at most
   M eps/(cos phi_g - eps) + Lip (delta + eps).  Stated at the end for the regenerated code and for Earth-like ellipsoids. *)
From Coq Require Import Reals List Lra.
From AhrsLib Require Import Base Rot FramesLib.
From AhrsModel Require Import C17_geodetic.
From AhrsGen Require Import C17gen_R.
From AhrsProps Require Import C17_linear C17_geo.
Import ListNotations.
Open Scope R_scope.

(* ---------------------------------------------------------------- analytic bounds *)
Lemma sin_lipschitz x y : Rabs (sin y - sin x) <= Rabs (y - x).
Proof.
  destruct (MVT_abs sin cos x y) as (c & H & _); [intros; apply derivable_pt_lim_sin|].
  rewrite H. pose proof (COS_bound c) as [C1 C2]. pose proof (Rabs_pos (y - x)).
  assert (Rabs (cos c) <= 1) by (apply Rabs_le; lra). nra.
Qed.

Lemma cos_lipschitz x y : Rabs (cos y - cos x) <= Rabs (y - x).
Proof.
  destruct (MVT_abs cos (fun t => - sin t) x y) as (c & H & _); [intros; apply derivable_pt_lim_cos|].
  rewrite H. pose proof (SIN_bound c) as [C1 C2]. pose proof (Rabs_pos (y - x)).
  assert (Rabs (- sin c) <= 1) by (apply Rabs_le; lra). nra.
Qed.

Lemma Rabs_sin_le x : Rabs (sin x) <= Rabs x.
Proof. pose proof (sin_lipschitz 0 x) as H. rewrite sin_0, !Rminus_0_r in H. exact H. Qed.

Lemma atan_abs_le t : Rabs (atan t) <= Rabs t.
Proof.
  destruct (MVT_abs atan (fun x => / (1 + x ^ 2)) 0 t) as (c & H & _); [intros; apply derivable_pt_lim_atan|].
  rewrite atan_0, !Rminus_0_r in H. rewrite H. pose proof (Rabs_pos t).
  assert (0 < / (1 + c ^ 2) <= 1).
  { assert (1 <= 1 + c ^ 2) by (simpl; nra). split; [apply Rinv_0_lt_compat; lra|].
    rewrite <- Rinv_1. apply Rinv_le_contravar; lra. }
  rewrite (Rabs_right (/ (1 + c ^ 2))) by lra. nra.
Qed.

Lemma cos_pos_range d : - PI < d < PI -> 0 < cos d -> - (PI / 2) < d < PI / 2.
Proof.
  intros [H1 H2] Hc. split.
  - destruct (Rlt_dec (- (PI / 2)) d) as [|N]; [assumption|exfalso].
    assert (cos (- d) <= 0) by (apply cos_le_0; lra). rewrite cos_neg in *. lra.
  - destruct (Rlt_dec d (PI / 2)) as [|N]; [assumption|exfalso].
    assert (cos d <= 0) by (apply cos_le_0; lra). lra.
Qed.

(* the angle of (M cos phi, M sin phi + D) differs from phi by at most |D| cos phi / (M - |D|) *)
Lemma atan2_perturb M D phi : 0 < M -> Rabs D < M -> - (PI / 2) < phi < PI / 2 ->
  Rabs (atan2 (M * sin phi + D) (M * cos phi) - phi) <= Rabs D * cos phi / (M - Rabs D).
Proof.
  intros HM HD Hphi. pose proof PI_RGT_0 as Hpi.
  assert (Hc : 0 < cos phi) by (apply cos_gt_0; lra).
  set (Y := M * sin phi + D). set (p := M * cos phi). assert (Hp : 0 < p) by (unfold p; nra).
  set (th := atan2 Y p).
  assert (Hth : - (PI / 2) < th < PI / 2).
  { unfold th, atan2. destruct (Rlt_dec 0 p); [|lra]. pose proof (atan_bound (Y / p)). lra. }
  destruct (polar_atan2 p Y) as [P1 P2]. fold th in P1, P2.
  set (rho := sqrt (p * p + Y * Y)) in *.
  assert (Hrho : 0 < rho).
  { unfold rho. apply sqrt_lt_R0. nra. }
  pose proof (SIN_bound phi) as [S1 S2]. apply Rabs_def2 in HD. destruct HD as [HD1 HD2].
  assert (HDabs : Rabs D <= Rabs D) by lra.
  assert (Hden : 0 < M + D * sin phi).
  { destruct (Rle_dec 0 D); nra. }
  assert (Hs : rho * sin (th - phi) = D * cos phi).
  { rewrite sin_minus. pose proof (sc_unit phi). unfold Y, p in *. nra. }
  assert (Hk : rho * cos (th - phi) = M + D * sin phi).
  { rewrite cos_minus. pose proof (sc_unit phi). unfold Y, p in *. nra. }
  assert (Hcd : 0 < cos (th - phi)) by nra.
  assert (Hd : - (PI / 2) < th - phi < PI / 2) by (apply cos_pos_range; [lra|exact Hcd]).
  assert (Ht : tan (th - phi) = D * cos phi / (M + D * sin phi)).
  { unfold tan. rewrite <- Hs, <- Hk. field. split; lra. }
  rewrite <- (atan_tan (th - phi)) by lra. rewrite Ht.
  eapply Rle_trans; [apply atan_abs_le|].
  unfold Rdiv. rewrite Rabs_mult, Rabs_mult, (Rabs_right (cos phi)) by lra.
  rewrite (Rabs_right (/ (M + D * sin phi))) by (left; apply Rinv_0_lt_compat; lra).
  assert (HM' : 0 < M - Rabs D) by (unfold Rabs; destruct (Rcase_abs D); lra).
  assert (Hle : M - Rabs D <= M + D * sin phi).
  { unfold Rabs. destruct (Rcase_abs D); nra. }
  apply Rmult_le_compat_l; [pose proof (Rabs_pos D); nra|].
  apply Rinv_le_contravar; lra.
Qed.

(* ---------------------------------------------------------------- algebraic Lipschitz bounds for s/w(s), 1/w(s),
   w(s) = sqrt(1 - E s^2) *)
Section Alg.
  Variables E s t u v : R.
  Hypothesis HE : 0 <= E < 1.
  Hypothesis Hs : -1 <= s <= 1.
  Hypothesis Ht : -1 <= t <= 1.
  Hypothesis Hu : 0 < u.
  Hypothesis Hv : 0 < v.
  Hypothesis Hu2 : u * u = 1 - E * (s * s).
  Hypothesis Hv2 : v * v = 1 - E * (t * t).

  Lemma w_bounds : 1 - E <= u <= 1 /\ 1 - E <= v <= 1.
  Proof.
    assert (S2 : 0 <= s * s <= 1) by nra. assert (T2 : 0 <= t * t <= 1) by nra.
    assert (U1 : u <= 1) by (destruct (Rle_dec u 1); [assumption|exfalso; nra]).
    assert (V1 : v <= 1) by (destruct (Rle_dec v 1); [assumption|exfalso; nra]).
    assert (U0 : u * u <= u) by nra. assert (V0 : v * v <= v) by nra.
    repeat split; nra.
  Qed.

  Lemma cross_lip : Rabs (s * v - t * u) * (1 - E) <= Rabs (s - t).
  Proof.
    destruct w_bounds as [[U1 U2] [V1 V2]].
    assert (Id : (s * v - t * u) * (u + v) = (s - t) * (v * (u + v) + E * t * (s + t))).
    { assert (X : t * (v * v - u * u) - E * t * (s * s - t * t) = 0) by (rewrite Hu2, Hv2; ring).
      replace ((s * v - t * u) * (u + v))
        with ((s - t) * (v * (u + v) + E * t * (s + t)) + (t * (v * v - u * u) - E * t * (s * s - t * t))) by ring.
      rewrite X. ring. }
    assert (A : Rabs (s * v - t * u) * (u + v) = Rabs (s - t) * Rabs (v * (u + v) + E * t * (s + t))).
    { rewrite <- (Rabs_right (u + v)) at 1 by lra. rewrite <- !Rabs_mult. f_equal. exact Id. }
    assert (C : Rabs (v * (u + v) + E * t * (s + t)) * (1 - E) <= u + v).
    { assert (Rabs (v * (u + v) + E * t * (s + t)) <= v * (u + v) + 2 * E).
      { assert (Q : -2 <= t * (s + t) <= 2) by nra. apply Rabs_le. split; nra. }
      assert (0 < v * (u + v)) by nra.
      assert ((1 - E) * (v * (u + v)) <= (1 - E) * (u + v)) by nra.
      nra. }
    pose proof (Rabs_pos (s - t)). pose proof (Rabs_pos (s * v - t * u)).
    apply (Rmult_le_reg_r (u + v)); [lra|]. nra.
  Qed.

  Lemma quot_lip : Rabs (s / u - t / v) * (1 - E) ^ 3 <= Rabs (s - t).
  Proof.
    destruct w_bounds as [[U1 U2] [V1 V2]]. pose proof cross_lip as CL.
    replace (s / u - t / v) with ((s * v - t * u) * / (u * v)) by (field; lra).
    assert (Huv : 0 < u * v) by nra.
    rewrite Rabs_mult, (Rabs_right (/ (u * v))) by (left; apply Rinv_0_lt_compat; exact Huv).
    pose proof (Rabs_pos (s * v - t * u)) as PA.
    assert (Hinv : / (u * v) * ((1 - E) * (1 - E)) <= 1).
    { apply (Rmult_le_reg_l (u * v)); [exact Huv|]. rewrite <- Rmult_assoc, Rinv_r by lra. nra. }
    simpl. nra.
  Qed.

  Lemma inv_lip : Rabs (/ u - / v) * (1 - E) ^ 3 <= E * Rabs (s - t).
  Proof.
    destruct w_bounds as [[U1 U2] [V1 V2]].
    assert (Id : (v - u) * (u + v) = E * ((s - t) * (s + t))).
    { replace ((v - u) * (u + v)) with (v * v - u * u) by ring. rewrite Hu2, Hv2. ring. }
    assert (A : Rabs (v - u) * (u + v) <= 2 * E * Rabs (s - t)).
    { rewrite <- (Rabs_right (u + v)) at 1 by lra. rewrite <- Rabs_mult, Id, Rabs_mult, Rabs_mult.
      rewrite (Rabs_right E) by lra. assert (Rabs (s + t) <= 2) by (apply Rabs_le; lra).
      pose proof (Rabs_pos (s - t)). nra. }
    assert (B : Rabs (v - u) * (1 - E) <= E * Rabs (s - t)).
    { pose proof (Rabs_pos (v - u)). pose proof (Rabs_pos (s - t)). nra. }
    replace (/ u - / v) with ((v - u) * / (u * v)) by (field; lra).
    assert (Huv : 0 < u * v) by nra.
    rewrite Rabs_mult, (Rabs_right (/ (u * v))) by (left; apply Rinv_0_lt_compat; exact Huv).
    pose proof (Rabs_pos (v - u)) as PA.
    assert (Hinv : / (u * v) * ((1 - E) * (1 - E)) <= 1).
    { apply (Rmult_le_reg_l (u * v)); [exact Huv|]. rewrite <- Rmult_assoc, Rinv_r by lra. nra. }
    simpl. pose proof (Rabs_pos (s - t)). nra.
  Qed.
End Alg.

(* ---------------------------------------------------------------- Lipschitz constant of the loop body's numerator *)
Definition Lip (a b : R) : R := ecc2 a b * a / (1 - ecc2 a b) ^ 3.
Definition wrad (a b phi : R) : R := sqrt (1 - ecc2 a b * sin phi ^ 2).

Lemma wrad_facts a b phi : 0 < b <= a ->
  0 < wrad a b phi /\ wrad a b phi * wrad a b phi = 1 - ecc2 a b * (sin phi * sin phi).
Proof.
  intros H. pose proof (Nrad_radicand a b phi H) as [W0 W1]. unfold wrad. split.
  - apply sqrt_lt_R0. exact W0.
  - rewrite sqrt_sqrt by lra. simpl. ring.
Qed.

Lemma Lip_nonneg a b : 0 < b <= a -> 0 <= Lip a b.
Proof.
  intros H. pose proof (ecc2_range a b H). unfold Lip.
  apply Rmult_le_pos; [nra|]. left. apply Rinv_0_lt_compat. apply pow_lt. lra.
Qed.

Lemma cube_pos a b : 0 < b <= a -> 0 < (1 - ecc2 a b) ^ 3.
Proof. intros H. pose proof (ecc2_range a b H). apply pow_lt. lra. Qed.

(* e^2 N(phi) sin(phi) is Lip-Lipschitz in sin(phi), hence in phi; same constant for N itself *)
Lemma F_lipschitz a b phi psi : 0 < b <= a ->
  Rabs (ecc2 a b * Nrad a b phi * sin phi - ecc2 a b * Nrad a b psi * sin psi) <= Lip a b * Rabs (sin phi - sin psi).
Proof.
  intros H. pose proof (ecc2_range a b H) as HE. pose proof (cube_pos a b H) as H3.
  destruct (wrad_facts a b phi H) as [U0 U2]. destruct (wrad_facts a b psi H) as [V0 V2].
  pose proof (quot_lip (ecc2 a b) (sin phi) (sin psi) (wrad a b phi) (wrad a b psi) HE (SIN_bound phi) (SIN_bound psi) U0 V0 U2 V2) as Q.
  unfold Nrad. fold (wrad a b phi) (wrad a b psi).
  replace (ecc2 a b * (a / wrad a b phi) * sin phi - ecc2 a b * (a / wrad a b psi) * sin psi)
    with (ecc2 a b * a * (sin phi / wrad a b phi - sin psi / wrad a b psi)) by (field; lra).
  assert (Ha : 0 <= ecc2 a b * a) by nra.
  rewrite Rabs_mult, (Rabs_right (ecc2 a b * a)) by lra.
  unfold Lip. set (X := Rabs (sin phi / wrad a b phi - sin psi / wrad a b psi)) in *.
  set (Y := Rabs (sin phi - sin psi)) in *. set (c3 := (1 - ecc2 a b) ^ 3) in *.
  assert (X <= Y / c3).
  { apply (Rmult_le_reg_r c3); [exact H3|]. unfold Rdiv. rewrite Rmult_assoc, Rinv_l by lra. lra. }
  unfold Rdiv in *. rewrite Rmult_assoc. apply Rmult_le_compat_l; [exact Ha|]. lra.
Qed.

Lemma N_lipschitz a b phi psi : 0 < b <= a ->
  Rabs (Nrad a b phi - Nrad a b psi) <= Lip a b * Rabs (sin phi - sin psi).
Proof.
  intros H. pose proof (ecc2_range a b H) as HE. pose proof (cube_pos a b H) as H3.
  destruct (wrad_facts a b phi H) as [U0 U2]. destruct (wrad_facts a b psi H) as [V0 V2].
  pose proof (inv_lip (ecc2 a b) (sin phi) (sin psi) (wrad a b phi) (wrad a b psi) HE (SIN_bound phi) (SIN_bound psi) U0 V0 U2 V2) as Q.
  unfold Nrad. fold (wrad a b phi) (wrad a b psi).
  replace (a / wrad a b phi - a / wrad a b psi) with (a * (/ wrad a b phi - / wrad a b psi)) by (field; lra).
  assert (Ha : 0 <= a) by lra.
  rewrite Rabs_mult, (Rabs_right a) by lra.
  unfold Lip. set (X := Rabs (/ wrad a b phi - / wrad a b psi)) in *.
  set (Y := Rabs (sin phi - sin psi)) in *. set (c3 := (1 - ecc2 a b) ^ 3) in *.
  assert (X <= ecc2 a b * Y / c3).
  { apply (Rmult_le_reg_r c3); [exact H3|]. unfold Rdiv. rewrite Rmult_assoc, Rinv_l by lra. lra. }
  unfold Rdiv in *. replace (ecc2 a b * a * / c3 * Y) with (a * (ecc2 a b * Y * / c3)) by ring.
  apply Rmult_le_compat_l; [exact Ha|]. lra.
Qed.
