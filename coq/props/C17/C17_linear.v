(* C17_linear.v — the linear (rotation + translation) frame changes of ahrs/common/frames.py:
   ecef2enuv, ecef2enu, enu2uvw, enu2ecef, geodetic2enu, ned2enu/enu2ned, enu2dca/dca2enu, llf2ecef/ecef2llf.
   All statements are about the regenerated definitions of AhrsGen.C17gen_R, for all reals. *)
From Coq Require Import Reals List Lra.
From AhrsLib Require Import Base Rot FramesLib.
From AhrsGen Require Import C17gen_R.
Import ListNotations.
Open Scope R_scope.

(* degrees -> radians exactly as the traced code does it: x * DEG2RAD, DEG2RAD = (1/180) * PI *)
Definition rad (d : R) : R := d * (1 / 180 * PI).
Definition vadd3 (u v : list R) : list R := [e u 0 + e v 0; e u 1 + e v 1; e u 2 + e v 2].
Definition vsub3 (u v : list R) : list R := [e u 0 - e v 0; e u 1 - e v 1; e u 2 - e v 2].
Definition dist2 (u v : list R) : R := dot3 (vsub3 u v) (vsub3 u v).

Ltac sc_hyps :=
  repeat match goal with
  | |- context [sin ?t] =>
      lazymatch goal with
      | H : sin t * sin t = 1 - cos t * cos t |- _ => fail
      | _ => assert (sin t * sin t = 1 - cos t * cos t) by (pose proof (sc_unit t); lra)
      end
  end.
(* ring modulo every  sin t * sin t = 1 - cos t * cos t  for the (at most three) angles in the goal *)
Ltac tring :=
  sc_hyps;
  first [ ring
        | match goal with H1 : sin ?a * sin ?a = _, H2 : sin ?b * sin ?b = _, H3 : sin ?c * sin ?c = _ |- _ => ring [H1 H2 H3] end
        | match goal with H1 : sin ?a * sin ?a = _, H2 : sin ?b * sin ?b = _ |- _ => ring [H1 H2] end
        | match goal with H1 : sin ?a * sin ?a = _ |- _ => ring [H1] end ].
Ltac guards :=
  repeat match goal with
  | |- context [Rlt_dec 90 (Rabs ?l)] => destruct (Rlt_dec 90 (Rabs l)); [exfalso; lra|]
  | |- context [Rlt_dec 180 (Rabs ?l)] => destruct (Rlt_dec 180 (Rabs l)); [exfalso; lra|]
  end.
Ltac hyp_guards :=
  repeat match goal with
  | H : context [Rlt_dec 90 (Rabs ?l)] |- _ => destruct (Rlt_dec 90 (Rabs l)); [discriminate H|]
  | H : context [Rlt_dec 180 (Rabs ?l)] |- _ => destruct (Rlt_dec 180 (Rabs l)); [discriminate H|]
  end.

(* `injection` normalises the terms it extracts (it would expand x ^ 2); these keep them verbatim *)
Lemma Val_inv3 (a b c a' b' c' : R) : Val [a; b; c] = Val [a'; b'; c'] -> a = a' /\ b = b' /\ c = c'.
Proof. intros H. injection H as -> -> ->. repeat split. Qed.
Lemma Val_inv (l l' : list R) : Val l = Val l' -> l = l'.
Proof. intros H. injection H as ->. reflexivity. Qed.
Ltac inj3 H := apply Val_inv3 in H; destruct H as (<- & <- & <-).

(* ---------------------------------------------------------------- what each function computes *)
Lemma ecef2enuv_spec x y z x0 y0 z0 lat lon :
  C17_ecef2enuv_R x y z x0 y0 z0 lat lon = Val (mvec3 (Renu (rad lat) (rad lon)) [x - x0; y - y0; z - z0]).
Proof. unfold C17_ecef2enuv_R, Renu, rad. cbv zeta. unfold_rot. val_eq; ring. Qed.

Lemma enu2uvw_spec ea no up lat lon :
  C17_enu2uvw_R ea no up lat lon = Val (mvec3 (mtr3 (Renu (rad lat) (rad lon))) [ea; no; up]).
Proof. unfold C17_enu2uvw_R, Renu, rad. cbv zeta. unfold_rot. val_eq; ring. Qed.

Lemma enu2uvw_rad_spec ea no up lat lon :
  C17_enu2uvw_rad_R ea no up lat lon = Val (mvec3 (mtr3 (Renu lat lon)) [ea; no; up]).
Proof. unfold C17_enu2uvw_rad_R, Renu. cbv zeta. unfold_rot. val_eq; ring. Qed.

Lemma geodetic2ecef_val lat lon h : Rabs lat <= 90 -> Rabs lon <= 180 ->
  exists x0 y0 z0, C17_geodetic2ecef_R lat lon h = Val [x0; y0; z0].
Proof. intros H1 H2. unfold C17_geodetic2ecef_R. cbv zeta. guards. eexists; eexists; eexists; reflexivity. Qed.

Lemma geodetic2ecef_raises lat lon h : 90 < Rabs lat \/ 180 < Rabs lon -> C17_geodetic2ecef_R lat lon h = Raise ValueError.
Proof.
  intros H. unfold C17_geodetic2ecef_R. cbv zeta. destruct (Rlt_dec 90 (Rabs lat)); [reflexivity|].
  destruct (Rlt_dec 180 (Rabs lon)); [reflexivity|]. lra.
Qed.

(* ecef2enu = ecef2enuv about the ECEF position of the origin *)
Lemma ecef2enu_spec x y z lat lon h x0 y0 z0 :
  C17_geodetic2ecef_R lat lon h = Val [x0; y0; z0] ->
  C17_ecef2enu_R x y z lat lon h = C17_ecef2enuv_R x y z x0 y0 z0 lat lon.
Proof.
  unfold C17_geodetic2ecef_R, C17_ecef2enu_R, C17_ecef2enuv_R. cbv zeta. intros H. hyp_guards.
  inj3 H. val_eq; ring.
Qed.

(* enu2ecef = origin + R^T enu *)
Lemma enu2ecef_spec ea no up lat lon h x0 y0 z0 :
  C17_geodetic2ecef_R lat lon h = Val [x0; y0; z0] ->
  C17_enu2ecef_R ea no up lat lon h = Val (vadd3 [x0; y0; z0] (mvec3 (mtr3 (Renu (rad lat) (rad lon))) [ea; no; up])).
Proof.
  intros H. unfold Renu, rad, vadd3. unfold_rot. revert H.
  unfold C17_geodetic2ecef_R, C17_enu2ecef_R. cbv zeta. intros H. hyp_guards.
  inj3 H. val_eq; ring.
Qed.

(* geodetic2enu = ecef2enuv of the two ECEF positions *)
Lemma geodetic2enu_spec lat lon h lat0 lon0 h0 x y z x0 y0 z0 :
  C17_geodetic2ecef_R lat lon h = Val [x; y; z] -> C17_geodetic2ecef_R lat0 lon0 h0 = Val [x0; y0; z0] ->
  C17_geodetic2enu_R lat lon h lat0 lon0 h0 = C17_ecef2enuv_R x y z x0 y0 z0 lat0 lon0.
Proof.
  unfold C17_geodetic2ecef_R, C17_geodetic2enu_R, C17_ecef2enuv_R. cbv zeta. intros H H0. hyp_guards.
  inj3 H. inj3 H0. val_eq; ring.
Qed.

(* ---------------------------------------------------------------- ECEF <-> ENU are mutually inverse *)
Lemma enu_ecef_inverse_1 x y z lat lon h : Rabs lat <= 90 -> Rabs lon <= 180 ->
  exists ea no up, C17_ecef2enu_R x y z lat lon h = Val [ea; no; up] /\ C17_enu2ecef_R ea no up lat lon h = Val [x; y; z].
Proof.
  intros H1 H2. destruct (geodetic2ecef_val lat lon h H1 H2) as (x0 & y0 & z0 & G).
  rewrite (ecef2enu_spec _ _ _ _ _ _ _ _ _ G), ecef2enuv_spec.
  eexists; eexists; eexists. split; [reflexivity|].
  rewrite (enu2ecef_spec _ _ _ _ _ _ _ _ _ G).
  change [?a; ?b; ?c] with [a; b; c].
  match goal with |- Val (vadd3 _ (mvec3 _ ?v)) = _ =>
    replace v with (mvec3 (Renu (rad lat) (rad lon)) [x - x0; y - y0; z - z0]) by reflexivity end.
  rewrite Renu_tr_left. unfold vadd3, e; simpl. val_eq; ring.
Qed.

Lemma enu_ecef_inverse_2 ea no up lat lon h : Rabs lat <= 90 -> Rabs lon <= 180 ->
  exists x y z, C17_enu2ecef_R ea no up lat lon h = Val [x; y; z] /\ C17_ecef2enu_R x y z lat lon h = Val [ea; no; up].
Proof.
  intros H1 H2. destruct (geodetic2ecef_val lat lon h H1 H2) as (x0 & y0 & z0 & G).
  rewrite (enu2ecef_spec _ _ _ _ _ _ _ _ _ G).
  eexists; eexists; eexists. split; [reflexivity|].
  rewrite (ecef2enu_spec _ _ _ _ _ _ _ _ _ G), ecef2enuv_spec.
  unfold Renu, vadd3. unfold_rot. val_eq; tring.
Qed.

(* outside the documented ranges both directions reject *)
Lemma enu_ecef_reject x y z lat lon h : 90 < Rabs lat \/ 180 < Rabs lon ->
  C17_ecef2enu_R x y z lat lon h = Raise ValueError /\ C17_enu2ecef_R x y z lat lon h = Raise ValueError.
Proof.
  intros H. unfold C17_ecef2enu_R, C17_enu2ecef_R. cbv zeta.
  destruct (Rlt_dec 90 (Rabs lat)); [split; reflexivity|]. destruct (Rlt_dec 180 (Rabs lon)); [split; reflexivity|]. lra.
Qed.

(* ---------------------------------------------------------------- rigid: distances preserved, origin -> 0 *)
Lemma ecef2enuv_isometry x1 y1 z1 x2 y2 z2 x0 y0 z0 lat lon p q :
  C17_ecef2enuv_R x1 y1 z1 x0 y0 z0 lat lon = Val p -> C17_ecef2enuv_R x2 y2 z2 x0 y0 z0 lat lon = Val q ->
  length p = 3%nat /\ length q = 3%nat /\ dist2 p q = dist2 [x1; y1; z1] [x2; y2; z2].
Proof.
  rewrite !ecef2enuv_spec. intros Hp Hq. apply Val_inv in Hp, Hq. subst p q.
  split; [reflexivity|]. split; [reflexivity|].
  unfold dist2, vsub3, dot3, Renu. unfold_rot. tring.
Qed.

Lemma ecef2enu_isometry x1 y1 z1 x2 y2 z2 lat lon h p q :
  C17_ecef2enu_R x1 y1 z1 lat lon h = Val p -> C17_ecef2enu_R x2 y2 z2 lat lon h = Val q ->
  length p = 3%nat /\ length q = 3%nat /\ dist2 p q = dist2 [x1; y1; z1] [x2; y2; z2].
Proof.
  intros Hp Hq.
  assert (G : exists x0 y0 z0, C17_geodetic2ecef_R lat lon h = Val [x0; y0; z0]).
  { apply geodetic2ecef_val.
    - revert Hp. unfold C17_ecef2enu_R. destruct (Rlt_dec 90 (Rabs lat)); [discriminate|lra].
    - revert Hp. unfold C17_ecef2enu_R. destruct (Rlt_dec 90 (Rabs lat)); [discriminate|].
      destruct (Rlt_dec 180 (Rabs lon)); [discriminate|lra]. }
  destruct G as (x0 & y0 & z0 & G).
  rewrite (ecef2enu_spec _ _ _ _ _ _ _ _ _ G) in Hp. rewrite (ecef2enu_spec _ _ _ _ _ _ _ _ _ G) in Hq.
  exact (ecef2enuv_isometry _ _ _ _ _ _ _ _ _ _ _ _ _ Hp Hq).
Qed.

Lemma ecef2enu_origin lat lon h x0 y0 z0 :
  C17_geodetic2ecef_R lat lon h = Val [x0; y0; z0] -> C17_ecef2enu_R x0 y0 z0 lat lon h = Val [0; 0; 0].
Proof.
  intros G. rewrite (ecef2enu_spec _ _ _ _ _ _ _ _ _ G), ecef2enuv_spec. unfold Renu. unfold_rot. val_eq; ring.
Qed.

Lemma ecef2enuv_origin x0 y0 z0 lat lon : C17_ecef2enuv_R x0 y0 z0 x0 y0 z0 lat lon = Val [0; 0; 0].
Proof. rewrite ecef2enuv_spec. unfold Renu. unfold_rot. val_eq; ring. Qed.

(* geodetic2enu of a point seen from itself is the zero vector *)
Lemma geodetic2enu_self lat lon h : Rabs lat <= 90 -> Rabs lon <= 180 -> C17_geodetic2enu_R lat lon h lat lon h = Val [0; 0; 0].
Proof.
  intros H1 H2. destruct (geodetic2ecef_val lat lon h H1 H2) as (x0 & y0 & z0 & G).
  rewrite (geodetic2enu_spec _ _ _ _ _ _ _ _ _ _ _ _ G G). apply ecef2enuv_origin.
Qed.

(* ---------------------------------------------------------------- ECEF <-> local-level rotation matrices *)
Lemma llf_orthogonal_transposes lat lon :
  exists A B, C17_llf2ecef_R lat lon = Val A /\ C17_ecef2llf_R lat lon = Val B /\
              A = mtr3 B /\ SO3 A /\ SO3 B /\ mmul3 A B = I3 /\ mmul3 B A = I3.
Proof.
  unfold C17_llf2ecef_R, C17_ecef2llf_R. cbv zeta.
  eexists; eexists. split; [reflexivity|]. split; [reflexivity|].
  split; [unfold_rot; list_eq; ring|].
  unfold SO3. unfold_rot.
  repeat split; try reflexivity; try (list_eq; tring); tring.
Qed.

(* observation (not part of the property): the parameter names of ecef2llf are swapped with respect to
   ecef2enuv's rotation — ecef2llf(lat, lon) is the ECEF->ENU rotation at latitude `lon` and longitude `lat` *)
Lemma ecef2llf_is_Renu_swapped lat lon : C17_ecef2llf_R lat lon = Val (Renu lon lat).
Proof. unfold C17_ecef2llf_R, Renu. cbv zeta. val_eq; ring. Qed.

(* ---------------------------------------------------------------- NED <-> ENU *)
Lemma ned_enu_involution x y z :
  C17_ned2enu_R x y z = Val [y; x; - z] /\ C17_enu2ned_R x y z = Val [y; x; - z] /\
  C17_enu2ned_R y x (- z) = Val [x; y; z] /\ C17_ned2enu_R y x (- z) = Val [x; y; z].
Proof. unfold C17_ned2enu_R, C17_enu2ned_R. repeat split; val_eq; ring. Qed.

Lemma ned_enu_rows x y z x0 y0 z0 :
  C17_ned2enu_rows_R x y z x0 y0 z0 = Val [y; x; - z; y0; x0; - z0] /\
  C17_enu2ned_rows_R y x (- z) y0 x0 (- z0) = Val [x; y; z; x0; y0; z0].
Proof. unfold C17_ned2enu_rows_R, C17_enu2ned_rows_R. split; val_eq; ring. Qed.

Lemma ned_enu_rows3 x1 y1 z1 x2 y2 z2 x3 y3 z3 :
  C17_ned2enu_rows3_R x1 y1 z1 x2 y2 z2 x3 y3 z3 = Val [y1; x1; - z1; y2; x2; - z2; y3; x3; - z3] /\
  C17_enu2ned_rows3_R y1 x1 (- z1) y2 x2 (- z2) y3 x3 (- z3) = Val [x1; y1; z1; x2; y2; z2; x3; y3; z3].
Proof. unfold C17_ned2enu_rows3_R, C17_enu2ned_rows3_R. split; val_eq; ring. Qed.

Lemma ned_enu_rows4 x1 y1 z1 x2 y2 z2 x3 y3 z3 x4 y4 z4 :
  C17_ned2enu_rows4_R x1 y1 z1 x2 y2 z2 x3 y3 z3 x4 y4 z4 = Val [y1; x1; - z1; y2; x2; - z2; y3; x3; - z3; y4; x4; - z4] /\
  C17_enu2ned_rows4_R y1 x1 (- z1) y2 x2 (- z2) y3 x3 (- z3) y4 x4 (- z4) = Val [x1; y1; z1; x2; y2; z2; x3; y3; z3; x4; y4; z4].
Proof. unfold C17_ned2enu_rows4_R, C17_enu2ned_rows4_R. split; val_eq; ring. Qed.

(* ---------------------------------------------------------------- ENU <-> DCA *)
Lemma enu_dca_inverse ea no up ang :
  (exists d c k, C17_enu2dca_R ea no up ang = Val [d; c; k] /\ C17_dca2enu_R d c k ang = Val [ea; no; up]) /\
  (exists a b k, C17_dca2enu_R ea no up ang = Val [a; b; k] /\ C17_enu2dca_R a b k ang = Val [ea; no; up]).
Proof.
  unfold C17_enu2dca_R, C17_dca2enu_R. cbv zeta.
  split; (eexists; eexists; eexists; split; [reflexivity|]); val_eq; tring.
Qed.

Lemma enu_dca_inverse_rad ea no up ang :
  (exists d c k, C17_enu2dca_rad_R ea no up ang = Val [d; c; k] /\ C17_dca2enu_rad_R d c k ang = Val [ea; no; up]) /\
  (exists a b k, C17_dca2enu_rad_R ea no up ang = Val [a; b; k] /\ C17_enu2dca_rad_R a b k ang = Val [ea; no; up]).
Proof.
  unfold C17_enu2dca_rad_R, C17_dca2enu_rad_R. cbv zeta.
  split; (eexists; eexists; eexists; split; [reflexivity|]); val_eq; tring.
Qed.

(* DCA is a rotation about the up axis: lengths are preserved as well *)
Lemma enu2dca_isometry ea no up ang d c k :
  C17_enu2dca_R ea no up ang = Val [d; c; k] -> d * d + c * c + k * k = ea * ea + no * no + up * up.
Proof. unfold C17_enu2dca_R. cbv zeta. intros H. inj3 H. tring. Qed.

(* ---------------------------------------------------------------- non-vacuity *)
Example linear_nonvacuous :
  Rabs 45 <= 90 /\ Rabs (-120) <= 180 /\
  (exists p, C17_ecef2enu_R 1 2 3 45 (-120) 100 = Val p) /\
  (exists x0 y0 z0, C17_geodetic2ecef_R 45 (-120) 100 = Val [x0; y0; z0]).
Proof.
  assert (A : Rabs 45 <= 90) by (rewrite Rabs_right; lra).
  assert (B : Rabs (-120) <= 180) by (rewrite Rabs_left; lra).
  split; [exact A|]. split; [exact B|]. split.
  - destruct (enu_ecef_inverse_1 1 2 3 45 (-120) 100 A B) as (ea & no & up & H & _). eexists; exact H.
  - exact (geodetic2ecef_val 45 (-120) 100 A B).
Qed.
