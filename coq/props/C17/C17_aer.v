(* C17_aer.v — ENU <-> AER (azimuth, elevation, slant range), ahrs/common/frames.py:605-662, about the regenerated
   definitions.  ENU -> AER -> ENU is the identity for EVERY point (the zenith and the origin included);
   AER -> ENU -> AER is the identity on the chart  0 <= az < 360, -90 < el < 90, r > 0. *)
From Coq Require Import Reals List Lra.
From AhrsLib Require Import Base Rot FramesLib.
From AhrsGen Require Import C17gen_R.
Import ListNotations.
Open Scope R_scope.

Lemma deg_rad_cancel t : t * (180 / PI) * (1 / 180 * PI) = t.
Proof. field. apply PI_neq0. Qed.
Lemma rad_deg_cancel t : t * (1 / 180 * PI) * (180 / PI) = t.
Proof. field. apply PI_neq0. Qed.

Lemma enu_aer_inverse ea no up :
  exists az el r, C17_enu2aer_R ea no up = Val [az; el; r] /\ C17_aer2enu_R az el r = Val [ea; no; up].
Proof.
  unfold C17_enu2aer_R, C17_aer2enu_R. cbv zeta. eexists; eexists; eexists. split; [reflexivity|].
  rewrite !deg_rad_cancel. rewrite sin_Rfmod_2PI, cos_Rfmod_2PI.
  set (r := sqrt (ea * ea + no * no)).
  destruct (polar_atan2 r up) as [P1 P2].
  destruct (polar_atan2 no ea) as [Q1 Q2].
  replace (no * no + ea * ea) with (ea * ea + no * no) in Q1, Q2 by ring. fold r in Q1, Q2.
  val_eq.
  - rewrite P1. exact Q2.
  - rewrite P1. exact Q1.
  - exact P2.
Qed.

Lemma enu_aer_inverse_rad ea no up :
  exists az el r, C17_enu2aer_rad_R ea no up = Val [az; el; r] /\ C17_aer2enu_rad_R az el r = Val [ea; no; up].
Proof.
  unfold C17_enu2aer_rad_R, C17_aer2enu_rad_R. cbv zeta. eexists; eexists; eexists. split; [reflexivity|].
  rewrite sin_Rfmod_2PI, cos_Rfmod_2PI.
  set (r := sqrt (ea * ea + no * no)).
  destruct (polar_atan2 r up) as [P1 P2].
  destruct (polar_atan2 no ea) as [Q1 Q2].
  replace (no * no + ea * ea) with (ea * ea + no * no) in Q1, Q2 by ring. fold r in Q1, Q2.
  val_eq.
  - rewrite P1. exact Q2.
  - rewrite P1. exact Q1.
  - exact P2.
Qed.

(* the slant range returned by enu2aer is the Euclidean norm, the azimuth lies in [0, 360) *)
Lemma enu2aer_range ea no up az el r : C17_enu2aer_R ea no up = Val [az; el; r] ->
  r * r = ea * ea + no * no + up * up /\ 0 <= r /\ 0 <= az < 360 /\ -90 <= el <= 90.
Proof.
  unfold C17_enu2aer_R. cbv zeta. intros H. injection H as <- <- <-.
  pose proof PI_RGT_0 as Hpi.
  assert (H0 : 0 <= ea * ea + no * no) by nra.
  assert (H1 : 0 <= sqrt (ea * ea + no * no) * sqrt (ea * ea + no * no) + up * up).
  { rewrite sqrt_sqrt by exact H0. nra. }
  split. { rewrite sqrt_sqrt by exact H1. rewrite sqrt_sqrt by exact H0. ring. }
  split. { apply sqrt_pos. }
  split.
  - destruct (Rfmod_range (atan2 ea no) (2 * PI)) as [A B]; [lra|].
    assert (0 < 180 / PI) by (apply Rdiv_lt_0_compat; lra).
    split; [nra|].
    replace 360 with (2 * PI * (180 / PI)) by (field; lra). nra.
  - set (r := sqrt (ea * ea + no * no)).
    assert (Hr : 0 <= r) by apply sqrt_pos.
    assert (Hb : - (PI / 2) <= atan2 up r <= PI / 2).
    { unfold atan2. pose proof (atan_bound (up / r)).
      destruct (Rlt_dec 0 r); [lra|]. destruct (Rlt_dec r 0); [lra|].
      destruct (Rlt_dec 0 up); [lra|]. destruct (Rlt_dec up 0); lra. }
    assert (0 < 180 / PI) by (apply Rdiv_lt_0_compat; lra).
    set (d := 180 / PI) in *. assert (Hd : PI / 2 * d = 90) by (unfold d; field; lra).
    destruct Hb as [Hb1 Hb2]. split.
    + apply Rle_trans with (- (PI / 2) * d); [lra|]. apply Rmult_le_compat_r; lra.
    + apply Rle_trans with (PI / 2 * d); [|lra]. apply Rmult_le_compat_r; lra.
Qed.

(* the other order, on the chart where AER coordinates are unique *)
Lemma aer_enu_inverse az el r : 0 <= az < 360 -> -90 < el < 90 -> 0 < r ->
  exists ea no up, C17_aer2enu_R az el r = Val [ea; no; up] /\ C17_enu2aer_R ea no up = Val [az; el; r].
Proof.
  intros Haz Hel Hr. pose proof PI_RGT_0 as Hpi.
  unfold C17_enu2aer_R, C17_aer2enu_R. cbv zeta. eexists; eexists; eexists. split; [reflexivity|].
  set (a := az * (1 / 180 * PI)). set (l := el * (1 / 180 * PI)).
  assert (Ha : 0 <= a < 2 * PI).
  { unfold a. replace (2 * PI) with (360 * (1 / 180 * PI)) by field. split; nra. }
  assert (Hl : - (PI / 2) < l < PI / 2).
  { unfold l. replace (PI / 2) with (90 * (1 / 180 * PI)) by field.
    replace (- (90 * (1 / 180 * PI))) with (- 90 * (1 / 180 * PI)) by ring. split; nra. }
  assert (Hc : 0 < cos l) by (apply cos_gt_0; lra).
  set (k := r * cos l). assert (Hk : 0 < k) by (unfold k; nra).
  assert (E1 : sqrt (k * sin a * (k * sin a) + k * cos a * (k * cos a)) = k).
  { replace (k * sin a * (k * sin a) + k * cos a * (k * cos a)) with (k * k) by (pose proof (sc_unit a); nra).
    rewrite sqrt_sq_abs, Rabs_right; lra. }
  rewrite E1.
  assert (E2 : sqrt (k * k + r * sin l * (r * sin l)) = r).
  { replace (k * k + r * sin l * (r * sin l)) with (r * r) by (unfold k; pose proof (sc_unit l); nra).
    rewrite sqrt_sq_abs, Rabs_right; lra. }
  rewrite E2.
  replace (atan2 (r * sin l) k) with l by (unfold k; symmetry; apply atan2_polar; lra).
  val_eq.
  - (* azimuth *)
    destruct (Rle_dec a PI) as [Hs|Hs].
    + rewrite (atan2_polar k a) by lra. rewrite Rfmod_id by lra. unfold a. apply rad_deg_cancel.
    + replace (sin a) with (sin (a - 2 * PI)).
      2:{ replace (a - 2 * PI) with (a + 2 * IZR (-1) * PI) by (simpl; ring). apply sin_period_Z. }
      replace (cos a) with (cos (a - 2 * PI)).
      2:{ replace (a - 2 * PI) with (a + 2 * IZR (-1) * PI) by (simpl; ring). apply cos_period_Z. }
      rewrite (atan2_polar k (a - 2 * PI)) by lra. rewrite Rfmod_wrap by lra.
      replace (a - 2 * PI + 2 * PI) with a by ring. unfold a. apply rad_deg_cancel.
  - unfold l. apply rad_deg_cancel.
Qed.

Example aer_nonvacuous : 0 <= 200 < 360 /\ -90 < 35 < 90 /\ 0 < 15 /\
  exists ea no up, C17_aer2enu_R 200 35 15 = Val [ea; no; up].
Proof.
  split; [lra|]. split; [lra|]. split; [lra|].
  destruct (aer_enu_inverse 200 35 15) as (ea & no & up & H & _); try lra. exists ea, no, up. exact H.
Qed.
