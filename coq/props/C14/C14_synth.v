(* C14_synth.v — packing round-trip, multiple-angle recursion, and the synthesis theorem:
   the double loop of WMM.magnetic_field (hand model, instance at R) computes the degree-12 sums of the
   WMM report with Schmidt semi-normalised functions, for EVERY coefficient table. *)
From Coq Require Import Reals List ZArith QArith Qreals Bool Lra Lia.
From AhrsLib Require Import SphHarm.
From AhrsModel Require Import C14_wmm.
From AhrsProps Require Import C14_poly.
Import ListNotations.
Close Scope Q_scope.
Open Scope R_scope.

(* ------------------------------------------------------------------------------------------ *)
(* the coefficient file as a table                                                              *)
(* ------------------------------------------------------------------------------------------ *)
Section Packing.
  Context {T : Type} (OP : Ops T).

  Definition key (r : row T) : nat * nat := (rn r, rm r).
  Definition is_key (n m : nat) (r : row T) : bool := Nat.eqb (rn r) n && Nat.eqb (rm r) m.
  Definition lookup (rows : list (row T)) (n m : nat) : option (row T) := find (is_key n m) rows.
  (* a well-formed file: no (n,m) twice, orders do not exceed degrees *)
  Definition wf (rows : list (row T)) : Prop := NoDup (map key rows) /\ Forall (fun r => (rm r <= rn r)%nat) rows.

  Definition coef (f : row T -> T) (rows : list (row T)) (n m : nat) : T :=
    match lookup rows n m with Some r => f r | None => o0 OP end.

  Lemma lookup_in rows n m r : lookup rows n m = Some r -> In (n, m) (map key rows).
  Proof.
    unfold lookup. intros H. apply find_some in H. destruct H as [Hin Hk].
    unfold is_key in Hk. apply andb_prop in Hk. destruct Hk as [H1 H2].
    apply Nat.eqb_eq in H1. apply Nat.eqb_eq in H2. subst.
    apply in_map_iff. exists r. split; [reflexivity|exact Hin].
  Qed.

  Ltac eqbs := repeat match goal with
    | |- context [Nat.eqb ?a ?b] => destruct (Nat.eqb_spec a b)
    | H : context [Nat.eqb ?a ?b] |- _ => destruct (Nat.eqb_spec a b)
    end; cbn [andb] in *.

  (* one row written into the packed matrices *)
  Lemma step_cells (c0 cd0 : mat T) (r : row T) (n m : nat) :
    (rm r <= rn r)%nat -> (m <= n)%nat ->
    let c1 := fst (load_step (c0, cd0) r) in
    let cd1 := snd (load_step (c0, cd0) r) in
    if is_key n m r then
      c1 m n = rg r /\ cd1 m n = rgd r /\ ((1 <= m)%nat -> c1 n (m - 1)%nat = rh r /\ cd1 n (m - 1)%nat = rhd r)
    else
      c1 m n = c0 m n /\ cd1 m n = cd0 m n /\ ((1 <= m)%nat -> c1 n (m - 1)%nat = c0 n (m - 1)%nat /\ cd1 n (m - 1)%nat = cd0 n (m - 1)%nat).
  Proof.
    intros Hr Hm. unfold load_step, is_key, upd. cbn zeta.
    destruct (Nat.eqb_spec (rm r) 0) as [E0|E0]; cbn [fst snd].
    - eqbs; repeat split; intros; try reflexivity; try lia; eqbs; try reflexivity; lia.
    - eqbs; repeat split; intros; try reflexivity; try lia; eqbs; try reflexivity; lia.
  Qed.

  Lemma load_cells rows : forall (c0 cd0 : mat T), wf rows -> forall n m, (m <= n)%nat ->
    let c := fst (fold_left (load_step) rows (c0, cd0)) in
    let cd := snd (fold_left (load_step) rows (c0, cd0)) in
    c m n = match lookup rows n m with Some r => rg r | None => c0 m n end /\
    cd m n = match lookup rows n m with Some r => rgd r | None => cd0 m n end /\
    ((1 <= m)%nat -> c n (m - 1)%nat = match lookup rows n m with Some r => rh r | None => c0 n (m - 1)%nat end /\
                     cd n (m - 1)%nat = match lookup rows n m with Some r => rhd r | None => cd0 n (m - 1)%nat end).
  Proof.
    induction rows as [|r rs IH]; intros c0 cd0 [Hnd Hle] n m Hm.
    - cbn. repeat split; reflexivity.
    - cbn [fold_left].
      inversion Hnd as [|k ks Hnotin Hnd']; subst. inversion Hle as [|r' rs' Hr Hle']; subst.
      pose proof (step_cells c0 cd0 r n m Hr Hm) as Hs. cbn zeta in Hs.
      destruct (load_step (c0, cd0) r) as [c1 cd1] eqn:E1. cbn [fst snd] in Hs.
      specialize (IH c1 cd1 (conj Hnd' Hle') n m Hm). cbn zeta in IH. cbn zeta.
      unfold lookup in *. cbn [find].
      destruct (is_key n m r) eqn:Ek.
      + assert (Hnone : find (is_key n m) rs = None).
        { destruct (find (is_key n m) rs) as [r2|] eqn:E2; [|reflexivity].
          exfalso. apply Hnotin. unfold is_key in Ek. apply andb_prop in Ek. destruct Ek as [K1 K2].
          apply Nat.eqb_eq in K1. apply Nat.eqb_eq in K2. unfold key at 1. rewrite K1, K2.
          apply (lookup_in rs n m r2). exact E2. }
        rewrite Hnone in IH. destruct IH as [I1 [I2 I3]]. destruct Hs as [S1 [S2 S3]].
        rewrite I1, I2, S1, S2. repeat split; try reflexivity.
        * destruct (I3 H) as [J1 _]. destruct (S3 H) as [K1 _]. rewrite J1, K1. reflexivity.
        * destruct (I3 H) as [_ J2]. destruct (S3 H) as [_ K2]. rewrite J2, K2. reflexivity.
      + destruct IH as [I1 [I2 I3]]. destruct Hs as [S1 [S2 S3]].
        rewrite I1, I2. destruct (find (is_key n m) rs) as [r2|].
        * repeat split; try reflexivity; destruct (I3 H) as [J1 J2]; assumption.
        * rewrite S1, S2. repeat split; try reflexivity; destruct (I3 H) as [J1 J2]; destruct (S3 H) as [K1 K2].
          -- rewrite J1, K1; reflexivity.
          -- rewrite J2, K2; reflexivity.
  Qed.

  (* packing_roundtrip: g, h and their secular terms are recovered from the packed matrices *)
  Theorem packing_roundtrip_gen rows : wf rows -> forall n m, (m <= n)%nat ->
    let c := fst (load OP rows) in
    let cd := snd (load OP rows) in
    c m n = coef rg rows n m /\ cd m n = coef rgd rows n m /\
    ((1 <= m)%nat -> c n (m - 1)%nat = coef rh rows n m /\ cd n (m - 1)%nat = coef rhd rows n m).
  Proof.
    intros Hwf n m Hm. unfold load, coef.
    pose proof (load_cells rows (zero_mat OP) (zero_mat OP) Hwf n m Hm) as H. cbn zeta in H.
    unfold zero_mat in H. exact H.
  Qed.

  (* every row of a well-formed file is the one found under its key *)
  Lemma lookup_row rows r : wf rows -> In r rows -> lookup rows (rn r) (rm r) = Some r.
  Proof.
    induction rows as [|a rs IH]; intros [Hnd Hle] Hin; [destruct Hin|].
    inversion Hnd as [|k ks Hnotin Hnd']; subst. inversion Hle as [|r' rs' Hr Hle']; subst.
    unfold lookup. cbn [find]. destruct Hin as [->|Hin].
    - unfold is_key. rewrite !Nat.eqb_refl. reflexivity.
    - destruct (is_key (rn r) (rm r) a) eqn:Ek.
      + exfalso. apply Hnotin. unfold is_key in Ek. apply andb_prop in Ek. destruct Ek as [K1 K2].
        apply Nat.eqb_eq in K1. apply Nat.eqb_eq in K2. unfold key at 1. rewrite K1, K2.
        apply in_map_iff. exists r. split; [reflexivity|exact Hin].
      + apply (IH (conj Hnd' Hle') Hin).
  Qed.
End Packing.

(* ------------------------------------------------------------------------------------------ *)
(* multiple angles                                                                              *)
(* ------------------------------------------------------------------------------------------ *)
Theorem multiple_angle_gen lam m :
  cs OpsR (sin lam) (cos lam) m = (cos (INR m * lam), sin (INR m * lam)).
Proof.
  induction m as [|j IH].
  - cbn [cs]. cbn [o0 o1 OpsR]. rewrite Rmult_0_l, cos_0, sin_0. reflexivity.
  - cbn [cs]. rewrite IH. cbn [oadd osub omul OpsR]. rewrite S_INR.
    replace ((INR j + 1) * lam) with (lam + INR j * lam) by ring.
    rewrite cos_plus, sin_plus. f_equal; ring.
Qed.

(* ------------------------------------------------------------------------------------------ *)
(* shared tables are the functions                                                              *)
(* ------------------------------------------------------------------------------------------ *)
Lemma nth_map_seq {A} (f : nat -> A) a len k d : (k < len)%nat -> nth k (map f (seq a len)) d = f (a + k)%nat.
Proof.
  intros H. rewrite (nth_indep _ d (f 0%nat)) by (rewrite map_length, seq_length; exact H).
  rewrite map_nth, seq_nth by exact H. reflexivity.
Qed.

Section Tables.
  Context {T : Type} (OP : ROps T) (s c : T).
  Lemma leg_upto_heads N :
    nth 0 (leg_upto OP s c N) [] = fst (leg2 OP s c N) /\ nth 1 (leg_upto OP s c N) [] = snd (leg2 OP s c N).
  Proof.
    induction N as [|k [I0 I1]]; [split; reflexivity|].
    cbn [leg_upto]. cbn zeta. cbn [nth]. rewrite I0, I1. cbn [leg2].
    destruct (leg2 OP s c k) as [a b]. cbn [fst snd]. split; reflexivity.
  Qed.
  Lemma leg_upto_nth N : forall n, (n <= N)%nat -> nth (N - n) (leg_upto OP s c N) [] = legrow OP s c n.
  Proof.
    induction N as [|k IH]; intros n Hn.
    - assert (n = 0)%nat by lia. subst. reflexivity.
    - destruct (Nat.eq_dec n (S k)) as [->|Hne].
      + rewrite Nat.sub_diag. apply (proj1 (leg_upto_heads (S k))).
      + replace (S k - n)%nat with (S (k - n)) by lia. cbn [leg_upto]. cbn zeta. cbn [nth]. apply IH. lia.
  Qed.
  Lemma tabP_ok N n m : (n <= N)%nat -> tabP OP N (leg_upto OP s c N) n m = Pmn OP s c n m.
  Proof. intros H. unfold tabP, Pmn. rewrite leg_upto_nth by exact H. reflexivity. Qed.
  Lemma tabdP_ok N n m : (n <= N)%nat -> tabdP OP N (leg_upto OP s c N) n m = dPmn OP s c n m.
  Proof. intros H. unfold tabdP, dPmn. rewrite leg_upto_nth by exact H. reflexivity. Qed.
End Tables.

Lemma stab_ok {T} (OP : Ops T) N n m : (n <= N)%nat -> (m <= n)%nat ->
  nth m (nth n (map (fun n => map (Smn OP n) (seq 0 (S n))) (seq 0 (S N))) []) (o0 OP) = Smn OP n m.
Proof.
  intros Hn Hm. rewrite (nth_map_seq (fun n => map (Smn OP n) (seq 0 (S n))) 0 (S N) n []) by lia.
  rewrite Nat.add_0_l. rewrite nth_map_seq by lia. reflexivity.
Qed.

(* ------------------------------------------------------------------------------------------ *)
(* folds are sums                                                                               *)
(* ------------------------------------------------------------------------------------------ *)
Lemma fold_add l f : forall a, fold_left (fun acc i => acc + f i) l a = a + Rsum l f.
Proof. unfold Rsum. induction l as [|x l IH]; intros a; cbn [fold_left fold_right]; [ring|rewrite IH; ring]. Qed.
Lemma fold_sub l f : forall a, fold_left (fun acc i => acc - f i) l a = a - Rsum l f.
Proof. unfold Rsum. induction l as [|x l IH]; intros a; cbn [fold_left fold_right]; [ring|rewrite IH; ring]. Qed.
Lemma fsum_R l f : fsum OpsR l f = Rsum l f.
Proof. unfold fsum. cbn [oadd o0 OpsR]. rewrite fold_add. ring. Qed.
Lemma opow_R x k : opow OpsR x k = x ^ k.
Proof. induction k; cbn [opow pow]; cbn [omul o1 OpsR]; [reflexivity|rewrite IHk; reflexivity]. Qed.

(* ------------------------------------------------------------------------------------------ *)
(* synthesis                                                                                    *)
(* ------------------------------------------------------------------------------------------ *)
Section Synth.
  Variable rows : list (row R).
  Hypothesis Hwf : wf rows.
  Variables dt phi lam ar cpsi spsi : R.

  Let c := fst (load OpsR rows).
  Let cd := snd (load OpsR rows).
  (* the spec's Gauss coefficients at time t0 + dt *)
  Definition g_t (n m : nat) : R := advance (coef OpsR rg rows) (coef OpsR rgd rows) dt n m.
  Definition h_t (n m : nat) : R := advance (coef OpsR rh rows) (coef OpsR rhd rows) dt n m.

  Let Pt := tabP RR NMAX (leg_upto RR (sin phi) (cos phi) NMAX).
  Let dPt := tabdP RR NMAX (leg_upto RR (sin phi) (cos phi) NMAX).
  Let St := fun n m => nth m (nth n (map (fun n => map (Smn OpsR n) (seq 0 (S n))) (seq 0 (S NMAX))) []) (o0 OpsR).

  Lemma gchs_spec n m : (m <= n)%nat -> (n <= 12)%nat ->
    gchs OpsR c cd dt (sin lam) (cos lam) St n m =
    Smn OpsR n m * (g_t n m * cos (INR m * lam) + h_t n m * sin (INR m * lam)).
  Proof.
    intros Hm Hn. unfold gchs, gh_g, gh_h, cpm, spm. rewrite multiple_angle_gen. cbn [fst snd].
    unfold St. rewrite (stab_ok OpsR NMAX n m) by (unfold NMAX; lia).
    destruct (packing_roundtrip_gen OpsR rows Hwf n m Hm) as [E1 [E2 E3]]. cbn zeta in E1, E2, E3.
    fold c in E1, E3. fold cd in E2, E3. unfold g_t, h_t, advance.
    cbn [oadd osub omul OpsR]. rewrite E1, E2.
    destruct (Nat.eqb_spec m 0) as [->|Hne].
    - cbn [INR]. rewrite Rmult_0_l, sin_0, cos_0. ring.
    - destruct (E3 ltac:(lia)) as [E4 E5]. rewrite E4, E5. ring.
  Qed.
  Lemma gshc_spec n m : (1 <= m)%nat -> (m <= n)%nat -> (n <= 12)%nat ->
    gshc OpsR c cd dt (sin lam) (cos lam) St n m =
    Smn OpsR n m * (g_t n m * sin (INR m * lam) - h_t n m * cos (INR m * lam)).
  Proof.
    intros H1 Hm Hn. unfold gshc, gh_g, gh_h, cpm, spm. rewrite multiple_angle_gen. cbn [fst snd].
    unfold St. rewrite (stab_ok OpsR NMAX n m) by (unfold NMAX; lia).
    destruct (packing_roundtrip_gen OpsR rows Hwf n m Hm) as [E1 [E2 E3]]. cbn zeta in E1, E2, E3.
    fold c in E1, E3. fold cd in E2, E3. unfold g_t, h_t, advance.
    cbn [oadd osub omul OpsR]. rewrite E1, E2.
    destruct (Nat.eqb_spec m 0) as [->|Hne]; [lia|].
    destruct (E3 H1) as [E4 E5]. rewrite E4, E5. ring.
  Qed.

  Lemma Pt_spec n m : (m <= n)%nat -> (n <= 12)%nat -> Smn OpsR n m * Pt n m = Pschmidt n m phi.
  Proof.
    intros Hm Hn. unfold Pt. rewrite tabP_ok by (unfold NMAX; lia).
    apply (proj1 (legendre_matches_spec_12 n m phi Hm Hn)).
  Qed.
  Lemma dPt_spec n m : (m <= n)%nat -> (n <= 12)%nat -> Smn OpsR n m * dPt n m = - dPschmidt n m phi.
  Proof.
    intros Hm Hn. unfold dPt. rewrite tabdP_ok by (unfold NMAX; lia).
    apply (proj2 (legendre_matches_spec_12 n m phi Hm Hn)).
  Qed.

  Lemma x_p_spec n : (1 <= n <= 12)%nat ->
    x_p OpsR c cd dt (sin lam) (cos lam) dPt St n =
    - Rsum (seq 0 (S n)) (fun m => (g_t n m * cos (INR m * lam) + h_t n m * sin (INR m * lam)) * dPschmidt n m phi).
  Proof.
    intros Hn. unfold x_p. rewrite fsum_R, <- Rsum_opp. apply Rsum_ext. intros m Hm'. apply in_seq in Hm'.
    rewrite gchs_spec by lia. cbn [omul OpsR].
    pose proof (dPt_spec n m ltac:(lia) ltac:(lia)) as E.
    replace (dPschmidt n m phi) with (- (Smn OpsR n m * dPt n m)) by (rewrite E; ring). ring.
  Qed.
  Lemma Xp_spec : Xp OpsR c cd dt (sin lam) (cos lam) ar dPt St = sh_X 12 g_t h_t ar lam phi.
  Proof.
    unfold Xp, sh_X, NMAX. rewrite fsum_R, <- Rsum_opp. apply Rsum_ext. intros n Hn. apply in_seq in Hn.
    unfold arn2. rewrite opow_R, x_p_spec by lia. cbn [omul OpsR]. ring.
  Qed.
  Lemma Zp_spec : Zp OpsR c cd dt (sin lam) (cos lam) ar Pt St = sh_Z 12 g_t h_t ar lam phi.
  Proof.
    unfold Zp, sh_Z, NMAX. cbn [osub omul o0 oZ OpsR]. rewrite fold_sub. rewrite Rminus_0_l. f_equal.
    apply Rsum_ext. intros n Hn. apply in_seq in Hn.
    unfold arn2, z_p. rewrite opow_R, fsum_R. rewrite <- INR_IZR_INZ. f_equal.
    apply Rsum_ext. intros m Hm'. apply in_seq in Hm'.
    rewrite gchs_spec by lia. cbn [omul OpsR].
    rewrite <- (Pt_spec n m ltac:(lia) ltac:(lia)). ring.
  Qed.
  Lemma Yp_spec : cos phi <> 0 ->
    Yp OpsR c cd dt (sin lam) (cos lam) ar Pt St / cos phi = sh_Y 12 g_t h_t ar lam phi.
  Proof.
    intros Hc. unfold Yp, sh_Y, NMAX. rewrite fsum_R. unfold Rdiv. rewrite Rmult_comm. f_equal.
    apply Rsum_ext. intros n Hn. apply in_seq in Hn.
    unfold arn2, y_p. rewrite opow_R, fsum_R. cbn [omul OpsR]. f_equal.
    apply Rsum_ext. intros m Hm'. apply in_seq in Hm'.
    cbn [omul oZ OpsR]. rewrite <- INR_IZR_INZ.
    destruct (Nat.eq_dec m 0) as [->|Hm0]; [cbn [INR]; ring|].
    rewrite gshc_spec by lia.
    rewrite <- (Pt_spec n m ltac:(lia) ltac:(lia)). ring.
  Qed.

  (* synthesis_matches_spec + the rotation to geodetic axes *)
  Theorem synthesis_matches_spec_gen : cos phi <> 0 ->
    core OpsR c cd dt (sin phi) (cos phi) (sin lam) (cos lam) ar cpsi spsi =
    let X' := sh_X 12 g_t h_t ar lam phi in
    let Y' := sh_Y 12 g_t h_t ar lam phi in
    let Z' := sh_Z 12 g_t h_t ar lam phi in
    (X' * cpsi - Z' * spsi, Y', X' * spsi + Z' * cpsi).
  Proof.
    intros Hc. unfold core. cbn zeta. fold RR. fold Pt dPt St. unfold core_with, Yf.
    cbn [ois0 OpsR]. destruct (Req_EM_T (cos phi) 0) as [E|_]; [contradiction|].
    cbn [oadd osub omul odiv OpsR]. rewrite Xp_spec, Zp_spec, (Yp_spec Hc). reflexivity.
  Qed.
End Synth.
