(* C14_synth.v — packing round-trip, multiple-angle recursion, and the synthesis theorem:
   the double loop of WMM.magnetic_field (hand model, instance at R) computes the degree-12 sums of the
   WMM report with Schmidt semi-normalised functions, for EVERY coefficient table. *)
From Coq Require Import Reals List ZArith QArith Qreals Bool Lra Lia.
From AhrsLib Require Import Base SphHarm.
From AhrsModel Require Import C14_wmm.
From AhrsGen Require Import C14gen_R.
From AhrsProps Require Import C14_poly C14_data.
Import ListNotations.
Close Scope Q_scope.
Open Scope R_scope.

(* ------------------------------------------------------------------------------------------ *)
(* the coefficient file as a table                                                              *)
(* ------------------------------------------------------------------------------------------ *)
Section Packing.
  Context {T : Type} (OP : Ops T).

  Definition key (r : row T) : nat * nat := (rn r, rm r).
  Definition is_key (n m : nat) (r : row T) : bool := Nat.eqb (rn r) n && Nat.eqb (rm r) m.
  Definition lookup (rows : list (row T)) (n m : nat) : option (row T) := find (is_key n m) rows.
  (* a well-formed file: no (n,m) twice, orders do not exceed degrees *)
  Definition wf (rows : list (row T)) : Prop := NoDup (map key rows) /\ Forall (fun r => (rm r <= rn r)%nat) rows.

  Definition coef (f : row T -> T) (rows : list (row T)) (n m : nat) : T :=
    match lookup rows n m with Some r => f r | None => o0 OP end.

  Lemma lookup_in rows n m r : lookup rows n m = Some r -> In (n, m) (map key rows).
  Proof.
    unfold lookup. intros H. apply find_some in H. destruct H as [Hin Hk].
    unfold is_key in Hk. apply andb_prop in Hk. destruct Hk as [H1 H2].
    apply Nat.eqb_eq in H1. apply Nat.eqb_eq in H2. subst.
    apply in_map_iff. exists r. split; [reflexivity|exact Hin].
  Qed.

  Lemma upd_eq (M : mat T) i j v : upd M i j v i j = v.
  Proof. unfold upd. rewrite !Nat.eqb_refl. reflexivity. Qed.
  Lemma upd_neq (M : mat T) i j v i' j' : (i' <> i \/ j' <> j) -> upd M i j v i' j' = M i' j'.
  Proof.
    intros H. unfold upd. destruct (Nat.eqb_spec i' i); destruct (Nat.eqb_spec j' j); cbn [andb]; try reflexivity.
    exfalso; destruct H; contradiction.
  Qed.

  (* one row written into the packed matrices *)
  Lemma step_cells (c0 cd0 : mat T) (r : row T) (n m : nat) :
    (rm r <= rn r)%nat -> (m <= n)%nat ->
    let c1 := fst (load_step (c0, cd0) r) in
    let cd1 := snd (load_step (c0, cd0) r) in
    if is_key n m r then
      c1 m n = rg r /\ cd1 m n = rgd r /\ ((1 <= m)%nat -> c1 n (m - 1)%nat = rh r /\ cd1 n (m - 1)%nat = rhd r)
    else
      c1 m n = c0 m n /\ cd1 m n = cd0 m n /\ ((1 <= m)%nat -> c1 n (m - 1)%nat = c0 n (m - 1)%nat /\ cd1 n (m - 1)%nat = cd0 n (m - 1)%nat).
  Proof.
    intros Hr Hm. unfold load_step, is_key. cbn zeta.
    destruct (Nat.eqb_spec (rm r) 0) as [E0|E0]; cbn [fst snd];
      destruct (Nat.eqb_spec (rn r) n) as [En|En]; destruct (Nat.eqb_spec (rm r) m) as [Em|Em]; cbn [andb];
      repeat split; intros; repeat (first [rewrite upd_eq | rewrite upd_neq by lia]); try reflexivity;
      try (exfalso; lia); subst; repeat (first [rewrite upd_eq | rewrite upd_neq by lia]); reflexivity.
  Qed.

  Lemma load_cells rows : forall (c0 cd0 : mat T), wf rows -> forall n m, (m <= n)%nat ->
    let c := fst (fold_left (load_step) rows (c0, cd0)) in
    let cd := snd (fold_left (load_step) rows (c0, cd0)) in
    c m n = match lookup rows n m with Some r => rg r | None => c0 m n end /\
    cd m n = match lookup rows n m with Some r => rgd r | None => cd0 m n end /\
    ((1 <= m)%nat -> c n (m - 1)%nat = match lookup rows n m with Some r => rh r | None => c0 n (m - 1)%nat end /\
                     cd n (m - 1)%nat = match lookup rows n m with Some r => rhd r | None => cd0 n (m - 1)%nat end).
  Proof.
    induction rows as [|r rs IH]; intros c0 cd0 [Hnd Hle] n m Hm.
    - cbn. repeat split; reflexivity.
    - cbn [fold_left].
      inversion Hnd as [|k ks Hnotin Hnd']; subst. inversion Hle as [|r' rs' Hr Hle']; subst.
      pose proof (step_cells c0 cd0 r n m Hr Hm) as Hs. cbn zeta in Hs.
      destruct (load_step (c0, cd0) r) as [c1 cd1] eqn:E1. cbn [fst snd] in Hs.
      specialize (IH c1 cd1 (conj Hnd' Hle') n m Hm). cbn zeta in IH. cbn zeta.
      unfold lookup in *. cbn [find].
      destruct (is_key n m r) eqn:Ek.
      + assert (Hnone : find (is_key n m) rs = None).
        { destruct (find (is_key n m) rs) as [r2|] eqn:E2; [|reflexivity].
          exfalso. apply Hnotin. unfold is_key in Ek. apply andb_prop in Ek. destruct Ek as [K1 K2].
          apply Nat.eqb_eq in K1. apply Nat.eqb_eq in K2. unfold key at 1. rewrite K1, K2.
          apply (lookup_in rs n m r2). exact E2. }
        rewrite Hnone in IH. destruct IH as [I1 [I2 I3]]. destruct Hs as [S1 [S2 S3]].
        rewrite I1, I2, S1, S2. repeat split; try reflexivity.
        * destruct (I3 H) as [J1 _]. destruct (S3 H) as [K1 _]. rewrite J1, K1. reflexivity.
        * destruct (I3 H) as [_ J2]. destruct (S3 H) as [_ K2]. rewrite J2, K2. reflexivity.
      + destruct IH as [I1 [I2 I3]]. destruct Hs as [S1 [S2 S3]].
        rewrite I1, I2. destruct (find (is_key n m) rs) as [r2|].
        * repeat split; try reflexivity; destruct (I3 H) as [J1 J2]; assumption.
        * rewrite S1, S2. repeat split; try reflexivity; destruct (I3 H) as [J1 J2]; destruct (S3 H) as [K1 K2].
          -- rewrite J1, K1; reflexivity.
          -- rewrite J2, K2; reflexivity.
  Qed.

  (* packing_roundtrip: g, h and their secular terms are recovered from the packed matrices *)
  Theorem packing_roundtrip_gen rows : wf rows -> forall n m, (m <= n)%nat ->
    let c := fst (load OP rows) in
    let cd := snd (load OP rows) in
    c m n = coef rg rows n m /\ cd m n = coef rgd rows n m /\
    ((1 <= m)%nat -> c n (m - 1)%nat = coef rh rows n m /\ cd n (m - 1)%nat = coef rhd rows n m).
  Proof.
    intros Hwf n m Hm. unfold load, coef.
    pose proof (load_cells rows (zero_mat OP) (zero_mat OP) Hwf n m Hm) as H. cbn zeta in H.
    unfold zero_mat in H. exact H.
  Qed.

  (* every row of a well-formed file is the one found under its key *)
  Lemma lookup_row rows r : wf rows -> In r rows -> lookup rows (rn r) (rm r) = Some r.
  Proof.
    induction rows as [|a rs IH]; intros [Hnd Hle] Hin; [destruct Hin|].
    inversion Hnd as [|k ks Hnotin Hnd']; subst. inversion Hle as [|r' rs' Hr Hle']; subst.
    unfold lookup. cbn [find]. destruct Hin as [->|Hin].
    - unfold is_key. rewrite !Nat.eqb_refl. reflexivity.
    - destruct (is_key (rn r) (rm r) a) eqn:Ek.
      + exfalso. apply Hnotin. unfold is_key in Ek. apply andb_prop in Ek. destruct Ek as [K1 K2].
        apply Nat.eqb_eq in K1. apply Nat.eqb_eq in K2. unfold key at 1. rewrite K1, K2.
        apply in_map_iff. exists r. split; [reflexivity|exact Hin].
      + apply (IH (conj Hnd' Hle') Hin).
  Qed.
End Packing.

(* ------------------------------------------------------------------------------------------ *)
(* multiple angles                                                                              *)
(* ------------------------------------------------------------------------------------------ *)
Theorem multiple_angle_gen lam m :
  cs OpsR (sin lam) (cos lam) m = (cos (INR m * lam), sin (INR m * lam)).
Proof.
  induction m as [|j IH].
  - cbn [cs]. cbn [o0 o1 OpsR]. rewrite Rmult_0_l, cos_0, sin_0. reflexivity.
  - cbn [cs]. rewrite IH. cbn [oadd osub omul OpsR]. rewrite S_INR.
    replace ((INR j + 1) * lam) with (lam + INR j * lam) by ring.
    rewrite cos_plus, sin_plus. f_equal; ring.
Qed.

(* ------------------------------------------------------------------------------------------ *)
(* shared tables are the functions                                                              *)
(* ------------------------------------------------------------------------------------------ *)
Lemma nth_map_seq {A} (f : nat -> A) a len k d : (k < len)%nat -> nth k (map f (seq a len)) d = f (a + k)%nat.
Proof.
  intros H. rewrite (nth_indep _ d (f 0%nat)) by (rewrite map_length, seq_length; exact H).
  rewrite map_nth, seq_nth by exact H. reflexivity.
Qed.

Section Tables.
  Context {T : Type} (OP : ROps T) (s c : T).
  Lemma leg_upto_heads N :
    nth 0 (leg_upto OP s c N) [] = fst (leg2 OP s c N) /\ nth 1 (leg_upto OP s c N) [] = snd (leg2 OP s c N).
  Proof.
    induction N as [|k [I0 I1]]; [split; reflexivity|].
    cbn [leg_upto]. cbn zeta. cbn [nth]. rewrite I0, I1. cbn [leg2].
    destruct (leg2 OP s c k) as [a b]. cbn [fst snd]. split; reflexivity.
  Qed.
  Lemma leg_upto_nth N : forall n, (n <= N)%nat -> nth (N - n) (leg_upto OP s c N) [] = legrow OP s c n.
  Proof.
    induction N as [|k IH]; intros n Hn.
    - assert (n = 0)%nat by lia. subst. reflexivity.
    - destruct (Nat.eq_dec n (S k)) as [->|Hne].
      + rewrite Nat.sub_diag. apply (proj1 (leg_upto_heads (S k))).
      + replace (S k - n)%nat with (S (k - n)) by lia. cbn [leg_upto]. cbn zeta. cbn [nth]. apply IH. lia.
  Qed.
  Lemma tabP_ok N n m : (n <= N)%nat -> tabP OP N (leg_upto OP s c N) n m = Pmn OP s c n m.
  Proof. intros H. unfold tabP, Pmn. rewrite leg_upto_nth by exact H. reflexivity. Qed.
  Lemma tabdP_ok N n m : (n <= N)%nat -> tabdP OP N (leg_upto OP s c N) n m = dPmn OP s c n m.
  Proof. intros H. unfold tabdP, dPmn. rewrite leg_upto_nth by exact H. reflexivity. Qed.
End Tables.

Lemma stab_ok {T} (OP : Ops T) N n m : (n <= N)%nat -> (m <= n)%nat ->
  nth m (nth n (map (fun n => map (Smn OP n) (seq 0 (S n))) (seq 0 (S N))) []) (o0 OP) = Smn OP n m.
Proof.
  intros Hn Hm. rewrite (nth_map_seq (fun n => map (Smn OP n) (seq 0 (S n))) 0 (S N) n []) by lia.
  rewrite Nat.add_0_l. rewrite nth_map_seq by lia. reflexivity.
Qed.

(* ------------------------------------------------------------------------------------------ *)
(* folds are sums                                                                               *)
(* ------------------------------------------------------------------------------------------ *)
Lemma fold_add l f : forall a, fold_left (fun acc i => acc + f i) l a = a + Rsum l f.
Proof. unfold Rsum. induction l as [|x l IH]; intros a; cbn [fold_left fold_right]; [ring|rewrite IH; ring]. Qed.
Lemma fold_sub l f : forall a, fold_left (fun acc i => acc - f i) l a = a - Rsum l f.
Proof. unfold Rsum. induction l as [|x l IH]; intros a; cbn [fold_left fold_right]; [ring|rewrite IH; ring]. Qed.
Lemma fsum_R l f : fsum OpsR l f = Rsum l f.
Proof. unfold fsum. cbn [oadd o0 OpsR]. rewrite fold_add. ring. Qed.
Lemma opow_R x k : opow OpsR x k = x ^ k.
Proof. induction k; cbn [opow pow]; cbn [omul o1 OpsR]; [reflexivity|rewrite IHk; reflexivity]. Qed.

(* ------------------------------------------------------------------------------------------ *)
(* synthesis                                                                                    *)
(* ------------------------------------------------------------------------------------------ *)
Section Synth.
  (* everything the double loop reads, abstractly: the packed matrices hold g, h, gd, hd; the tables hold the
     Schmidt factors and Legendre values characterised by C14_poly *)
  Variables g h gd hd : nat -> nat -> R.
  Variables c cd : mat R.
  Hypothesis Hpack : forall n m, (m <= n)%nat ->
    c m n = g n m /\ cd m n = gd n m /\ ((1 <= m)%nat -> c n (m - 1)%nat = h n m /\ cd n (m - 1)%nat = hd n m).
  Variables dt phi lam ar cpsi spsi : R.
  Variables Pt dPt St : nat -> nat -> R.
  Hypothesis HP : forall n m, (m <= n)%nat -> (n <= 12)%nat -> Smn OpsR n m * Pt n m = Pschmidt n m phi.
  Hypothesis HdP : forall n m, (m <= n)%nat -> (n <= 12)%nat -> Smn OpsR n m * dPt n m = - dPschmidt n m phi.
  Hypothesis HS : forall n m, (m <= n)%nat -> (n <= 12)%nat -> St n m = Smn OpsR n m.

  (* the spec's Gauss coefficients at time t0 + dt *)
  Definition g_t (n m : nat) : R := advance g gd dt n m.
  Definition h_t (n m : nat) : R := advance h hd dt n m.

  Lemma gchs_spec n m : (m <= n)%nat -> (n <= 12)%nat ->
    gchs OpsR c cd dt (sin lam) (cos lam) St n m =
    Smn OpsR n m * (g_t n m * cos (INR m * lam) + h_t n m * sin (INR m * lam)).
  Proof.
    intros Hm Hn. unfold gchs, gh_g, gh_h, cpm, spm. rewrite multiple_angle_gen. cbn [fst snd].
    rewrite (HS n m Hm Hn).
    destruct (Hpack n m Hm) as [E1 [E2 E3]]. unfold g_t, h_t, advance.
    cbn [oadd osub omul OpsR]. rewrite E1, E2.
    destruct (Nat.eqb_spec m 0) as [->|Hne].
    - cbn [INR]. rewrite Rmult_0_l, sin_0, cos_0. ring.
    - destruct (E3 ltac:(lia)) as [E4 E5]. rewrite E4, E5. ring.
  Qed.
  Lemma gshc_spec n m : (1 <= m)%nat -> (m <= n)%nat -> (n <= 12)%nat ->
    gshc OpsR c cd dt (sin lam) (cos lam) St n m =
    Smn OpsR n m * (g_t n m * sin (INR m * lam) - h_t n m * cos (INR m * lam)).
  Proof.
    intros H1 Hm Hn. unfold gshc, gh_g, gh_h, cpm, spm. rewrite multiple_angle_gen. cbn [fst snd].
    rewrite (HS n m Hm Hn).
    destruct (Hpack n m Hm) as [E1 [E2 E3]]. unfold g_t, h_t, advance.
    cbn [oadd osub omul OpsR]. rewrite E1, E2.
    destruct (Nat.eqb_spec m 0) as [->|Hne]; [lia|].
    destruct (E3 H1) as [E4 E5]. rewrite E4, E5. ring.
  Qed.

  Lemma x_p_spec n : (1 <= n <= 12)%nat ->
    x_p OpsR c cd dt (sin lam) (cos lam) dPt St n =
    - Rsum (seq 0 (S n)) (fun m => (g_t n m * cos (INR m * lam) + h_t n m * sin (INR m * lam)) * dPschmidt n m phi).
  Proof.
    intros Hn. unfold x_p. rewrite fsum_R, <- Rsum_opp. apply Rsum_ext. intros m Hm'. apply in_seq in Hm'.
    rewrite gchs_spec by lia. cbn [omul OpsR].
    pose proof (HdP n m ltac:(lia) ltac:(lia)) as E.
    replace (dPschmidt n m phi) with (- (Smn OpsR n m * dPt n m)) by (rewrite E; ring). ring.
  Qed.
  Lemma z_p_spec n : (1 <= n <= 12)%nat ->
    z_p OpsR c cd dt (sin lam) (cos lam) Pt St n =
    Rsum (seq 0 (S n)) (fun m => (g_t n m * cos (INR m * lam) + h_t n m * sin (INR m * lam)) * Pschmidt n m phi).
  Proof.
    intros Hn. unfold z_p. rewrite fsum_R. apply Rsum_ext. intros m Hm'. apply in_seq in Hm'.
    rewrite gchs_spec by lia. cbn [omul OpsR].
    rewrite <- (HP n m ltac:(lia) ltac:(lia)). ring.
  Qed.
  Lemma y_p_spec n : (1 <= n <= 12)%nat ->
    y_p OpsR c cd dt (sin lam) (cos lam) Pt St n =
    Rsum (seq 0 (S n)) (fun m => INR m * (g_t n m * sin (INR m * lam) - h_t n m * cos (INR m * lam)) * Pschmidt n m phi).
  Proof.
    intros Hn. unfold y_p. rewrite fsum_R. apply Rsum_ext. intros m Hm'. apply in_seq in Hm'.
    cbn [omul oZ OpsR]. rewrite <- INR_IZR_INZ.
    destruct (Nat.eq_dec m 0) as [->|Hm0]; [cbn [INR]; ring|].
    rewrite gshc_spec by lia.
    rewrite <- (HP n m ltac:(lia) ltac:(lia)). ring.
  Qed.

  Lemma Xp_spec : Xp OpsR c cd dt (sin lam) (cos lam) ar dPt St = sh_X 12 g_t h_t ar lam phi.
  Proof.
    unfold Xp, sh_X, NMAX. rewrite fsum_R, <- Rsum_opp. apply Rsum_ext. intros n Hn. apply in_seq in Hn.
    unfold arn2. rewrite opow_R, x_p_spec by lia. cbn [omul OpsR].
    match goal with |- ?q * - ?s = _ => generalize q s; intros; ring end.
  Qed.
  Lemma Zp_spec : Zp OpsR c cd dt (sin lam) (cos lam) ar Pt St = sh_Z 12 g_t h_t ar lam phi.
  Proof.
    unfold Zp, sh_Z, NMAX. cbn [osub omul o0 oZ OpsR]. rewrite fold_sub. rewrite Rminus_0_l. f_equal.
    apply Rsum_ext. intros n Hn. apply in_seq in Hn.
    unfold arn2. rewrite opow_R, z_p_spec by lia. rewrite <- INR_IZR_INZ. reflexivity.
  Qed.
  Lemma Yp_spec : cos phi <> 0 ->
    Yp OpsR c cd dt (sin lam) (cos lam) ar Pt St / cos phi = sh_Y 12 g_t h_t ar lam phi.
  Proof.
    intros Hc. unfold Yp, sh_Y, NMAX. rewrite fsum_R. unfold Rdiv. rewrite Rmult_comm. f_equal.
    apply Rsum_ext. intros n Hn. apply in_seq in Hn.
    unfold arn2. rewrite opow_R, y_p_spec by lia. reflexivity.
  Qed.

  Theorem core_with_spec : cos phi <> 0 ->
    core_with OpsR c cd dt (sin phi) (cos phi) (sin lam) (cos lam) ar cpsi spsi Pt dPt St =
    let X' := sh_X 12 g_t h_t ar lam phi in
    let Y' := sh_Y 12 g_t h_t ar lam phi in
    let Z' := sh_Z 12 g_t h_t ar lam phi in
    (X' * cpsi - Z' * spsi, Y', X' * spsi + Z' * cpsi).
  Proof.
    intros Hc. unfold core_with, Yf.
    cbn [ois0 OpsR]. destruct (Req_EM_T (cos phi) 0) as [E|_]; [contradiction|].
    cbn [oadd osub omul odiv OpsR]. rewrite Xp_spec, Zp_spec, (Yp_spec Hc). reflexivity.
  Qed.
End Synth.

(* synthesis_matches_spec + the rotation to geodetic axes, for the model's own tables and any well-formed file *)
Theorem synthesis_matches_spec_gen (rows : list (row R)) (dt phi lam ar cpsi spsi : R) :
  wf rows -> cos phi <> 0 ->
  core OpsR (fst (load OpsR rows)) (snd (load OpsR rows)) dt (sin phi) (cos phi) (sin lam) (cos lam) ar cpsi spsi =
  let g := g_t (coef OpsR rg rows) (coef OpsR rgd rows) dt in
  let h := h_t (coef OpsR rh rows) (coef OpsR rhd rows) dt in
  let X' := sh_X 12 g h ar lam phi in
  let Y' := sh_Y 12 g h ar lam phi in
  let Z' := sh_Z 12 g h ar lam phi in
  (X' * cpsi - Z' * spsi, Y', X' * spsi + Z' * cpsi).
Proof.
  intros Hwf Hc. unfold core. cbn zeta. fold RR.
  apply (core_with_spec (coef OpsR rg rows) (coef OpsR rh rows) (coef OpsR rgd rows) (coef OpsR rhd rows)).
  - intros n m Hm. exact (packing_roundtrip_gen OpsR rows Hwf n m Hm).
  - intros n m Hm Hn. rewrite tabP_ok by (unfold NMAX; lia). apply (proj1 (legendre_matches_spec_12 n m phi Hm Hn)).
  - intros n m Hm Hn. rewrite tabdP_ok by (unfold NMAX; lia). apply (proj2 (legendre_matches_spec_12 n m phi Hm Hn)).
  - intros n m Hm Hn. apply stab_ok; unfold NMAX; lia.
  - exact Hc.
Qed.

(* ------------------------------------------------------------------------------------------ *)
(* the whole pipeline on reals: date -> file, degrees -> radians, geodetic -> geocentric, synthesis, rotation  *)
(* ------------------------------------------------------------------------------------------ *)
Lemma shipped_wf d : wf (rows_R (epoch_R d)).
Proof.
  pose proof (rows_R_keys (epoch_R d) (epoch_R_le d)) as E. split.
  - change (@key R) with rkey. rewrite E. apply keys12_nodup.
  - apply rows_le. exact E.
Qed.

(* geodetic2spherical as regenerated (C14_data.g2s_generated), returning (phi', r) *)
Definition g2s_code (lat h : R) : R * R :=
  let Rc := a_code / sqrt (1 - e2_code * (sin lat) ^ 2) in
  let p := (Rc + h) * cos lat in
  let z := (Rc * one_minus_e2_code + h) * sin lat in
  let r := sqrt (p * p + z * z) in
  (asin (z / r), r).

(* hand model of WMM().magnetic_field(lat, lon, h, date=d) -> (X, Y, Z); t is the date on the 0.1-year grid
   (round(d, 1) in the code) *)
Definition wmm_model_R (d t lat lon h : R) : R * R * R :=
  let e := epoch_R d in
  let phi := lat * (PI / 180) in
  let lam := lon * (PI / 180) in
  let phi' := fst (g2s_code phi h) in
  let r := snd (g2s_code phi h) in
  core OpsR (fst (load OpsR (rows_R e))) (snd (load OpsR (rows_R e))) (t - t0_R e)
       (sin phi') (cos phi') (sin lam) (cos lam) ((31856 / 5) / r) (cos (phi' - phi)) (sin (phi' - phi)).

(* the property's right-hand side: degree-12 Schmidt synthesis of the file whose epoch contains d, coefficients
   advanced linearly to t, rotated to geodetic axes *)
Definition wmm_spec_R (d t lat lon h : R) : R * R * R :=
  let e := epoch_R d in
  let rows := rows_R e in
  let g := advance (coef OpsR rg rows) (coef OpsR rgd rows) (t - t0_R e) in
  let hh := advance (coef OpsR rh rows) (coef OpsR rhd rows) (t - t0_R e) in
  let phi := lat * (PI / 180) in
  let lam := lon * (PI / 180) in
  let phi' := fst (g2s_code phi h) in
  let r := snd (g2s_code phi h) in
  let q := (31856 / 5) / r in
  to_geodetic (sh_X 12 g hh q lam phi') (sh_Y 12 g hh q lam phi') (sh_Z 12 g hh q lam phi') (phi' - phi).

Theorem wmm_field_spec_gen d t lat lon h :
  cos (fst (g2s_code (lat * (PI / 180)) h)) <> 0 -> wmm_model_R d t lat lon h = wmm_spec_R d t lat lon h.
Proof.
  intros Hc. unfold wmm_model_R, wmm_spec_R. cbv zeta.
  rewrite (synthesis_matches_spec_gen _ _ _ _ _ _ _ (shipped_wf d) Hc). reflexivity.
Qed.

(* the front end of the model is the regenerated geodetic2spherical *)
Lemma g2s_code_generated (lat lon h : R) :
  C14_g2s_R lat lon h = Val [fst (g2s_code lat h); lon; snd (g2s_code lat h)].
Proof. rewrite g2s_generated. reflexivity. Qed.
