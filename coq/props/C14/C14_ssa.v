(* C14_ssa.v — proof tie between REGENERATED polynomial code and the hand model.
   tools/props/C14.py prints the DAG of a regenerated target a second time, as a straight-line program
   (gen/C14prog.v: one instruction per DAG node, operands are indices of earlier nodes) over two atoms
   (sin x, cos x).  Here: the program run on reals (`runR`) — shown by computation to be the regenerated
   Gallina definition itself — and run on polynomials A(s) + c B(s) (`runP2`); evaluation commutes with the run,
   so equality with the model's polynomials is decided by normal forms (vm_compute). *)
From Coq Require Import Reals List ZArith QArith Qreals Bool Lra Lia.
From AhrsLib Require Import Base SphHarm.
From AhrsModel Require Import C14_wmm.
From AhrsProps Require Import C14_poly.
Import ListNotations.
Close Scope Q_scope.
Open Scope R_scope.

(* the real number a constant is printed as by pysym: n, or n / d *)
Definition cR (q : Q) : R :=
  match Qden q with
  | xH => IZR (Qnum q)
  | d => IZR (Qnum q) / IZR (Zpos d)
  end.
Lemma cR_Q2R q : cR q = Q2R q.
Proof. unfold cR, Q2R. destruct (Qden q); try reflexivity. simpl. field. Qed.

Definition stepR (atoms vals : list R) (ins : instr) : R :=
  match ins with
  | IC q => cR q
  | IA k => nth k atoms 0
  | IAdd i j => nth i vals 0 + nth j vals 0
  | ISub i j => nth i vals 0 - nth j vals 0
  | IMul i j => nth i vals 0 * nth j vals 0
  | INeg i => - nth i vals 0
  | IPow i n => nth i vals 0 ^ n
  end.
Definition runR_from (atoms : list R) (prog : list instr) (vals : list R) : list R :=
  fold_left (fun vals ins => vals ++ [stepR atoms vals ins]) prog vals.
Definition runR (atoms : list R) (prog : list instr) : list R := runR_from atoms prog [].

Definition stepP (atoms vals : list p2) (ins : instr) : p2 :=
  match ins with
  | IC q => p2Q q
  | IA k => nth k atoms p2zero
  | IAdd i j => p2add (nth i vals p2zero) (nth j vals p2zero)
  | ISub i j => p2sub (nth i vals p2zero) (nth j vals p2zero)
  | IMul i j => p2mul (nth i vals p2zero) (nth j vals p2zero)
  | INeg i => p2sub p2zero (nth i vals p2zero)
  | IPow i n => p2pow (nth i vals p2zero) n
  end.
Definition runP_from (atoms : list p2) (prog : list instr) (vals : list p2) : list p2 :=
  fold_left (fun vals ins => vals ++ [stepP atoms vals ins]) prog vals.
Definition runP (prog : list instr) : list p2 := runP_from [Xs; Cc] prog [].

Lemma nth_eval2 x l i : nth i (map (eval2 x) l) 0 = eval2 x (nth i l p2zero).
Proof. rewrite <- (eval2_zero x). apply map_nth. Qed.

Lemma step_hom x atomsP valsP ins :
  stepR (map (eval2 x) atomsP) (map (eval2 x) valsP) ins = eval2 x (stepP atomsP valsP ins).
Proof.
  destruct ins; cbn [stepR stepP]; rewrite ?nth_eval2.
  - rewrite eval2_Q. apply cR_Q2R.
  - reflexivity.
  - rewrite eval2_add. reflexivity.
  - rewrite eval2_sub. reflexivity.
  - rewrite eval2_mul. reflexivity.
  - rewrite eval2_sub, eval2_zero. ring.
  - rewrite eval2_pow. reflexivity.
Qed.

Lemma run_hom_from x atomsP prog : forall valsP,
  runR_from (map (eval2 x) atomsP) prog (map (eval2 x) valsP) = map (eval2 x) (runP_from atomsP prog valsP).
Proof.
  induction prog as [|ins prog IH]; intros valsP; [reflexivity|].
  unfold runR_from, runP_from in *. cbn [fold_left].
  rewrite step_hom. rewrite <- (IH (valsP ++ [stepP atomsP valsP ins])). rewrite map_app. reflexivity.
Qed.

(* the run on reals at (sin x, cos x) is the evaluation of the run on polynomials *)
Lemma run_hom x prog : runR [sin x; cos x] prog = map (eval2 x) (runP prog).
Proof.
  unfold runR, runP. rewrite <- (run_hom_from x [Xs; Cc] prog []).
  cbn [map]. rewrite eval2_Xs, eval2_Cc. reflexivity.
Qed.

Definition pick {A} (d : A) (vals : list A) (outs : list nat) : list A := map (fun k => nth k vals d) outs.

Lemma pick_hom x prog outs :
  pick 0 (runR [sin x; cos x] prog) outs = map (eval2 x) (pick p2zero (runP prog) outs).
Proof.
  unfold pick. rewrite run_hom, map_map. apply map_ext. intros k. apply nth_eval2.
Qed.

(* list equality of polynomials, decided *)
Fixpoint p2eqb_list (a b : list p2) : bool :=
  match a, b with
  | [], [] => true
  | x :: a', y :: b' => p2eqb x y && p2eqb_list a' b'
  | _, _ => false
  end.
Lemma p2eqb_list_sound x a : forall b, p2eqb_list a b = true -> map (eval2 x) a = map (eval2 x) b.
Proof.
  induction a as [|p a IH]; intros [|q b] H; cbn in H; try discriminate; [reflexivity|].
  apply andb_prop in H. destruct H as [H1 H2]. cbn [map]. rewrite (eval2_eqb x p q H1), (IH b H2). reflexivity.
Qed.

(* ------------------------------------------------------------------------------------------ *)
(* the model's tables as polynomials                                                            *)
(* ------------------------------------------------------------------------------------------ *)
Definition idx12 : list (nat * nat) := flat_map (fun n => map (fun m => (n, m)) (seq 0 (S n))) (seq 0 13).

Definition legP_model : list p2 :=
  map (fun nm => Pmn OpsP2 Xs Cc (fst nm) (snd nm)) idx12 ++ map (fun nm => dPmn OpsP2 Xs Cc (fst nm) (snd nm)) idx12.
Definition legR_model (phi : R) : list R :=
  map (fun nm => Pmn RR (sin phi) (cos phi) (fst nm) (snd nm)) idx12 ++
  map (fun nm => dPmn RR (sin phi) (cos phi) (fst nm) (snd nm)) idx12.
Lemma legR_model_eval phi : legR_model phi = map (eval2 phi) legP_model.
Proof.
  unfold legR_model, legP_model. rewrite map_app, !map_map. f_equal; apply map_ext; intros nm.
  - apply Pmn_eval. - apply dPmn_eval.
Qed.

(* cos(m x), sin(m x) recursion of the model on polynomials: Ops with the ring part only *)
Definition OpsP2full : Ops p2 :=
  mkOps p2 p2zero p2one p2add p2sub p2mul (fun a _ => a) (fun z => p2Q (inject_Z z)) (fun a => a) (fun _ => false).
Lemma cs_hom x m :
  cs OpsR (sin x) (cos x) m = (eval2 x (fst (cs OpsP2full Xs Cc m)), eval2 x (snd (cs OpsP2full Xs Cc m))).
Proof.
  induction m as [|j IH]; cbn [cs].
  - cbn [o0 o1 OpsR OpsP2full fst snd]. rewrite eval2_one, eval2_zero. reflexivity.
  - rewrite IH. destruct (cs OpsP2full Xs Cc j) as [cp sp]. cbn [fst snd oadd osub omul OpsR OpsP2full].
    rewrite eval2_sub, eval2_add, !eval2_mul, eval2_Xs, eval2_Cc. reflexivity.
Qed.
Definition csP_model : list p2 :=
  map (fun m => fst (cs OpsP2full Xs Cc m)) (seq 0 13) ++ map (fun m => snd (cs OpsP2full Xs Cc m)) (seq 0 13).
Definition csR_model (x : R) : list R :=
  map (fun m => fst (cs OpsR (sin x) (cos x) m)) (seq 0 13) ++ map (fun m => snd (cs OpsR (sin x) (cos x) m)) (seq 0 13).
Lemma csR_model_eval x : csR_model x = map (eval2 x) csP_model.
Proof.
  unfold csR_model, csP_model. rewrite map_app, !map_map. f_equal; apply map_ext; intros m; rewrite cs_hom; reflexivity.
Qed.
