(* C14_tie.v — Tie by PROOF between regenerated code and the hand model, for the two polynomial tables:
   the Legendre recursion (P[m,n], dP[m,n], all n <= 12, m <= n) and the multiple-angle recursion (cp[m], sp[m]). *)
From Coq Require Import Reals List ZArith QArith Qreals Bool Lra Lia.
From AhrsLib Require Import Base SphHarm.
From AhrsModel Require Import C14_wmm.
From AhrsGen Require Import C14gen_R C14prog.
From AhrsProps Require Import C14_poly C14_ssa C14_synth.
Import ListNotations.
Close Scope Q_scope.
Open Scope R_scope.

(* 1. the straight-line programs ARE the regenerated definitions (same DAG printed twice; checked by computation) *)
Lemma legendre_prog_denotes phi :
  C14_legendre_R phi = Val (pick 0 (runR [sin phi; cos phi] C14_legendre_prog) C14_legendre_outs).
Proof. vm_cast_no_check (@eq_refl _ (C14_legendre_R phi)). Qed.

Lemma cpsp_prog_denotes lon :
  C14_cpsp_R lon = Val (pick 0 (runR [sin (C14_cpsp_arg lon); cos (C14_cpsp_arg lon)] C14_cpsp_prog) C14_cpsp_outs).
Proof. vm_cast_no_check (@eq_refl _ (C14_cpsp_R lon)). Qed.

(* 2. as polynomials they are the model's tables *)
Lemma legendre_prog_is_model : p2eqb_list (pick p2zero (runP C14_legendre_prog) C14_legendre_outs) legP_model = true.
Proof. vm_compute. reflexivity. Qed.
Lemma cpsp_prog_is_model : p2eqb_list (pick p2zero (runP C14_cpsp_prog) C14_cpsp_outs) csP_model = true.
Proof. vm_compute. reflexivity. Qed.

(* 3. hence *)
Theorem legendre_generated_is_model phi : C14_legendre_R phi = Val (legR_model phi).
Proof.
  rewrite legendre_prog_denotes, pick_hom, legR_model_eval.
  rewrite (p2eqb_list_sound phi _ _ legendre_prog_is_model). reflexivity.
Qed.

Theorem cpsp_generated_is_model lon : C14_cpsp_R lon = Val (csR_model (C14_cpsp_arg lon)).
Proof.
  rewrite cpsp_prog_denotes, pick_hom, csR_model_eval.
  rewrite (p2eqb_list_sound _ _ _ cpsp_prog_is_model). reflexivity.
Qed.

Lemma cpsp_arg_is_radians lon : C14_cpsp_arg lon = lon * (PI / 180).
Proof. unfold C14_cpsp_arg. field. Qed.

(* the regenerated cp/sp arrays are cos(m lambda), sin(m lambda) *)
Theorem cpsp_generated_spec lon :
  C14_cpsp_R lon = Val (map (fun m => cos (INR m * (lon * (PI / 180)))) (seq 0 13) ++
                        map (fun m => sin (INR m * (lon * (PI / 180)))) (seq 0 13)).
Proof.
  rewrite cpsp_generated_is_model, cpsp_arg_is_radians. unfold csR_model.
  f_equal. f_equal; apply map_ext; intros m; rewrite multiple_angle_gen; reflexivity.
Qed.

(* the regenerated Legendre tables, multiplied by the model's Schmidt factors, are the Schmidt semi-normalised functions *)
Theorem legendre_generated_spec phi :
  exists l, C14_legendre_R phi = Val l /\ length l = 182%nat /\
  forall k n m, nth_error idx12 k = Some (n, m) ->
    Smn OpsR n m * nth k l 0 = Pschmidt n m phi /\ Smn OpsR n m * nth (91 + k) l 0 = - dPschmidt n m phi.
Proof.
  exists (legR_model phi). split; [apply legendre_generated_is_model|]. split; [reflexivity|].
  intros k n m Hk.
  assert (Hin : In (n, m) idx12) by (eapply nth_error_In; exact Hk).
  assert (Hr : (m <= n /\ n <= 12)%nat).
  { unfold idx12 in Hin. apply in_flat_map in Hin. destruct Hin as [x [Hx Hi]]. apply in_seq in Hx.
    apply in_map_iff in Hi. destruct Hi as [y [E Hy]]. apply in_seq in Hy. inversion E; subst. lia. }
  assert (Hlen : (k < 91)%nat) by (apply nth_error_Some_lt in Hk || (assert (nth_error idx12 k <> None) by congruence; apply nth_error_Some in H; exact H)).
  unfold legR_model.
  rewrite app_nth1 by (rewrite map_length; exact Hlen).
  rewrite app_nth2 by (rewrite map_length; change (length idx12) with 91%nat; lia).
  rewrite map_length. change (length idx12) with 91%nat. replace (91 + k - 91)%nat with k by lia.
  rewrite (nth_indep _ 0 (Pmn RR (sin phi) (cos phi) (fst (0%nat, 0%nat)) (snd (0%nat, 0%nat)))) by (rewrite map_length; exact Hlen).
  rewrite (nth_indep (map (fun nm => dPmn _ _ _ _ _) _) 0 (dPmn RR (sin phi) (cos phi) (fst (0%nat, 0%nat)) (snd (0%nat, 0%nat)))) by (rewrite map_length; exact Hlen).
  rewrite (map_nth (fun nm => Pmn RR (sin phi) (cos phi) (fst nm) (snd nm))).
  rewrite (map_nth (fun nm => dPmn RR (sin phi) (cos phi) (fst nm) (snd nm))).
  rewrite (nth_error_nth _ _ (0%nat, 0%nat) Hk). cbn [fst snd].
  apply legendre_matches_spec_12; lia.
Qed.
