(* C14.v — WMM output equals the spherical-harmonic synthesis of the shipped coefficients: statements.
   Model: coq/model/C14_wmm.v (hand model of ahrs/utils/wmm.py, tied to the code by the float correspondence of
   tools/props/C14.py), data: gen/C14data.v (rewritten from the shipped WMM.COF files on every run),
   specification: coq/lib/SphHarm.v.  Proofs: C14_poly.v, C14_data.v, C14_synth.v. *)
From Coq Require Import Reals List ZArith QArith Qreals Lia.
From AhrsLib Require Import Base SphHarm.
From AhrsModel Require Import C14_wmm.
From AhrsGen Require Import C14data C14gen_R.
From AhrsGen Require Import C14prog.
From AhrsProps Require Import C14_poly C14_data C14_synth C14_ssa C14_tie C14_polar.
Import ListNotations.
Close Scope Q_scope.
Open Scope R_scope.

(* 1. load_coefficients: g, h and the secular terms of every (n, m <= n) are recovered from the packed matrices,
      for every well-formed coefficient file (no key twice, m <= n) and every number type *)
Theorem C14_packing_roundtrip : forall (T : Type) (OP : Ops T) (rows : list (row T)), wf rows ->
  forall n m, (m <= n)%nat ->
    fst (load OP rows) m n = coef OP rg rows n m /\ snd (load OP rows) m n = coef OP rgd rows n m /\
    ((1 <= m)%nat -> fst (load OP rows) n (m - 1)%nat = coef OP rh rows n m /\
                     snd (load OP rows) n (m - 1)%nat = coef OP rhd rows n m).
Proof. intros T OP rows H n m Hm. exact (packing_roundtrip_gen OP rows H n m Hm). Qed.
Print Assumptions C14_packing_roundtrip.

Theorem C14_packing_every_row : forall (T : Type) (OP : Ops T) (rows : list (row T)) (r : row T), wf rows -> In r rows ->
  coef OP rg rows (rn r) (rm r) = rg r /\ coef OP rh rows (rn r) (rm r) = rh r.
Proof. intros T OP rows r H Hin. unfold coef. rewrite (lookup_row rows r H Hin). split; reflexivity. Qed.
Print Assumptions C14_packing_every_row.

(* the three shipped files are complete degree-12 tables (hence well-formed) *)
Theorem C14_shipped_files_complete :
  map qkey wmm2015 = keys12 /\ map qkey wmm2020 = keys12 /\ map qkey wmm2025 = keys12 /\
  (forall n m, In (n, m) keys12 <-> (1 <= n <= 12 /\ m <= n)%nat).
Proof. exact (conj wmm2015_complete (conj wmm2020_complete (conj wmm2025_complete keys12_range))). Qed.
Print Assumptions C14_shipped_files_complete.

(* 2. the cp/sp recursion *)
Theorem C14_multiple_angle : forall lam m,
  cs OpsR (sin lam) (cos lam) m = (cos (INR m * lam), sin (INR m * lam)).
Proof. exact multiple_angle_gen. Qed.
Print Assumptions C14_multiple_angle.

(* 3. centrepiece: Schmidt factors times the recursively computed P, dP are the Schmidt semi-normalised associated
      Legendre functions of the explicit formula and (minus) their latitude derivative; degree bound 12 *)
Theorem C14_legendre_matches_spec : forall n m phi, (m <= n)%nat -> (n <= 12)%nat ->
  Smn OpsR n m * Pmn (rops_of OpsR) (sin phi) (cos phi) n m = Pschmidt n m phi /\
  Smn OpsR n m * dPmn (rops_of OpsR) (sin phi) (cos phi) n m = - dPschmidt n m phi.
Proof. exact legendre_matches_spec_12. Qed.
Print Assumptions C14_legendre_matches_spec.

(* dPschmidt really is the derivative of Pschmidt with respect to the latitude (all n, m) *)
Theorem C14_dPschmidt_is_derivative : forall n m phi, derivable_pt_lim (Pschmidt n m) phi (dPschmidt n m phi).
Proof. exact Pschmidt_is_derivative. Qed.
Print Assumptions C14_dPschmidt_is_derivative.

Example C14_legendre_nonvacuous : forall phi, Pschmidt 2 1 phi = sqrt (Q2R (1 # 3)) * (cos phi * (3 * sin phi)).
Proof. exact legendre_example_2_1. Qed.

(* 4. the double loop + rotation, for every well-formed coefficient table, time offset, radius ratio and angles *)
Theorem C14_synthesis_matches_spec : forall (rows : list (row R)) (dt phi lam ar cpsi spsi : R),
  wf rows -> cos phi <> 0 ->
  core OpsR (fst (load OpsR rows)) (snd (load OpsR rows)) dt (sin phi) (cos phi) (sin lam) (cos lam) ar cpsi spsi =
  let g := advance (coef OpsR rg rows) (coef OpsR rgd rows) dt in
  let h := advance (coef OpsR rh rows) (coef OpsR rhd rows) dt in
  let X' := sh_X 12 g h ar lam phi in
  let Y' := sh_Y 12 g h ar lam phi in
  let Z' := sh_Z 12 g h ar lam phi in
  (X' * cpsi - Z' * spsi, Y', X' * spsi + Z' * cpsi).
Proof. exact synthesis_matches_spec_gen. Qed.
Print Assumptions C14_synthesis_matches_spec.

(* 5. date -> coefficient file and epoch *)
Theorem C14_epoch_selection : forall d, 2015 <= d ->
  (d < 2020 -> epoch_R d = 0%nat /\ t0_R (epoch_R d) = 2015) /\
  (2020 <= d < 2025 -> epoch_R d = 1%nat /\ t0_R (epoch_R d) = 2020) /\
  (2025 <= d -> epoch_R d = 2%nat /\ t0_R (epoch_R d) = 2025) /\
  (t0_R (epoch_R d) <= d) /\ (d < 2025 -> d < t0_R (epoch_R d) + 5).
Proof. exact epoch_selection_R. Qed.
Print Assumptions C14_epoch_selection.

(* 6. geodetic2spherical as regenerated from the source, and its constants against WGS84 *)
Theorem C14_g2s_generated : forall lat lon h : R,
  C14_g2s_R lat lon h = Val [fst (g2s_code lat h); lon; snd (g2s_code lat h)].
Proof. exact g2s_code_generated. Qed.
Print Assumptions C14_g2s_generated.

Theorem C14_g2s_constants :
  let a := 6378137 / 1000 in let b := 63567523142 / 10000000 in
  a_code = a /\ Rabs (e2_code - (1 - (b * b) / (a * a))) <= 1 / 10 ^ 15 /\ Rabs (one_minus_e2_code - (1 - e2_code)) <= 1 / 10 ^ 15.
Proof. exact g2s_constants. Qed.
Print Assumptions C14_g2s_constants.

(* 7. the property, on the model of the whole pipeline with the shipped numbers.  `_partial`: the guard cos(phi') <> 0
      excludes exactly the two poles in real arithmetic (the code's polar branch; unreachable in binary64, where
      numpy.cos never returns 0) — everything else is as the property states, for all real d >= 2015 selecting the file,
      all grid dates t, latitudes, longitudes and heights *)
Theorem C14_field_matches_spec_partial : forall d t lat lon h,
  cos (fst (g2s_code (lat * (PI / 180)) h)) <> 0 ->
  wmm_model_R d t lat lon h = wmm_spec_R d t lat lon h.
Proof. exact wmm_field_spec_gen. Qed.
Print Assumptions C14_field_matches_spec_partial.

(* non-vacuity of the guard: at the equator the geocentric latitude is 0 *)
Example C14_guard_inhabited : cos (fst (g2s_code (0 * (PI / 180)) 0)) <> 0.
Proof.
  unfold g2s_code. cbv zeta. cbn [fst]. rewrite Rmult_0_l, sin_0. rewrite !Rmult_0_r.
  unfold Rdiv at 1. rewrite Rmult_0_l, asin_0, cos_0. apply R1_neq_R0.
Qed.

(* 8. Tie by proof (not only by correspondence) between REGENERATED code and the hand model, for the two polynomial
      tables: the DAG pysym traced is printed a second time as a straight-line program (gen/C14prog.v); the program is
      convertible to the regenerated definition (checked by the VM), and its run on polynomials has the model's normal forms *)
Theorem C14_legendre_generated_is_model : forall phi,
  C14_legendre_R phi =
  Val (map (fun nm => Pmn (rops_of OpsR) (sin phi) (cos phi) (fst nm) (snd nm)) idx12 ++
       map (fun nm => dPmn (rops_of OpsR) (sin phi) (cos phi) (fst nm) (snd nm)) idx12).
Proof. exact legendre_generated_is_model. Qed.
Print Assumptions C14_legendre_generated_is_model.

(* the centrepiece, transported to the regenerated code: entry k of the traced P table (k-th pair (n, m) in row-major
   order) times the Schmidt factor is the Schmidt semi-normalised function, entry 91 + k (the dP table) minus its derivative *)
Theorem C14_legendre_generated_spec : forall phi,
  exists l, C14_legendre_R phi = Val l /\ length l = 182%nat /\
  forall k n m, nth_error idx12 k = Some (n, m) ->
    Smn OpsR n m * nth k l 0 = Pschmidt n m phi /\ Smn OpsR n m * nth (91 + k) l 0 = - dPschmidt n m phi.
Proof. exact legendre_generated_spec. Qed.
Print Assumptions C14_legendre_generated_spec.

Theorem C14_cpsp_generated_spec : forall lon,
  C14_cpsp_R lon = Val (map (fun m => cos (INR m * (lon * (PI / 180)))) (seq 0 13) ++
                        map (fun m => sin (INR m * (lon * (PI / 180)))) (seq 0 13)).
Proof. exact cpsp_generated_spec. Qed.
Print Assumptions C14_cpsp_generated_spec.

(* 9. the polar clause: Y' has a removable singularity; with P~/cos written as a polynomial (PoC, sh_Y_ext) *)
Theorem C14_sh_Y_removable : forall N g h q lam phi, cos phi <> 0 -> sh_Y N g h q lam phi = sh_Y_ext N g h q lam phi.
Proof. exact sh_Y_ext_eq. Qed.
Print Assumptions C14_sh_Y_removable.

Theorem C14_spec_continuous_at_poles : forall N g h q lam,
  continuity (fun phi => sh_X N g h q lam phi) /\ continuity (fun phi => sh_Y_ext N g h q lam phi) /\
  continuity (fun phi => sh_Z N g h q lam phi).
Proof. exact sh_continuous. Qed.
Print Assumptions C14_spec_continuous_at_poles.

(* the regular branch of the code (the only branch binary64 runs) equals the continuous extension wherever cos phi' <> 0 ... *)
Theorem C14_regular_branch_is_extension : forall (rows : list (row R)) (dt phi lam ar cpsi spsi : R),
  wf rows -> cos phi <> 0 ->
  core OpsR (fst (load OpsR rows)) (snd (load OpsR rows)) dt (sin phi) (cos phi) (sin lam) (cos lam) ar cpsi spsi =
  let g := advance (coef OpsR rg rows) (coef OpsR rgd rows) dt in
  let h := advance (coef OpsR rh rows) (coef OpsR rhd rows) dt in
  (sh_X 12 g h ar lam phi * cpsi - sh_Z 12 g h ar lam phi * spsi, sh_Y_ext 12 g h ar lam phi,
   sh_X 12 g h ar lam phi * spsi + sh_Z 12 g h ar lam phi * cpsi).
Proof. exact core_regular_is_ext. Qed.
Print Assumptions C14_regular_branch_is_extension.

(* ... so at the poles (any phi0) the regular branch converges to the extension's value *)
Theorem C14_regular_branch_limit : forall (rows : list (row R)) (dt lam ar cpsi spsi phi0 : R), wf rows ->
  forall eps, 0 < eps -> exists delta, 0 < delta /\
    forall phi, cos phi <> 0 -> Rabs (phi - phi0) < delta ->
      let Y := snd (fst (core OpsR (fst (load OpsR rows)) (snd (load OpsR rows)) dt (sin phi) (cos phi) (sin lam) (cos lam)
                              ar cpsi spsi)) in
      Rabs (Y - sh_Y_ext 12 (advance (coef OpsR rg rows) (coef OpsR rgd rows) dt)
                             (advance (coef OpsR rh rows) (coef OpsR rhd rows) dt) ar lam phi0) < eps.
Proof. exact regular_branch_limit. Qed.
Print Assumptions C14_regular_branch_limit.
