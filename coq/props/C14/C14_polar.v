(* C14_polar.v — the polar clause.  The synthesis theorem needs cos(phi') <> 0 only because Y' is written with a
   division by cos(phi').  The division is removable: P~_n^m / cos(phi) = norm * cos^(m-1)(phi) * d^m P_n(sin phi) for m >= 1
   (and the m = 0 terms carry the factor m = 0).  With it X', Y', Z' are continuous functions of the latitude on the
   whole line, they coincide with the code's regular branch wherever cos(phi') <> 0, and therefore the regular branch
   has a limit at both poles: the value of the continuous extension.  (In binary64 only the regular branch runs.) *)
From Coq Require Import Reals List ZArith QArith Qreals Bool Lra Lia.
From AhrsLib Require Import Base SphHarm.
From AhrsModel Require Import C14_wmm.
From AhrsProps Require Import C14_poly C14_synth.
Import ListNotations.
Close Scope Q_scope.
Open Scope R_scope.

(* P~_n^m(phi) / cos(phi), written without the division (m >= 1) *)
Definition PoC (n m : nat) (phi : R) : R := schmidt_norm n m * (cos phi ^ (m - 1) * peval (Dleg n m) (sin phi)).

Definition sh_Y_ext (N : nat) (g h : nat -> nat -> R) (q lam phi : R) : R :=
  Rsum (seq 1 N) (fun n => q ^ (n + 2) *
    Rsum (seq 0 (S n)) (fun m => INR m * (g n m * sin (INR m * lam) - h n m * cos (INR m * lam)) * PoC n m phi)).

Lemma PoC_eq n m phi : (1 <= m)%nat -> cos phi <> 0 -> / cos phi * Pschmidt n m phi = PoC n m phi.
Proof.
  intros Hm Hc. unfold Pschmidt, Pnm, PoC. replace m with (S (m - 1)) at 2 by lia. cbn [pow]. field. exact Hc.
Qed.

Theorem sh_Y_ext_eq N g h q lam phi : cos phi <> 0 -> sh_Y N g h q lam phi = sh_Y_ext N g h q lam phi.
Proof.
  intros Hc. unfold sh_Y, sh_Y_ext. rewrite <- Rsum_scal. apply Rsum_ext. intros n _.
  rewrite <- Rmult_assoc, (Rmult_comm (/ cos phi)), Rmult_assoc. f_equal.
  rewrite <- Rsum_scal. apply Rsum_ext. intros m _.
  destruct (Nat.eq_dec m 0) as [->|Hm]; [cbn [INR]; ring|].
  rewrite <- (PoC_eq n m phi) by (try lia; exact Hc). ring.
Qed.

(* ------------------------------------------------------------------------------------------ *)
(* continuity toolkit (pointwise forms of the stdlib lemmas)                                     *)
(* ------------------------------------------------------------------------------------------ *)
Lemma cont_const c : continuity (fun _ : R => c).
Proof. exact (continuity_const (fun _ => c) (fun _ _ => eq_refl)). Qed.
Lemma cont_plus f g : continuity f -> continuity g -> continuity (fun x => f x + g x).
Proof. intros Hf Hg. exact (continuity_plus f g Hf Hg). Qed.
Lemma cont_mult f g : continuity f -> continuity g -> continuity (fun x => f x * g x).
Proof. intros Hf Hg. exact (continuity_mult f g Hf Hg). Qed.
Lemma cont_opp f : continuity f -> continuity (fun x => - f x).
Proof. intros Hf. exact (continuity_opp f Hf). Qed.
Lemma cont_comp f g : continuity f -> continuity g -> continuity (fun x => g (f x)).
Proof. intros Hf Hg. exact (continuity_comp f g Hf Hg). Qed.
Lemma cont_pow f k : continuity f -> continuity (fun x => f x ^ k).
Proof.
  intros Hf. induction k as [|k IH]; cbn [pow]; [apply cont_const|apply cont_mult; assumption].
Qed.
Lemma cont_peval p : continuity (peval p).
Proof. intros x. apply derivable_continuous_pt. exists (peval (pderiv p) x). apply peval_pderiv. Qed.
Lemma cont_Rsum l (f : nat -> R -> R) : (forall i, continuity (f i)) -> continuity (fun x => Rsum l (fun i => f i x)).
Proof.
  intros H. induction l as [|a l IH]; unfold Rsum; cbn [fold_right]; [apply cont_const|].
  apply cont_plus; [apply H|exact IH].
Qed.

Lemma cont_Pschmidt n m : continuity (Pschmidt n m).
Proof. intros x. apply derivable_continuous_pt. exists (dPschmidt n m x). apply Pschmidt_is_derivative. Qed.
Lemma cont_dPschmidt n m : continuity (dPschmidt n m).
Proof.
  unfold dPschmidt, dPnm. apply cont_mult; [apply cont_const|]. apply cont_plus.
  - apply cont_mult; [|apply (cont_comp sin (peval _)); [apply continuity_sin|apply cont_peval]].
    apply cont_mult; [|apply continuity_sin].
    apply cont_mult; [apply cont_const|apply cont_pow, continuity_cos].
  - apply cont_mult; [apply cont_pow, continuity_cos|].
    apply (cont_comp sin (peval _)); [apply continuity_sin|apply cont_peval].
Qed.
Lemma cont_PoC n m : continuity (PoC n m).
Proof.
  unfold PoC. apply cont_mult; [apply cont_const|]. apply cont_mult; [apply cont_pow, continuity_cos|].
  apply (cont_comp sin (peval _)); [apply continuity_sin|apply cont_peval].
Qed.

(* X', Y' (extended), Z' are continuous in the geocentric latitude, poles included *)
Theorem sh_continuous N g h q lam :
  continuity (fun phi => sh_X N g h q lam phi) /\ continuity (fun phi => sh_Y_ext N g h q lam phi) /\
  continuity (fun phi => sh_Z N g h q lam phi).
Proof.
  unfold sh_X, sh_Y_ext, sh_Z. repeat split.
  - apply cont_opp. apply (cont_Rsum _ (fun n phi => _)). intros n. apply cont_mult; [apply cont_const|].
    apply (cont_Rsum _ (fun m phi => _)). intros m. apply cont_mult; [apply cont_const|apply cont_dPschmidt].
  - apply (cont_Rsum _ (fun n phi => _)). intros n. apply cont_mult; [apply cont_const|].
    apply (cont_Rsum _ (fun m phi => _)). intros m. apply cont_mult; [apply cont_const|apply cont_PoC].
  - apply cont_opp. apply (cont_Rsum _ (fun n phi => _)). intros n. apply cont_mult; [apply cont_const|].
    apply (cont_Rsum _ (fun m phi => _)). intros m. apply cont_mult; [apply cont_const|apply cont_Pschmidt].
Qed.

(* the code's regular branch (the only one binary64 ever runs) equals the extension wherever it is defined ... *)
Theorem core_regular_is_ext (rows : list (row R)) (dt phi lam ar cpsi spsi : R) :
  wf rows -> cos phi <> 0 ->
  core OpsR (fst (load OpsR rows)) (snd (load OpsR rows)) dt (sin phi) (cos phi) (sin lam) (cos lam) ar cpsi spsi =
  let g := advance (coef OpsR rg rows) (coef OpsR rgd rows) dt in
  let h := advance (coef OpsR rh rows) (coef OpsR rhd rows) dt in
  (sh_X 12 g h ar lam phi * cpsi - sh_Z 12 g h ar lam phi * spsi, sh_Y_ext 12 g h ar lam phi,
   sh_X 12 g h ar lam phi * spsi + sh_Z 12 g h ar lam phi * cpsi).
Proof.
  intros Hwf Hc. rewrite (synthesis_matches_spec_gen rows dt phi lam ar cpsi spsi Hwf Hc). cbv zeta.
  unfold g_t, h_t. rewrite (sh_Y_ext_eq 12 _ _ ar lam phi Hc). reflexivity.
Qed.

(* ... hence its east component has a limit at every latitude phi0, in particular at the poles (cos phi0 = 0):
   the value of the continuous extension.  (X' and Z' need no extension.) *)
Theorem regular_branch_limit (rows : list (row R)) (dt lam ar cpsi spsi phi0 : R) :
  wf rows ->
  forall eps, 0 < eps -> exists delta, 0 < delta /\
    forall phi, cos phi <> 0 -> Rabs (phi - phi0) < delta ->
      let Y := snd (fst (core OpsR (fst (load OpsR rows)) (snd (load OpsR rows)) dt (sin phi) (cos phi) (sin lam) (cos lam)
                              ar cpsi spsi)) in
      Rabs (Y - sh_Y_ext 12 (advance (coef OpsR rg rows) (coef OpsR rgd rows) dt)
                             (advance (coef OpsR rh rows) (coef OpsR rhd rows) dt) ar lam phi0) < eps.
Proof.
  intros Hwf eps Heps.
  set (g := advance (coef OpsR rg rows) (coef OpsR rgd rows) dt).
  set (h := advance (coef OpsR rh rows) (coef OpsR rhd rows) dt).
  destruct (sh_continuous 12 g h ar lam) as [_ [HY _]].
  destruct (HY phi0 eps Heps) as [delta [Hd Hlim]].
  exists delta. split; [exact Hd|]. intros phi Hc Hclose. cbv zeta.
  rewrite (core_regular_is_ext rows dt phi lam ar cpsi spsi Hwf Hc). cbv zeta. cbn [fst snd]. fold g h.
  destruct (Req_dec phi phi0) as [->|Hne].
  - rewrite Rminus_diag_eq by reflexivity. rewrite Rabs_R0. exact Heps.
  - apply (Hlim phi). split; [split; [exact I|intro E; apply Hne; symmetry; exact E]|exact Hclose].
Qed.

(* what the extension is at the north pole for degree 1: Y' = (a/r)^3 (g11 sin lam - h11 cos lam): non-vacuity *)
Example PoC_1_1 phi : PoC 1 1 phi = 1.
Proof.
  unfold PoC, schmidt_norm.
  assert (E : Q2R (schmidt_sq 1 1) = 1) by (unfold schmidt_sq; cbn; unfold Q2R; cbn; lra).
  rewrite E, sqrt_1. replace (Dleg 1 1) with [1%Q] by (vm_compute; reflexivity). cbn. rewrite Q2R_1. ring.
Qed.
