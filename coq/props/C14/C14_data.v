(* C14_data.v — facts about the numbers shipped NOW (gen/C14data.v is rewritten from the three WMM.COF files on
   every run), the date -> file selection, and the regenerated geodetic2spherical. *)
From Coq Require Import Reals List ZArith QArith Qreals Bool Lra Lia.
From AhrsLib Require Import Base SphHarm.
From AhrsModel Require Import C14_wmm.
From AhrsGen Require Import C14data C14gen_R.
Import ListNotations.
Close Scope Q_scope.
Open Scope R_scope.

(* ------------------------------------------------------------------------------------------ *)
(* the shipped files are complete degree-12 tables                                              *)
(* ------------------------------------------------------------------------------------------ *)
Definition keys12 : list (nat * nat) := flat_map (fun n => map (fun m => (n, m)) (seq 0 (S n))) (seq 1 12).
Definition qkey (r : row Q) : nat * nat := (rn r, rm r).

Definition pair_dec : forall a b : nat * nat, {a = b} + {a <> b}.
Proof. decide equality; apply Nat.eq_dec. Defined.

Lemma keys12_nodup : NoDup keys12.
Proof.
  assert (E : nodup pair_dec keys12 = keys12) by (vm_compute; reflexivity).
  rewrite <- E. apply NoDup_nodup.
Qed.
Lemma keys12_range n m : In (n, m) keys12 <-> (1 <= n <= 12 /\ m <= n)%nat.
Proof.
  unfold keys12. rewrite in_flat_map. split.
  - intros [x [Hx Hin]]. apply in_seq in Hx. apply in_map_iff in Hin. destruct Hin as [y [E Hy]]. apply in_seq in Hy.
    inversion E; subst. lia.
  - intros [Hn Hm]. exists n. split; [apply in_seq; lia|]. apply in_map_iff. exists m. split; [reflexivity|apply in_seq; lia].
Qed.

Example wmm2015_complete : map qkey wmm2015 = keys12. Proof. vm_compute. reflexivity. Qed.
Example wmm2020_complete : map qkey wmm2020 = keys12. Proof. vm_compute. reflexivity. Qed.
Example wmm2025_complete : map qkey wmm2025 = keys12. Proof. vm_compute. reflexivity. Qed.

Example wmm_epochs : (wmm2015_t0 == 2015 # 1)%Q /\ (wmm2020_t0 == 2020 # 1)%Q /\ (wmm2025_t0 == 2025 # 1)%Q.
Proof. repeat split; vm_compute; reflexivity. Qed.

(* the real-number reading of a file *)
Definition rowR (r : row Q) : row R := mkRow (rn r) (rm r) (Q2R (rg r)) (Q2R (rh r)) (Q2R (rgd r)) (Q2R (rhd r)).
Definition rkey (r : row R) : nat * nat := (rn r, rm r).

Lemma rowR_keys rows : map rkey (map rowR rows) = map qkey rows.
Proof. rewrite map_map. apply map_ext. intros r; reflexivity. Qed.

Lemma rows_le (rows : list (row R)) : map rkey rows = keys12 -> Forall (fun r => (rm r <= rn r)%nat) rows.
Proof.
  intros E. apply Forall_forall. intros r Hr.
  assert (Hin : In (rn r, rm r) keys12) by (rewrite <- E; apply in_map_iff; exists r; split; [reflexivity|exact Hr]).
  apply keys12_range in Hin. lia.
Qed.

(* date -> file: hand model of reset_date (wmm.py:537-543) at R *)
Definition Rltb (a b : R) : bool := if Rlt_dec a b then true else false.
Definition epoch_R (date : R) : nat := epoch_of_date Rltb 2020 2025 date.
Definition files_Q : list (Q * list (row Q)) := [(wmm2015_t0, wmm2015); (wmm2020_t0, wmm2020); (wmm2025_t0, wmm2025)].
Definition t0_R (e : nat) : R := Q2R (fst (nth e files_Q (0%Q, []))).
Definition rows_R (e : nat) : list (row R) := map rowR (snd (nth e files_Q (0%Q, []))).

Lemma t0_values : t0_R 0 = 2015 /\ t0_R 1 = 2020 /\ t0_R 2 = 2025.
Proof.
  destruct wmm_epochs as [E0 [E1 E2]]. unfold t0_R, files_Q; cbn [nth fst].
  rewrite (Qeq_eqR _ _ E0), (Qeq_eqR _ _ E1), (Qeq_eqR _ _ E2). unfold Q2R; simpl. lra.
Qed.

(* epoch_selection: WMM2015 before 2020.0, WMM2020 before 2025.0, WMM2025 afterwards, each with its own t0, and
   (for the first two) the date lies in the five-year window starting at t0 *)
Theorem epoch_selection_R : forall d, 2015 <= d ->
  (d < 2020 -> epoch_R d = 0%nat /\ t0_R (epoch_R d) = 2015) /\
  (2020 <= d < 2025 -> epoch_R d = 1%nat /\ t0_R (epoch_R d) = 2020) /\
  (2025 <= d -> epoch_R d = 2%nat /\ t0_R (epoch_R d) = 2025) /\
  (t0_R (epoch_R d) <= d) /\ (d < 2025 -> d < t0_R (epoch_R d) + 5).
Proof.
  intros d Hd. destruct t0_values as [T0 [T1 T2]].
  unfold epoch_R, epoch_of_date, Rltb.
  destruct (Rlt_dec d 2020); [|destruct (Rlt_dec d 2025)]; rewrite ?T0, ?T1, ?T2; repeat split; intros; try lra; try reflexivity.
Qed.

Lemma rows_R_keys e : (e <= 2)%nat -> map rkey (rows_R e) = keys12.
Proof.
  intros He. unfold rows_R. rewrite rowR_keys.
  destruct e as [|[|[|e]]]; [apply wmm2015_complete|apply wmm2020_complete|apply wmm2025_complete|lia].
Qed.
Lemma epoch_R_le d : (epoch_R d <= 2)%nat.
Proof. unfold epoch_R, epoch_of_date. destruct (Rltb d 2020); [lia|]. destruct (Rltb d 2025); lia. Qed.

(* ------------------------------------------------------------------------------------------ *)
(* geodetic2spherical, regenerated from the source                                              *)
(* ------------------------------------------------------------------------------------------ *)
(* the constants the code computes in binary64 at import time, read as decimals *)
Definition a_code : R := 6378137 / 1000.
Definition e2_code : R := 6694380004260717 / 1000000000000000000.
Definition one_minus_e2_code : R := 9933056199957393 / 10000000000000000.

(* equality up to commutativity/associativity inside the arguments of asin, sqrt and quotients: survives
   algebraically equivalent rewrites of the source *)
Ltac eqr :=
  first [ reflexivity | ring | solve [unfold Rdiv; ring]
        | match goal with
          | |- asin _ = asin _ => apply f_equal; eqr
          | |- sqrt _ = sqrt _ => apply f_equal; eqr
          | |- Rdiv _ _ = Rdiv _ _ => apply f_equal2; eqr
          | |- Rmult _ _ = Rmult _ _ => apply f_equal2; eqr
          | |- Rplus _ _ = Rplus _ _ => apply f_equal2; eqr
          | |- Rminus _ _ = Rminus _ _ => apply f_equal2; eqr
          | |- Rinv _ = Rinv _ => apply f_equal; eqr
          end ].

Theorem g2s_generated : forall lat lon h : R,
  C14_g2s_R lat lon h =
  let Rc := a_code / sqrt (1 - e2_code * (sin lat) ^ 2) in
  let p := (Rc + h) * cos lat in
  let z := (Rc * one_minus_e2_code + h) * sin lat in
  let r := sqrt (p * p + z * z) in
  Val [asin (z / r); lon; r].
Proof. intros. unfold C14_g2s_R, a_code, e2_code, one_minus_e2_code. cbv zeta. val_eq; eqr. Qed.

(* they are the WGS84 values (a = 6378.137 km, b = 6356.7523142 km) to 1e-15 *)
Lemma g2s_constants :
  let a := 6378137 / 1000 in let b := 63567523142 / 10000000 in
  a_code = a /\ Rabs (e2_code - (1 - (b * b) / (a * a))) <= 1 / 10 ^ 15 /\ Rabs (one_minus_e2_code - (1 - e2_code)) <= 1 / 10 ^ 15.
Proof.
  cbv zeta. unfold a_code, e2_code, one_minus_e2_code. repeat split.
  - apply Rabs_le. split; lra.
  - apply Rabs_le. split; lra.
Qed.

(* with the exact constants the regenerated function IS the textbook conversion of SphHarm.v *)
Lemma g2s_is_geocentric lat h :
  (let Rc := a_code / sqrt (1 - e2_code * (sin lat) ^ 2) in
   let p := (Rc + h) * cos lat in
   let z := (Rc * (1 - e2_code) + h) * sin lat in
   let r := sqrt (p * p + z * z) in
   (asin (z / r), r)) = geocentric_of_geodetic a_code e2_code lat h.
Proof. unfold geocentric_of_geodetic. cbv zeta. simpl pow. rewrite Rmult_1_r. reflexivity. Qed.
