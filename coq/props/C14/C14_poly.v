(* C14_poly.v — the centrepiece: the Legendre recursion of wmm.py computes the Schmidt semi-normalised
   associated Legendre functions of SphHarm.v, for every degree n <= 12, order m <= n and every latitude.

   Method: the recursion of the hand model (coq/model/C14_wmm.v, generic in the number type) is run on
   polynomials  A(s) + c B(s)  with rational coefficients, i.e. in Q[s,c]/(c^2 = 1 - s^2); evaluation at
   (s, c) = (sin phi, cos phi) is a ring homomorphism, so the run on reals is the evaluation of the run on
   polynomials (lemma Pmn_hom, proved once for every homomorphism).  The 91 x 2 polynomial identities and
   the 91 identities between squared Schmidt factors are then decided by computing normal forms
   (vm_compute), and lifted by the soundness lemma check_sound. *)
From Coq Require Import Reals List ZArith QArith Qreals Bool Lra Lia.
From AhrsLib Require Import SphHarm.
From AhrsModel Require Import C14_wmm.
Import ListNotations.
Close Scope Q_scope.
Open Scope R_scope.

(* ------------------------------------------------------------------------------------------ *)
(* arithmetic of qpoly                                                                          *)
(* ------------------------------------------------------------------------------------------ *)
Definition qadd (a b : Q) : Q := Qred (a + b)%Q.
Definition qmul (a b : Q) : Q := Qred (a * b)%Q.

Fixpoint padd (p q : qpoly) : qpoly :=
  match p, q with
  | [], _ => q
  | _, [] => p
  | a :: p', b :: q' => qadd a b :: padd p' q'
  end.
Definition pscale (k : Q) (p : qpoly) : qpoly := map (qmul k) p.
Definition popp (p : qpoly) : qpoly := map Qopp p.
Definition psub (p q : qpoly) : qpoly := padd p (popp q).
Fixpoint pmul (p q : qpoly) : qpoly :=
  match p with
  | [] => []
  | a :: p' => padd (pscale a q) (0%Q :: pmul p' q)
  end.
Definition pzero (p : qpoly) : bool := forallb (fun a => Qeq_bool a 0%Q) p.
Definition peqb (p q : qpoly) : bool := pzero (psub p q).

Lemma Q2R_0 : Q2R 0%Q = 0.
Proof. unfold Q2R; simpl; lra. Qed.
Lemma Q2R_1 : Q2R 1%Q = 1.
Proof. unfold Q2R; simpl; lra. Qed.

Lemma peval_padd p q x : peval (padd p q) x = peval p x + peval q x.
Proof.
  revert q; induction p as [|a p IH]; intros [|b q]; cbn [padd peval]; try ring.
  unfold qadd. rewrite Q2R_Qred, Q2R_plus, IH. ring.
Qed.
Lemma peval_pscale k p x : peval (pscale k p) x = Q2R k * peval p x.
Proof.
  induction p as [|a p IH]; cbn [pscale map peval]; [ring|].
  fold (pscale k p). unfold qmul. rewrite Q2R_Qred, Q2R_mult, IH. ring.
Qed.
Lemma peval_popp p x : peval (popp p) x = - peval p x.
Proof.
  induction p as [|a p IH]; cbn [popp map peval]; [ring|].
  fold (popp p). rewrite Q2R_opp, IH. ring.
Qed.
Lemma peval_psub p q x : peval (psub p q) x = peval p x - peval q x.
Proof. unfold psub. rewrite peval_padd, peval_popp. ring. Qed.
Lemma peval_pmul p q x : peval (pmul p q) x = peval p x * peval q x.
Proof.
  induction p as [|a p IH]; cbn [pmul peval]; [ring|].
  rewrite peval_padd, peval_pscale. cbn [peval]. rewrite Q2R_0, IH. ring.
Qed.
Lemma pzero_sound p x : pzero p = true -> peval p x = 0.
Proof.
  induction p as [|a p IH]; cbn [pzero forallb peval]; [reflexivity|].
  intros H. apply andb_prop in H. destruct H as [Ha Hp].
  apply Qeq_bool_eq in Ha. apply Qeq_eqR in Ha. rewrite Ha, Q2R_0. fold (pzero p) in Hp. rewrite (IH Hp). ring.
Qed.
Lemma peqb_sound p q x : peqb p q = true -> peval p x = peval q x.
Proof. intros H. apply (pzero_sound _ x) in H. rewrite peval_psub in H. lra. Qed.

(* ------------------------------------------------------------------------------------------ *)
(* Q[s,c] / (c^2 = 1 - s^2): pairs (A, B) standing for A(s) + c B(s)                            *)
(* ------------------------------------------------------------------------------------------ *)
Definition p2 : Type := (qpoly * qpoly)%type.
Definition one_minus_s2 : qpoly := [1%Q; 0%Q; (-1 # 1)%Q].
Definition p2zero : p2 := ([], []).
Definition p2one : p2 := ([1%Q], []).
Definition p2add (a b : p2) : p2 := (padd (fst a) (fst b), padd (snd a) (snd b)).
Definition p2sub (a b : p2) : p2 := (psub (fst a) (fst b), psub (snd a) (snd b)).
Definition p2mul (a b : p2) : p2 :=
  (padd (pmul (fst a) (fst b)) (pmul one_minus_s2 (pmul (snd a) (snd b))),
   padd (pmul (fst a) (snd b)) (pmul (snd a) (fst b))).
Definition p2Q (q : Q) : p2 := ([q], []).
Definition p2eqb (a b : p2) : bool := peqb (fst a) (fst b) && peqb (snd a) (snd b).
Definition OpsP2 : ROps p2 := mkROps p2 p2zero p2one p2add p2sub p2mul p2Q.

Definition eval2 (phi : R) (a : p2) : R := peval (fst a) (sin phi) + cos phi * peval (snd a) (sin phi).

Lemma eval2_zero phi : eval2 phi p2zero = 0.
Proof. unfold eval2; simpl. ring. Qed.
Lemma eval2_one phi : eval2 phi p2one = 1.
Proof. unfold eval2; simpl. rewrite Q2R_1. ring. Qed.
Lemma eval2_Q phi q : eval2 phi (p2Q q) = Q2R q.
Proof. unfold eval2; simpl. ring. Qed.
Lemma eval2_add phi a b : eval2 phi (p2add a b) = eval2 phi a + eval2 phi b.
Proof. unfold eval2, p2add; cbn [fst snd]. rewrite !peval_padd. ring. Qed.
Lemma eval2_sub phi a b : eval2 phi (p2sub a b) = eval2 phi a - eval2 phi b.
Proof. unfold eval2, p2sub; cbn [fst snd]. rewrite !peval_psub. ring. Qed.
Lemma eval_one_minus_s2 x : peval one_minus_s2 x = 1 - x * x.
Proof. unfold one_minus_s2; simpl. rewrite Q2R_1, Q2R_0. unfold Q2R; simpl. lra. Qed.
Lemma eval2_mul phi a b : eval2 phi (p2mul a b) = eval2 phi a * eval2 phi b.
Proof.
  unfold eval2, p2mul; cbn [fst snd]. rewrite !peval_padd, !peval_pmul, eval_one_minus_s2.
  assert (H : cos phi * cos phi = 1 - sin phi * sin phi) by (pose proof (sin2_cos2 phi) as H; unfold Rsqr in H; lra).
  ring [H].
Qed.
Lemma eval2_eqb phi a b : p2eqb a b = true -> eval2 phi a = eval2 phi b.
Proof.
  unfold p2eqb, eval2. intros H. apply andb_prop in H. destruct H as [H1 H2].
  rewrite (peqb_sound _ _ (sin phi) H1), (peqb_sound _ _ (sin phi) H2). reflexivity.
Qed.

Definition Xs : p2 := ([0%Q; 1%Q], []).     (* the indeterminate s *)
Definition Cc : p2 := ([], [1%Q]).          (* the indeterminate c *)
Definition embed (p : qpoly) : p2 := (p, []).
Fixpoint p2pow (a : p2) (k : nat) : p2 := match k with O => p2one | S j => p2mul a (p2pow a j) end.

Lemma eval2_Xs phi : eval2 phi Xs = sin phi.
Proof. unfold eval2, Xs; simpl. rewrite Q2R_0, Q2R_1. ring. Qed.
Lemma eval2_Cc phi : eval2 phi Cc = cos phi.
Proof. unfold eval2, Cc; simpl. rewrite Q2R_1. ring. Qed.
Lemma eval2_embed phi p : eval2 phi (embed p) = peval p (sin phi).
Proof. unfold eval2, embed; simpl. ring. Qed.
Lemma eval2_pow phi a k : eval2 phi (p2pow a k) = eval2 phi a ^ k.
Proof. induction k; cbn [p2pow pow]; [apply eval2_one|rewrite eval2_mul, IHk; reflexivity]. Qed.

(* ------------------------------------------------------------------------------------------ *)
(* the recursion commutes with every homomorphism of the number type                            *)
(* ------------------------------------------------------------------------------------------ *)
Section Hom.
  Context {A B : Type} (OA : ROps A) (OB : ROps B) (h : A -> B).
  Hypothesis h0 : h (r0 OA) = r0 OB.
  Hypothesis h1 : h (r1 OA) = r1 OB.
  Hypothesis hadd : forall x y, h (radd OA x y) = radd OB (h x) (h y).
  Hypothesis hsub : forall x y, h (rsub OA x y) = rsub OB (h x) (h y).
  Hypothesis hmul : forall x y, h (rmul OA x y) = rmul OB (h x) (h y).
  Hypothesis hQ : forall q, h (rQ OA q) = rQ OB q.
  Variables s c : A.

  Definition hh (e : A * A) : B * B := (h (fst e), h (snd e)).

  Lemma get_map row m : get OB (map hh row) m = hh (get OA row m).
  Proof.
    unfold get. replace (r0 OB, r0 OB) with (hh (r0 OA, r0 OA)) by (unfold hh; simpl; rewrite h0; reflexivity).
    apply map_nth.
  Qed.

  Lemma leg_entry_hom n row1 row2 m :
    leg_entry OB (h s) (h c) n (map hh row1) (map hh row2) m = hh (leg_entry OA s c n row1 row2 m).
  Proof.
    unfold leg_entry. destruct (Nat.eqb m n).
    - rewrite get_map. destruct (get OA row1 (m - 1)) as [p1 d1]. unfold hh; simpl.
      rewrite hadd, !hmul. reflexivity.
    - rewrite !get_map. destruct (get OA row1 m) as [p1 d1]. destruct (get OA row2 m) as [p2 d2]. unfold hh; simpl.
      rewrite !hsub, !hmul, hQ. reflexivity.
  Qed.

  Lemma leg_row_hom n row1 row2 :
    leg_row OB (h s) (h c) n (map hh row1) (map hh row2) = map hh (leg_row OA s c n row1 row2).
  Proof.
    unfold leg_row. rewrite map_map. apply map_ext. intros m. apply leg_entry_hom.
  Qed.

  Lemma leg2_hom n :
    leg2 OB (h s) (h c) n = (map hh (fst (leg2 OA s c n)), map hh (snd (leg2 OA s c n))).
  Proof.
    induction n as [|k IH].
    - simpl. unfold hh; simpl. rewrite h0, h1. reflexivity.
    - cbn [leg2]. rewrite IH. destruct (leg2 OA s c k) as [a b]. cbn [fst snd]. rewrite leg_row_hom. reflexivity.
  Qed.

  Lemma Pmn_hom n m : Pmn OB (h s) (h c) n m = h (Pmn OA s c n m).
  Proof. unfold Pmn, legrow. rewrite leg2_hom. cbn [fst]. rewrite get_map. reflexivity. Qed.
  Lemma dPmn_hom n m : dPmn OB (h s) (h c) n m = h (dPmn OA s c n m).
  Proof. unfold dPmn, legrow. rewrite leg2_hom. cbn [fst]. rewrite get_map. reflexivity. Qed.
End Hom.

(* the instance at R used by the hand model *)
Definition RR : ROps R := rops_of OpsR.

Lemma Pmn_eval phi n m : Pmn RR (sin phi) (cos phi) n m = eval2 phi (Pmn OpsP2 Xs Cc n m).
Proof.
  rewrite <- (eval2_Xs phi) at 1. rewrite <- (eval2_Cc phi) at 1.
  apply (Pmn_hom OpsP2 RR (eval2 phi)).
  - apply eval2_zero. - apply eval2_one. - apply eval2_add. - apply eval2_sub. - apply eval2_mul.
  - intros q. apply eval2_Q.
Qed.
Lemma dPmn_eval phi n m : dPmn RR (sin phi) (cos phi) n m = eval2 phi (dPmn OpsP2 Xs Cc n m).
Proof.
  rewrite <- (eval2_Xs phi) at 1. rewrite <- (eval2_Cc phi) at 1.
  apply (dPmn_hom OpsP2 RR (eval2 phi)).
  - apply eval2_zero. - apply eval2_one. - apply eval2_add. - apply eval2_sub. - apply eval2_mul.
  - intros q. apply eval2_Q.
Qed.

(* ------------------------------------------------------------------------------------------ *)
(* Schmidt factors of the model as  rational * sqrt(rational)                                   *)
(* ------------------------------------------------------------------------------------------ *)
Fixpoint S0q (n : nat) : Q :=
  match n with
  | O => 1%Q
  | S k => (S0q k * inject_Z (2 * Z.of_nat n - 1) / inject_Z (Z.of_nat n))%Q
  end.
Definition afac (n m : nat) : Q :=
  (inject_Z (Z.of_nat (n - m + 1) * (if Nat.eqb m 1 then 2 else 1)) / inject_Z (Z.of_nat (n + m)))%Q.
Fixpoint Aq (n m : nat) : Q :=
  match m with
  | O => 1%Q
  | S j => (Aq n j * afac n m)%Q
  end.

Lemma inject_Z_nz z : z <> 0%Z -> ~ (inject_Z z == 0)%Q.
Proof. intros H E. unfold Qeq in E; simpl in E. lia. Qed.

Lemma S0_R n : S0 OpsR n = Q2R (S0q n).
Proof.
  induction n as [|k IH]; [simpl; rewrite Q2R_1; reflexivity|].
  cbn [S0 S0q]. cbn [oadd osub omul odiv oZ OpsR]. rewrite IH.
  rewrite Q2R_div by (apply inject_Z_nz; lia). rewrite Q2R_mult, !Q2R_inject_Z. reflexivity.
Qed.

Lemma afac_R n m : (0 < n + m)%nat -> Q2R (afac n m) = IZR (Z.of_nat (n - m + 1) * (if Nat.eqb m 1 then 2 else 1)) / IZR (Z.of_nat (n + m)).
Proof.
  intros H. unfold afac. rewrite Q2R_div by (apply inject_Z_nz; lia). rewrite !Q2R_inject_Z. reflexivity.
Qed.
Lemma afac_nonneg n m : (0 < n + m)%nat -> 0 <= Q2R (afac n m).
Proof.
  intros H. rewrite afac_R by exact H.
  apply Rmult_le_pos.
  - apply IZR_le. destruct (Nat.eqb m 1); lia.
  - left. apply Rinv_0_lt_compat. apply IZR_lt. lia.
Qed.
Lemma Aq_nonneg n m : 0 <= Q2R (Aq n m).
Proof.
  induction m as [|j IH]; cbn [Aq]; [rewrite Q2R_1; lra|].
  rewrite Q2R_mult. apply Rmult_le_pos; [exact IH|apply afac_nonneg; lia].
Qed.

Lemma Smn_R n m : Smn OpsR n m = Q2R (S0q n) * sqrt (Q2R (Aq n m)).
Proof.
  induction m as [|j IH].
  - cbn [Smn Aq]. rewrite S0_R, Q2R_1, sqrt_1. ring.
  - cbn [Smn Aq]. rewrite IH. unfold sfac. cbn [oadd osub omul odiv oZ osqrt OpsR].
    rewrite <- afac_R by lia.
    rewrite Q2R_mult, sqrt_mult by (try apply Aq_nonneg; apply afac_nonneg; lia). ring.
Qed.

Lemma scaled_sqrt_eq x y a b :
  0 <= x -> 0 <= y -> 0 <= a -> 0 <= b -> x * x * a = y * y * b -> x * sqrt a = y * sqrt b.
Proof.
  intros Hx Hy Ha Hb E.
  rewrite <- (sqrt_square x Hx) at 1. rewrite <- (sqrt_square y Hy) at 1.
  rewrite <- !sqrt_mult by (try assumption; apply Rmult_le_pos; assumption).
  rewrite E. reflexivity.
Qed.

(* ------------------------------------------------------------------------------------------ *)
(* the decision procedure                                                                       *)
(* ------------------------------------------------------------------------------------------ *)
Fixpoint oddfact (n : nat) : Z :=            (* (2n-1)!! *)
  match n with O => 1%Z | S k => ((2 * Z.of_nat n - 1) * oddfact k)%Z end.
(* Gauss-normalised -> unnormalised:  P_{n,m} = (2n-1)!!/(n-m)! * P^{n,m} *)
Definition rho (n m : nat) : Q := (inject_Z (oddfact n) / inject_Z (zfact (n - m)))%Q.

Definition specP (n m : nat) : p2 := p2mul (p2pow Cc m) (embed (Dleg n m)).
(* minus the latitude derivative = the co-latitude derivative *)
Definition specdP (n m : nat) : p2 :=
  p2sub (p2mul (p2Q (inject_Z (Z.of_nat m))) (p2mul (p2mul (p2pow Cc (m - 1)) Xs) (embed (Dleg n m))))
        (p2mul (p2pow Cc (m + 1)) (embed (Dleg n (S m)))).

Definition check (n m : nat) : bool :=
  let Pm := Pmn OpsP2 Xs Cc n m in
  let dPm := dPmn OpsP2 Xs Cc n m in
  p2eqb (p2mul (p2Q (rho n m)) Pm) (specP n m)
  && p2eqb (p2mul (p2Q (rho n m)) dPm) (specdP n m)
  && Qeq_bool (S0q n * S0q n * Aq n m)%Q (rho n m * rho n m * schmidt_sq n m)%Q
  && Qle_bool 0%Q (S0q n) && Qle_bool 0%Q (rho n m) && Qle_bool 0%Q (schmidt_sq n m).

Definition check_all (N : nat) : bool :=
  forallb (fun n => forallb (fun m => check n m) (seq 0 (S n))) (seq 0 (S N)).

Lemma eval2_specP phi n m : eval2 phi (specP n m) = Pnm n m phi.
Proof. unfold specP, Pnm. rewrite eval2_mul, eval2_pow, eval2_Cc, eval2_embed. reflexivity. Qed.
Lemma eval2_specdP phi n m : eval2 phi (specdP n m) = - dPnm n m phi.
Proof.
  unfold specdP, dPnm.
  rewrite eval2_sub, !eval2_mul, !eval2_pow, eval2_Cc, eval2_Xs, !eval2_embed, eval2_Q, Q2R_inject_Z, <- INR_IZR_INZ.
  ring.
Qed.

Lemma Qle_bool_R a : Qle_bool 0%Q a = true -> 0 <= Q2R a.
Proof. intros H. apply Qle_bool_imp_le in H. apply Qle_Rle in H. rewrite Q2R_0 in H. exact H. Qed.

Lemma check_sound n m : check n m = true ->
  forall phi, Smn OpsR n m * Pmn RR (sin phi) (cos phi) n m = Pschmidt n m phi
           /\ Smn OpsR n m * dPmn RR (sin phi) (cos phi) n m = - dPschmidt n m phi.
Proof.
  unfold check. intros H phi.
  do 5 (apply andb_prop in H; destruct H as [H ?]).
  assert (HS : Smn OpsR n m = Q2R (rho n m) * schmidt_norm n m).
  { rewrite Smn_R. unfold schmidt_norm. apply scaled_sqrt_eq.
    - apply Qle_bool_R; assumption. - apply Qle_bool_R; assumption. - apply Aq_nonneg. - apply Qle_bool_R; assumption.
    - match goal with E : Qeq_bool _ _ = true |- _ => apply Qeq_bool_eq in E; apply Qeq_eqR in E; rewrite !Q2R_mult in E; exact E end. }
  match goal with E : p2eqb _ (specdP n m) = true |- _ => apply (eval2_eqb phi) in E; rewrite eval2_mul, eval2_Q, eval2_specdP in E; rename E into E2 end.
  apply (eval2_eqb phi) in H. rewrite eval2_mul, eval2_Q, eval2_specP in H.
  rewrite Pmn_eval, dPmn_eval, HS. unfold Pschmidt, dPschmidt. split.
  - rewrite <- H. ring.
  - replace (- (schmidt_norm n m * dPnm n m phi)) with (schmidt_norm n m * (- dPnm n m phi)) by ring.
    rewrite <- E2. ring.
Qed.

Lemma check_all_spec N : check_all N = true -> forall n m, (m <= n)%nat -> (n <= N)%nat -> check n m = true.
Proof.
  unfold check_all. intros H n m Hm Hn. rewrite forallb_forall in H.
  specialize (H n). rewrite forallb_forall in H. apply H; apply in_seq; lia.
Qed.

Lemma check_all_12 : check_all 12 = true.
Proof. vm_compute. reflexivity. Qed.

(* THE theorem: for every degree n <= 12, order m <= n and latitude phi the code's S[m,n] P[m,n] is the Schmidt
   semi-normalised associated Legendre function of sin(phi), and S[m,n] dP[m,n] is minus its latitude derivative
   (= its co-latitude derivative). *)
Theorem legendre_matches_spec_12 : forall n m phi, (m <= n)%nat -> (n <= 12)%nat ->
  Smn OpsR n m * Pmn RR (sin phi) (cos phi) n m = Pschmidt n m phi /\
  Smn OpsR n m * dPmn RR (sin phi) (cos phi) n m = - dPschmidt n m phi.
Proof.
  intros n m phi Hm Hn. apply check_sound. exact (check_all_spec 12 check_all_12 n m Hm Hn).
Qed.

(* ------------------------------------------------------------------------------------------ *)
(* sanity of the specification: Bonnet's recursion holds for the explicit Legendre polynomials   *)
(* ------------------------------------------------------------------------------------------ *)
Definition bonnet_ok (n : nat) : bool :=     (* (n+1) P_{n+1} = (2n+1) x P_n - n P_{n-1},  n >= 1 *)
  peqb (pscale (inject_Z (Z.of_nat (n + 1))) (legendre (n + 1)))
       (psub (pscale (inject_Z (2 * Z.of_nat n + 1)) (pmul [0%Q; 1%Q] (legendre n)))
             (pscale (inject_Z (Z.of_nat n)) (legendre (n - 1)))).
Example spec_legendre_bonnet : forallb bonnet_ok (seq 1 12) = true.
Proof. vm_compute. reflexivity. Qed.
(* and P_n(1) = 1 *)
Example spec_legendre_at_1 : forallb (fun n => Qeq_bool (fold_right Qplus 0%Q (legendre n)) 1%Q) (seq 0 13) = true.
Proof. vm_compute. reflexivity. Qed.
(* non-vacuity: the statement at n = 2, m = 1 is  sqrt(3) sin cos *)
Example legendre_example_2_1 : forall phi, Pschmidt 2 1 phi = sqrt (Q2R (1 # 3)) * (cos phi * (3 * sin phi)).
Proof.
  intros phi. unfold Pschmidt, schmidt_norm, Pnm.
  replace (schmidt_sq 2 1) with ((2 * inject_Z 1 / inject_Z 6)%Q) by reflexivity.
  assert (E : Q2R (2 * inject_Z 1 / inject_Z 6)%Q = Q2R (1 # 3)) by (apply Qeq_eqR; reflexivity).
  rewrite E. f_equal.
  replace (Dleg 2 1) with [0%Q; (3 # 1)%Q] by (vm_compute; reflexivity).
  simpl. rewrite Q2R_0. unfold Q2R; simpl. lra.
Qed.
