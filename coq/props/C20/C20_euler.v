(* C20_euler.v — the angles QuaternionArray.to_angles returns (Sensors.ang_pos of a given trajectory) are the
   roll-pitch-yaw decomposition of the SAME rotation: Rspec q = Rz(yaw) Ry(pitch) Rx(roll), away from the gimbal
   lock |sin pitch| = 1.  Pure mathematics over AhrsLib (Rot, Atan2); applies to the rpy_of terms of C20_repr.v. *)
From Coq Require Import Reals List Lra.
From AhrsLib Require Import Base Rot Atan2.
From AhrsProps Require Import C20_spec.
Import ListNotations.
Open Scope R_scope.

(* algebraic core: k = cos(pitch) > 0, (Cf,Sf) = (cos,sin) roll, (Cp,Sp) = (cos,sin) yaw *)
Lemma euler_alg w x y z k Cf Sf Cp Sp :
  unit4 w x y z -> k <> 0 ->
  k * k = 1 - (2 * (w*y - z*x)) * (2 * (w*y - z*x)) ->
  1 - 2 * (x*x + y*y) = k * Cf -> 2 * (w*x + y*z) = k * Sf ->
  1 - 2 * (y*y + z*z) = k * Cp -> 2 * (w*z + x*y) = k * Sp ->
  Rspec [w;x;y;z] =
    [Cp * k; Cp * (2 * (w*y - z*x)) * Sf - Sp * Cf; Cp * (2 * (w*y - z*x)) * Cf + Sp * Sf;
     Sp * k; Sp * (2 * (w*y - z*x)) * Sf + Cp * Cf; Sp * (2 * (w*y - z*x)) * Cf - Cp * Sf;
     - (2 * (w*y - z*x)); k * Sf; k * Cf].
Proof.
  intros U Hk0 Hk Hb Ha Hd Hc. unfold unit4 in U.
  assert (Hkk : k * k <> 0) by (apply Rmult_integral_contrapositive_currified; assumption).
  assert (Uo : w * w = 1 - x*x - y*y - z*z) by lra.
  unfold_rot. list_eq.
  - rewrite Hd; ring.
  - apply Rmult_eq_reg_l with (k * k); [|exact Hkk].
    replace (k * k * (Cp * (2 * (w*y - z*x)) * Sf - Sp * Cf)) with ((k*Cp) * (2 * (w*y - z*x)) * (k*Sf) - (k*Sp) * (k*Cf)) by ring.
    rewrite <- Hd, <- Ha, <- Hc, <- Hb, Hk. ring [Uo].
  - apply Rmult_eq_reg_l with (k * k); [|exact Hkk].
    replace (k * k * (Cp * (2 * (w*y - z*x)) * Cf + Sp * Sf)) with ((k*Cp) * (2 * (w*y - z*x)) * (k*Cf) + (k*Sp) * (k*Sf)) by ring.
    rewrite <- Hd, <- Ha, <- Hc, <- Hb, Hk. ring [Uo].
  - replace (Sp * k) with (k * Sp) by ring. rewrite <- Hc. ring.
  - apply Rmult_eq_reg_l with (k * k); [|exact Hkk].
    replace (k * k * (Sp * (2 * (w*y - z*x)) * Sf + Cp * Cf)) with ((k*Sp) * (2 * (w*y - z*x)) * (k*Sf) + (k*Cp) * (k*Cf)) by ring.
    rewrite <- Hd, <- Ha, <- Hc, <- Hb, Hk. ring [Uo].
  - apply Rmult_eq_reg_l with (k * k); [|exact Hkk].
    replace (k * k * (Sp * (2 * (w*y - z*x)) * Cf - Cp * Sf)) with ((k*Sp) * (2 * (w*y - z*x)) * (k*Cf) - (k*Cp) * (k*Sf)) by ring.
    rewrite <- Hd, <- Ha, <- Hc, <- Hb, Hk. ring [Uo].
  - ring.
  - rewrite <- Ha; ring.
  - rewrite <- Hb; ring.
Qed.

(* the three angles of to_angles are the aerospace decomposition of the rotation of q *)
Lemma rpy_of_is_euler w x y z : unit4 w x y z -> -1 < 2 * (w*y - z*x) < 1 ->
  Rspec [w;x;y;z] = Rzyx (e (rpy_of [w;x;y;z]) 0) (e (rpy_of [w;x;y;z]) 1) (e (rpy_of [w;x;y;z]) 2).
Proof.
  intros U Hs. pose proof U as U'. unfold unit4 in U'.
  assert (Uo : w * w = 1 - x*x - y*y - z*z) by lra.
  set (s := 2 * (w*y - z*x)) in *.
  assert (Hs2 : 0 < 1 - s * s) by nra.
  set (k := sqrt (1 - s * s)).
  assert (Hk : k * k = 1 - s * s) by (apply sqrt_sqrt; lra).
  assert (Hkpos : 0 < k) by (apply sqrt_lt_R0; exact Hs2).
  set (a := 2 * (w*x + y*z)). set (b := 1 - 2 * (x*x + y*y)).
  set (c := 2 * (w*z + x*y)). set (d := 1 - 2 * (y*y + z*z)).
  assert (Hab : b * b + a * a = 1 - s * s) by (unfold a, b, s; ring [Uo]).
  assert (Hcd : d * d + c * c = 1 - s * s) by (unfold c, d, s; ring [Uo]).
  destruct (atan2_polar b a) as [Hb Ha]; [rewrite Hab; exact Hs2|].
  destruct (atan2_polar d c) as [Hd Hc]; [rewrite Hcd; exact Hs2|].
  rewrite Hab in Hb, Ha. rewrite Hcd in Hd, Hc. fold k in Hb, Ha, Hd, Hc.
  assert (Hsin : sin (asin s) = s) by (apply sin_asin; lra).
  assert (Hcos : cos (asin s) = k) by (unfold k; rewrite cos_asin by lra; f_equal; unfold Rsqr; ring).
  assert (Hk0 : k <> 0) by lra.
  pose proof (euler_alg w x y z k _ _ _ _ U Hk0 Hk Hb Ha Hd Hc) as E. rewrite E. clear E.
  unfold Rzyx, Rx, Ry, Rz, rpy_of. cbv [e nth]. fold s. rewrite Hsin, Hcos. fold a b c d.
  unfold_rot. list_eq; ring.
Qed.
