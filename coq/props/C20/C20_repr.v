(* C20_repr.v — the three representations kept by Sensors(quaternions=Q, ...): quaternions, rotations, ang_pos. *)
From Coq Require Import Reals List Lra.
From AhrsLib Require Import Base Rot.
From AhrsGen Require Import C20gen_R.
From AhrsProps Require Import C20_spec.
Import ListNotations.
Open Scope R_scope.

Section Given.
Variables q0w q0x q0y q0z q1w q1x q1y q1z q2w q2x q2y q2z : R.
Hypothesis U0 : unit4 q0w q0x q0y q0z.
Hypothesis U1 : unit4 q1w q1x q1y q1z.
Hypothesis U2 : unit4 q2w q2x q2y q2z.
Let q0 := [q0w; q0x; q0y; q0z].
Let q1 := [q1w; q1x; q1y; q1z].
Let q2 := [q2w; q2x; q2y; q2z].

(* .quaternions are the given rows, .rotations their textbook matrices, .ang_pos their roll-pitch-yaw angles *)
Lemma repr_spec m0 m1 m2 sm :
  C20_repr_R q0w q0x q0y q0z q1w q1x q1y q1z q2w q2x q2y q2z m0 m1 m2 sm
  = Val ((q0 ++ q1 ++ q2) ++ (Rspec q0 ++ Rspec q1 ++ Rspec q2) ++ (rpy_of q0 ++ rpy_of q1 ++ rpy_of q2)).
Proof.
  unfold rpy_of, q0, q1, q2. unfold_c20. unfold C20_repr_R. revert U0 U1 U2. open3.
  try destr_dec; val_eq;
    first [uring | apply f_equal; uring | apply f_equal2; uring].
Qed.
End Given.
