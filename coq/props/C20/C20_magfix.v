(* C20_magfix.v — compiled only on a tree where the known finding "Sensors.generate/mag-noise-overridden" no longer
   reproduces (fixes/C20-mag-noise-override.patch applied): the requested magnetometer noise level is the applied and
   the reported one for EVERY level, so zero noise is zero. *)
From Coq Require Import Reals List Lra.
From AhrsLib Require Import Base Rot.
From AhrsGen Require Import C20gen_R.
From AhrsProps Require Import C20_spec.
Import ListNotations.
Open Scope R_scope.

Section Given.
Variables q0w q0x q0y q0z q1w q1x q1y q1z q2w q2x q2y q2z : R.
Hypothesis U0 : unit4 q0w q0x q0y q0z.
Hypothesis U1 : unit4 q1w q1x q1y q1z.
Hypothesis U2 : unit4 q2w q2x q2y q2z.
Let q0 := [q0w; q0x; q0y; q0z].
Let q1 := [q1w; q1x; q1y; q1z].
Let q2 := [q2w; q2x; q2y; q2z].

Lemma magfix_spec m0 m1 m2 sm nm00 nm01 nm02 nm10 nm11 nm12 nm20 nm21 nm22 :
  C20_mag_R q0w q0x q0y q0z q1w q1x q1y q1z q2w q2x q2y q2z m0 m1 m2 sm nm00 nm01 nm02 nm10 nm11 nm12 nm20 nm21 nm22
  = Val ((add3 (body q0 [m0;m1;m2]) (scale3 sm [nm00;nm01;nm02]) ++ add3 (body q1 [m0;m1;m2]) (scale3 sm [nm10;nm11;nm12]) ++
          add3 (body q2 [m0;m1;m2]) (scale3 sm [nm20;nm21;nm22])) ++ [sm]).
Proof. unfold C20_mag_R, q0, q1, q2. revert U0 U1 U2. open3. unfold_c20. val_eq; uring. Qed.

Lemma magfix_zero m0 m1 m2 nm00 nm01 nm02 nm10 nm11 nm12 nm20 nm21 nm22 :
  C20_mag_R q0w q0x q0y q0z q1w q1x q1y q1z q2w q2x q2y q2z m0 m1 m2 0 nm00 nm01 nm02 nm10 nm11 nm12 nm20 nm21 nm22
  = Val ((body q0 [m0;m1;m2] ++ body q1 [m0;m1;m2] ++ body q2 [m0;m1;m2]) ++ [0]).
Proof. rewrite magfix_spec. unfold_c20. val_eq; ring. Qed.

Lemma magfix_norm_spec m0 m1 m2 sm nm00 nm01 nm02 nm10 nm11 nm12 nm20 nm21 nm22 :
  C20_mag_norm_R q0w q0x q0y q0z q1w q1x q1y q1z q2w q2x q2y q2z m0 m1 m2 sm nm00 nm01 nm02 nm10 nm11 nm12 nm20 nm21 nm22
  = Val ((unit3 (add3 (body q0 [m0;m1;m2]) (scale3 sm [nm00;nm01;nm02])) ++ unit3 (add3 (body q1 [m0;m1;m2]) (scale3 sm [nm10;nm11;nm12])) ++
          unit3 (add3 (body q2 [m0;m1;m2]) (scale3 sm [nm20;nm21;nm22]))) ++ [sm]).
Proof.
  unfold C20_mag_norm_R, q0, q1, q2. revert U0 U1 U2. open3. unfold_c20. val_eq;
  try (unfold Rdiv; apply Rmult_eq2; [uring | apply f_equal; apply f_equal; uring]).
Qed.

(* zero noise, normalised: row i = body(q_i, m) / |m| *)
Lemma magfix_norm_zero m0 m1 m2 nm00 nm01 nm02 nm10 nm11 nm12 nm20 nm21 nm22 :
  C20_mag_norm_R q0w q0x q0y q0z q1w q1x q1y q1z q2w q2x q2y q2z m0 m1 m2 0 nm00 nm01 nm02 nm10 nm11 nm12 nm20 nm21 nm22
  = Val ((scale3 (/ norm3 [m0;m1;m2]) (body q0 [m0;m1;m2]) ++ scale3 (/ norm3 [m0;m1;m2]) (body q1 [m0;m1;m2]) ++
          scale3 (/ norm3 [m0;m1;m2]) (body q2 [m0;m1;m2])) ++ [0]).
Proof.
  rewrite magfix_norm_spec. revert U0 U1 U2. unfold unit4, q0, q1, q2. intros. orient_unit. unfold_c20. val_eq;
  try (unfold Rdiv; rewrite Rmult_comm; apply Rmult_eq2; [apply f_equal; apply f_equal; uring | uring]).
Qed.
End Given.
