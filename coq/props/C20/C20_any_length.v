(* C20_any_length.v — property C20, statements for trajectories of every length (compiled beside C20.v).
   Only statements, each closed by `exact`-style glue, each followed by Print Assumptions. *)
From Coq Require Import Reals List Lra.
From AhrsLib Require Import Base Rot.
From AhrsGen Require Import C20gen_R.
From AhrsProps Require Import C20_spec C20_acc C20_firstorder C20_rows C20_integrate C20_arstep C20_randyaw.
Import ListNotations.
Open Scope R_scope.

(* every trajectory length: generate() fills the accelerometer / magnetometer arrays row by row (`rows`: row i from attitude i
   and draw i only - the regenerated three-row DAG is checked to be row-wise, and windows of real N-row runs are compared
   with it).  For every N, row i of the row-wise array is the body-frame reference of attitude i plus level * draw i, exactly
   the body-frame reference at level 0; and the regenerated three-row accelerometer array IS the row-wise array *)
Theorem C20_rows_any_length :
  (forall ref level qs draws i, length draws = length qs -> (i < length qs)%nat ->
     row3 (rows ref level qs draws) i = add3 (body (nth i qs []) ref) (scale3 level (nth i draws []))) /\
  (forall ref qs draws i, length draws = length qs -> (i < length qs)%nat ->
     row3 (rows ref 0 qs draws) i = body (nth i qs []) ref) /\
  (forall q0w q0x q0y q0z q1w q1x q1y q1z q2w q2x q2y q2z,
   unit4 q0w q0x q0y q0z -> unit4 q1w q1x q1y q1z -> unit4 q2w q2x q2y q2z ->
   forall g0 g1 g2 m0 m1 m2 sa sm na00 na01 na02 na10 na11 na12 na20 na21 na22,
   C20_acc_R q0w q0x q0y q0z q1w q1x q1y q1z q2w q2x q2y q2z g0 g1 g2 m0 m1 m2 sa sm na00 na01 na02 na10 na11 na12 na20 na21 na22
   = Val (rows [g0;g1;g2] sa [[q0w;q0x;q0y;q0z]; [q1w;q1x;q1y;q1z]; [q2w;q2x;q2y;q2z]]
               [[na00;na01;na02]; [na10;na11;na12]; [na20;na21;na22]])).
Proof.
  split; [exact rows_row|]. split; [exact rows_zero|]. intros. rewrite rows_three. apply acc_spec; assumption.
Qed.
Print Assumptions C20_rows_any_length.

(* integrating the bias-corrected gyroscope from the first attitude, for ANY number of steps.
   (1) the regenerated closed-form step of AngularRate.update (dt = 0.01) is  ar_closed q w dt = q (x) (cos(|w|dt/2), w/|w| sin(|w|dt/2));
   (2) EXACT: on the rate (th/dt) n - the code's rate times th/(2 sin(th/2)) - that step reproduces the next attitude;
   (3) on the code's rate (2/dt) sin(th/2) n it turns by 2 sin(th/2) about the same axis instead of th;
   (4) hence after any list of steps (unit axes, th >= 0) from the same unit first attitude the integrated quaternion is within
       sum th_t^3 / 48 of the ground truth in the chordal metric |p - q|  (an angle defect of sum th_t^3 / 24 to first order) *)
Theorem C20_reintegration :
  (forall w x y z g0 g1 g2, unit4 w x y z -> 0 < g0*g0 + g1*g1 + g2*g2 ->
     C20_arstep_R w x y z g0 g1 g2 = Val (ar_closed [w;x;y;z] [g0;g1;g2] (1 / 100))) /\
  (forall q n0 n1 n2 th dt, n0*n0 + n1*n1 + n2*n2 = 1 -> 0 < th -> 0 < dt ->
     ar_closed q (scale3 (th / dt) [n0; n1; n2]) dt = step q n0 n1 n2 th) /\
  (forall q n0 n1 n2 th dt, n0*n0 + n1*n1 + n2*n2 = 1 -> 0 < th < 2 * PI -> 0 < dt ->
     ar_closed q (scale3 (2 / dt * sin (th / 2)) [n0; n1; n2]) dt = qmul q (axq n0 n1 n2 (code_angle th))) /\
  (forall steps q0, Forall good_step steps -> qnorm2 q0 = 1 ->
     qdist (integrate (fun th => th) q0 steps) (integrate code_angle q0 steps) <= cubic_sum steps).
Proof.
  split; [exact arstep_spec|]. split; [exact ar_closed_exact|]. split; [exact ar_closed_code_rate|].
  intros. apply integrate_from_first; assumption.
Qed.
Print Assumptions C20_reintegration.

(* random route with the yaw= keyword (yaw being a symbol: any requested yaw): whenever Sensors(num_samples=3, yaw=yw) returns,
   ang_pos carries the requested yaw in radians and ang_vel (hence the gyroscopes) is computed from the SAME quaternions that
   are reported: ang_vel = [rate q0 q1; rate q0 q1; rate q1 q2].  (Those quaternions are qZ(yaw) qY(pitch) qX(roll):
   C20_random_route_representations; rotations and accelerometers of the same object: C20_thorough.v.) *)
Theorem C20_random_route_same_trajectory :
  forall ro0 pi0 ya0 ro1 pi1 ya1 ro2 pi2 ya2 yw m0 m1 m2 sm l,
  C20_rand_yaw_R ro0 pi0 ya0 ro1 pi1 ya1 ro2 pi2 ya2 yw m0 m1 m2 sm = Val l ->
  exists a0 a1 a2 a3 b0 b1 b2 b3 c0 c1 c2 c3,
    l = ([a0;a1;a2;a3] ++ [b0;b1;b2;b3] ++ [c0;c1;c2;c3])
        ++ [ro0; pi0; yw * d2r;  ro1; pi1; yw * d2r;  ro2; pi2; yw * d2r]
        ++ (rate dt100 [a0;a1;a2;a3] [b0;b1;b2;b3] ++ rate dt100 [a0;a1;a2;a3] [b0;b1;b2;b3] ++ rate dt100 [b0;b1;b2;b3] [c0;c1;c2;c3]).
Proof. exact rand_yaw_same_quaternions. Qed.
Print Assumptions C20_random_route_same_trajectory.
