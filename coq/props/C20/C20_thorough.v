(* C20_thorough.v — statements compiled in the thorough tier only (their proof files take 20-55 s each). *)
From Coq Require Import Reals List Lra.
From AhrsLib Require Import Base Rot.
From AhrsGen Require Import C20gen_R.
From AhrsProps Require Import C20_spec C20_gyro_rad_50 C20_gyro_rad_333 C20_gyro_deg_333 C20_randfull.
Import ListNotations.
Open Scope R_scope.

(* the same at the other traced sampling rates: dt = 1/freq enters only through  rate dt  (freq = 50 and 333 Hz, radians;
   333 Hz, degrees).  Stated for the general noise level; the zero-noise rows follow as in C20_gyro_first_order *)
Theorem C20_gyro_other_rates : forall q0w q0x q0y q0z q1w q1x q1y q1z q2w q2x q2y q2z,
  unit4 q0w q0x q0y q0z -> unit4 q1w q1x q1y q1z -> unit4 q2w q2x q2y q2z ->
  forall sg sm m0 m1 m2 u0 u1 u2 ng00 ng01 ng02 ng10 ng11 ng12 ng20 ng21 ng22,
  let q0 := [q0w;q0x;q0y;q0z] in let q1 := [q1w;q1x;q1y;q1z] in let q2 := [q2w;q2x;q2y;q2z] in
  let rad dt := let w1 := rate dt q0 q1 in let w2 := rate dt q1 q2 in let b := bias_rad dt q0 q1 q2 u0 u1 u2 in
    Val ((add3 (add3 [0;0;0] b) (scale3 (sg * d2r) [ng00;ng01;ng02]) ++ add3 (add3 w1 b) (scale3 (sg * d2r) [ng10;ng11;ng12]) ++
          add3 (add3 w2 b) (scale3 (sg * d2r) [ng20;ng21;ng22])) ++ b ++ ([0;0;0] ++ w1 ++ w2)) in
  let deg dt := let w1 := rate dt q0 q1 in let w2 := rate dt q1 q2 in let b := bias_deg dt q0 q1 q2 u0 u1 u2 in
    Val ((add3 (add3 [0;0;0] b) (scale3 sg [ng00;ng01;ng02]) ++ add3 (add3 (scale3 r2d w1) b) (scale3 sg [ng10;ng11;ng12]) ++
          add3 (add3 (scale3 r2d w2) b) (scale3 sg [ng20;ng21;ng22])) ++ b ++ ([0;0;0] ++ w1 ++ w2)) in
  C20_gyro_rad_50_R q0w q0x q0y q0z q1w q1x q1y q1z q2w q2x q2y q2z sg sm m0 m1 m2 u0 u1 u2 ng00 ng01 ng02 ng10 ng11 ng12 ng20 ng21 ng22 = rad (1 / 50) /\
  C20_gyro_rad_333_R q0w q0x q0y q0z q1w q1x q1y q1z q2w q2x q2y q2z sg sm m0 m1 m2 u0 u1 u2 ng00 ng01 ng02 ng10 ng11 ng12 ng20 ng21 ng22 = rad (1 / 333) /\
  C20_gyro_deg_333_R q0w q0x q0y q0z q1w q1x q1y q1z q2w q2x q2y q2z sg sm m0 m1 m2 u0 u1 u2 ng00 ng01 ng02 ng10 ng11 ng12 ng20 ng21 ng22 = deg (1 / 333).
Proof. intros. split; [apply gyro_rad_50_spec|split; [apply gyro_rad_333_spec|apply gyro_deg_333_spec]]; assumption. Qed.
Print Assumptions C20_gyro_other_rates.

(* the same at a non-default sampling rate: dt = 1/freq enters only through  rate dt  (freq = 333 Hz, the statement on its own) *)
Theorem C20_gyro_rate_333 : forall q0w q0x q0y q0z q1w q1x q1y q1z q2w q2x q2y q2z,
  unit4 q0w q0x q0y q0z -> unit4 q1w q1x q1y q1z -> unit4 q2w q2x q2y q2z ->
  forall sg sm m0 m1 m2 u0 u1 u2 ng00 ng01 ng02 ng10 ng11 ng12 ng20 ng21 ng22,
  let q0 := [q0w;q0x;q0y;q0z] in let q1 := [q1w;q1x;q1y;q1z] in let q2 := [q2w;q2x;q2y;q2z] in
  let dt := 1 / 333 in let w1 := rate dt q0 q1 in let w2 := rate dt q1 q2 in let b := bias_rad dt q0 q1 q2 u0 u1 u2 in
  C20_gyro_rad_333_R q0w q0x q0y q0z q1w q1x q1y q1z q2w q2x q2y q2z sg sm m0 m1 m2 u0 u1 u2 ng00 ng01 ng02 ng10 ng11 ng12 ng20 ng21 ng22
  = Val ((add3 (add3 [0;0;0] b) (scale3 (sg * d2r) [ng00;ng01;ng02]) ++ add3 (add3 w1 b) (scale3 (sg * d2r) [ng10;ng11;ng12]) ++
          add3 (add3 w2 b) (scale3 (sg * d2r) [ng20;ng21;ng22])) ++ b ++ ([0;0;0] ++ w1 ++ w2)).
Proof. intros. apply gyro_rad_333_spec; assumption. Qed.
Print Assumptions C20_gyro_rate_333.

(* random route with the yaw= keyword (and, yaw being a symbol, any requested yaw): whenever Sensors(num_samples=3, yaw=yw)
   returns, ang_pos carries the requested yaw in radians, and ang_vel (hence the gyroscopes), rotations and accelerometers
   are computed from the SAME quaternions that are reported: ang_vel = [rate q0 q1; rate q0 q1; rate q1 q2],
   rotations = Rspec q_i, accelerometer row i = Rspec(q_i)^T g + acc_noise * draw_i.  (The reported quaternions are
   qZ(yaw) qY(pitch) qX(roll): C20_random_route_representations.) *)
Theorem C20_random_route_same_trajectory_full :
  forall ro0 pi0 ya0 ro1 pi1 ya1 ro2 pi2 ya2 yw g0 g1 g2 m0 m1 m2 sa sm na00 na01 na02 na10 na11 na12 na20 na21 na22 l,
  C20_rand_full_R ro0 pi0 ya0 ro1 pi1 ya1 ro2 pi2 ya2 yw g0 g1 g2 m0 m1 m2 sa sm na00 na01 na02 na10 na11 na12 na20 na21 na22 = Val l ->
  exists a0 a1 a2 a3 b0 b1 b2 b3 c0 c1 c2 c3,
    l = ([a0;a1;a2;a3] ++ [b0;b1;b2;b3] ++ [c0;c1;c2;c3])
        ++ [ro0; pi0; yw * d2r;  ro1; pi1; yw * d2r;  ro2; pi2; yw * d2r]
        ++ (rate dt100 [a0;a1;a2;a3] [b0;b1;b2;b3] ++ rate dt100 [a0;a1;a2;a3] [b0;b1;b2;b3] ++ rate dt100 [b0;b1;b2;b3] [c0;c1;c2;c3])
        ++ (Rspec [a0;a1;a2;a3] ++ Rspec [b0;b1;b2;b3] ++ Rspec [c0;c1;c2;c3])
        ++ (add3 (body [a0;a1;a2;a3] [g0;g1;g2]) (scale3 sa [na00;na01;na02]) ++
            add3 (body [b0;b1;b2;b3] [g0;g1;g2]) (scale3 sa [na10;na11;na12]) ++
            add3 (body [c0;c1;c2;c3] [g0;g1;g2]) (scale3 sa [na20;na21;na22])).
Proof. exact rand_full_same_quaternions. Qed.
Print Assumptions C20_random_route_same_trajectory_full.
