(* C20_integrate.v — "integrating the bias-corrected gyroscope from the first attitude reproduces the trajectory":
   the exact discrete statement and the N-step defect bound, for trajectories of ANY length.  Pure mathematics over
   AhrsLib.Rot; the link to the code is  (i) C20_gyro_* : the noise-free bias-corrected gyroscope row t is
   rate dt q_(t-1) q_t,  (ii) C20_firstorder.rate_of_step : that is (2/dt) sin(th_t/2) n_t,  (iii) ar_closed below is
   the closed-form step of AngularRate.update (regenerated and proved equal in C20_arstep.v). *)
From Coq Require Import Reals List Lra Lia.
From AhrsLib Require Import Base Rot.
From AhrsProps Require Import C20_spec C20_firstorder.
Import ListNotations.
Open Scope R_scope.

(* ---- chordal metric on quaternions -------------------------------------------------------------------- *)
Definition qsub (p q : list R) : list R := [e p 0 - e q 0; e p 1 - e q 1; e p 2 - e q 2; e p 3 - e q 3].
Definition qdist (p q : list R) : R := sqrt (qnorm2 (qsub p q)).
Ltac unfold_q := cbv [qsub qdist qnorm2 qmul qconj e nth].

Lemma qnorm2_nonneg q : 0 <= qnorm2 q.
Proof. unfold qnorm2. nra. Qed.
Lemma qdist_refl p : qdist p p = 0.
Proof. unfold qdist. replace (qnorm2 (qsub p p)) with 0 by (unfold_q; ring). apply sqrt_0. Qed.
Lemma qsub_mul_l q a b : qsub (qmul q a) (qmul q b) = qmul q (qsub a b).
Proof. unfold_q. list_eq; ring. Qed.
Lemma qsub_mul_r p q d : qsub (qmul p d) (qmul q d) = qmul (qsub p q) d.
Proof. unfold_q. list_eq; ring. Qed.
(* the metric is invariant under right and left multiplication by unit quaternions *)
Lemma qdist_mul_r p q d : qnorm2 d = 1 -> qdist (qmul p d) (qmul q d) = qdist p q.
Proof. intros H. unfold qdist. rewrite qsub_mul_r, qnorm2_mul, H, Rmult_1_r. reflexivity. Qed.
Lemma qdist_mul_l q a b : qnorm2 q = 1 -> qdist (qmul q a) (qmul q b) = qdist a b.
Proof. intros H. unfold qdist. rewrite qsub_mul_l, qnorm2_mul, H, Rmult_1_l. reflexivity. Qed.

(* triangle inequality (Minkowski in R^4, via Lagrange's identity) *)
Lemma qdist_triangle p q r : qdist p r <= qdist p q + qdist q r.
Proof.
  unfold qdist.
  set (a0 := e p 0 - e q 0). set (a1 := e p 1 - e q 1). set (a2 := e p 2 - e q 2). set (a3 := e p 3 - e q 3).
  set (b0 := e q 0 - e r 0). set (b1 := e q 1 - e r 1). set (b2 := e q 2 - e r 2). set (b3 := e q 3 - e r 3).
  set (A := a0*a0 + a1*a1 + a2*a2 + a3*a3). set (B := b0*b0 + b1*b1 + b2*b2 + b3*b3).
  set (D := a0*b0 + a1*b1 + a2*b2 + a3*b3).
  replace (qnorm2 (qsub p q)) with A by (unfold A, a0, a1, a2, a3; unfold_q; ring).
  replace (qnorm2 (qsub q r)) with B by (unfold B, b0, b1, b2, b3; unfold_q; ring).
  replace (qnorm2 (qsub p r)) with (A + B + 2 * D) by (unfold A, B, D, a0, a1, a2, a3, b0, b1, b2, b3; unfold_q; ring).
  assert (HA : 0 <= A) by (unfold A; nra). assert (HB : 0 <= B) by (unfold B; nra).
  pose proof (sqrt_pos A) as HsA. pose proof (sqrt_pos B) as HsB.
  pose proof (sqrt_sqrt A HA) as EA. pose proof (sqrt_sqrt B HB) as EB.
  set (sA := sqrt A) in *. set (sB := sqrt B) in *.
  assert (Lag : A * B - D * D = (a0*b1 - a1*b0)*(a0*b1 - a1*b0) + (a0*b2 - a2*b0)*(a0*b2 - a2*b0) + (a0*b3 - a3*b0)*(a0*b3 - a3*b0)
                 + (a1*b2 - a2*b1)*(a1*b2 - a2*b1) + (a1*b3 - a3*b1)*(a1*b3 - a3*b1) + (a2*b3 - a3*b2)*(a2*b3 - a3*b2))
    by (unfold A, B, D; ring).
  assert (SQ : forall x : R, 0 <= x * x) by (intros; apply Rle_0_sqr).
  assert (CS : D * D <= A * B).
  { assert (0 <= A * B - D * D); [|lra]. rewrite Lag. repeat apply Rplus_le_le_0_compat; apply SQ. }
  assert (HD : D <= sA * sB).
  { apply Rsqr_incr_0_var; [unfold Rsqr|apply Rmult_le_pos; assumption]. replace (sA * sB * (sA * sB)) with ((sA * sA) * (sB * sB)) by ring. rewrite EA, EB. exact CS. }
  destruct (Rle_dec 0 (A + B + 2 * D)) as [Hc|Hc].
  - apply Rsqr_incr_0_var; [|lra]. unfold Rsqr. rewrite sqrt_sqrt by exact Hc.
    replace ((sA + sB) * (sA + sB)) with (sA * sA + sB * sB + 2 * (sA * sB)) by ring. rewrite EA, EB. lra.
  - exfalso. apply Hc. replace (A + B + 2 * D) with ((a0+b0)*(a0+b0) + (a1+b1)*(a1+b1) + (a2+b2)*(a2+b2) + (a3+b3)*(a3+b3)) by (unfold A, B, D; ring).
    repeat apply Rplus_le_le_0_compat; apply SQ.
Qed.

(* ---- axis-angle quaternions ---------------------------------------------------------------------------- *)
Definition axq (n0 n1 n2 a : R) : list R := [cos (a / 2); n0 * sin (a / 2); n1 * sin (a / 2); n2 * sin (a / 2)].
Lemma step_axq q n0 n1 n2 th : step q n0 n1 n2 th = qmul q (axq n0 n1 n2 th).
Proof. reflexivity. Qed.
Lemma axq_unit n0 n1 n2 a : n0*n0 + n1*n1 + n2*n2 = 1 -> qnorm2 (axq n0 n1 n2 a) = 1.
Proof.
  intros Hn. unfold axq. unfold_q. pose proof (sin2_cos2 (a / 2)) as T. unfold Rsqr in T.
  set (c := cos (a / 2)) in *. set (s := sin (a / 2)) in *.
  replace (c * c + n0 * s * (n0 * s) + n1 * s * (n1 * s) + n2 * s * (n2 * s)) with (c * c + (n0*n0 + n1*n1 + n2*n2) * (s * s)) by ring.
  rewrite Hn. lra.
Qed.

Lemma sin_abs_le x : Rabs (sin x) <= Rabs x.
Proof.
  destruct (Rle_dec 0 x) as [H|H].
  - rewrite (Rabs_right x) by lra. apply Rabs_le. split; [|apply sin_le_x; exact H].
    destruct (Rle_dec x 1) as [H1|H1].
    + assert (0 <= sin x); [|lra]. apply sin_ge_0; [exact H|]. pose proof PI2_3_2. lra.
    + pose proof (SIN_bound x). lra.
  - assert (Hx : 0 <= - x) by lra. rewrite (Rabs_left x) by lra. replace (sin x) with (- sin (- x)) by (rewrite sin_neg; ring).
    rewrite Rabs_Ropp. apply Rabs_le. split; [|apply sin_le_x; exact Hx].
    destruct (Rle_dec (- x) 1) as [H1|H1].
    + assert (0 <= sin (- x)); [|lra]. apply sin_ge_0; [exact Hx|]. pose proof PI2_3_2. lra.
    + pose proof (SIN_bound (- x)). lra.
Qed.

(* two rotations about the same unit axis: chordal distance at most half the difference of the angles *)
Lemma axq_dist n0 n1 n2 a b : n0*n0 + n1*n1 + n2*n2 = 1 -> qdist (axq n0 n1 n2 a) (axq n0 n1 n2 b) <= Rabs (a - b) / 2.
Proof.
  intros Hn. unfold qdist.
  set (x := a / 2). set (y := b / 2).
  assert (E : qnorm2 (qsub (axq n0 n1 n2 a) (axq n0 n1 n2 b)) = 4 * (sin ((x - y) / 2) * sin ((x - y) / 2))).
  { unfold axq. fold x y. unfold_q.
    replace (4 * (sin ((x - y) / 2) * sin ((x - y) / 2))) with (2 - 2 * cos (2 * ((x - y) / 2))) by (rewrite cos_2a_sin; ring).
    replace (2 * ((x - y) / 2)) with (x - y) by field. rewrite cos_minus.
    pose proof (sin2_cos2 x) as Tx. pose proof (sin2_cos2 y) as Ty. unfold Rsqr in *.
    set (cx := cos x) in *. set (sx := sin x) in *. set (cy := cos y) in *. set (sy := sin y) in *.
    replace ((cx - cy) * (cx - cy) + (n0 * sx - n0 * sy) * (n0 * sx - n0 * sy) + (n1 * sx - n1 * sy) * (n1 * sx - n1 * sy)
             + (n2 * sx - n2 * sy) * (n2 * sx - n2 * sy))
      with ((cx - cy) * (cx - cy) + (n0*n0 + n1*n1 + n2*n2) * ((sx - sy) * (sx - sy))) by ring.
    rewrite Hn. nra. }
  rewrite E. set (u := (x - y) / 2).
  replace (4 * (sin u * sin u)) with ((2 * sin u) * (2 * sin u)) by ring. rewrite sqrt_sq_abs.
  rewrite Rabs_mult, (Rabs_right 2) by lra. pose proof (sin_abs_le u) as S.
  replace (Rabs (a - b) / 2) with (2 * Rabs u).
  - lra.
  - unfold u, x, y. replace ((a / 2 - b / 2) / 2) with ((a - b) * / 4) by field.
    rewrite Rabs_mult, (Rabs_right (/ 4)) by lra. field.
Qed.

(* ---- N-step integration --------------------------------------------------------------------------------- *)
(* a step is [n0; n1; n2; th]: body-frame turn by th >= 0 about the unit axis n.  `integrate f` applies to every step a
   rotation by f(th) about its axis: f = id is the ground-truth trajectory; f = code_angle is what the closed-form
   integrator does with the code's rate (2/dt) sin(th/2) n, whose norm times dt is 2 sin(th/2) *)
Definition good_step (s : list R) : Prop := e s 0 * e s 0 + e s 1 * e s 1 + e s 2 * e s 2 = 1 /\ 0 <= e s 3.
Fixpoint integrate (f : R -> R) (q : list R) (steps : list (list R)) : list R :=
  match steps with
  | [] => q
  | s :: r => integrate f (qmul q (axq (e s 0) (e s 1) (e s 2) (f (e s 3)))) r
  end.
Definition code_angle (th : R) : R := 2 * sin (th / 2).
Fixpoint cubic_sum (steps : list (list R)) : R :=
  match steps with [] => 0 | s :: r => e s 3 * e s 3 * e s 3 / 48 + cubic_sum r end.

Lemma integrate_defect steps : Forall good_step steps -> forall p q, qnorm2 q = 1 ->
  qdist (integrate (fun th => th) p steps) (integrate code_angle q steps) <= qdist p q + cubic_sum steps.
Proof.
  induction 1 as [|s r [Hn Hth] _ IH]; intros p q Hq; cbn [integrate cubic_sum].
  - lra.
  - set (d := axq (e s 0) (e s 1) (e s 2) (e s 3)). set (d' := axq (e s 0) (e s 1) (e s 2) (code_angle (e s 3))).
    assert (Hd : qnorm2 d = 1) by (apply axq_unit; exact Hn).
    assert (Hd' : qnorm2 d' = 1) by (apply axq_unit; exact Hn).
    assert (Hq' : qnorm2 (qmul q d') = 1) by (rewrite qnorm2_mul, Hq, Hd'; ring).
    eapply Rle_trans; [apply (IH (qmul p d) (qmul q d') Hq')|].
    assert (T : qdist (qmul p d) (qmul q d') <= qdist p q + e s 3 * e s 3 * e s 3 / 48).
    { eapply Rle_trans; [apply (qdist_triangle _ (qmul q d))|].
      rewrite (qdist_mul_r p q d Hd), (qdist_mul_l q d d' Hq).
      pose proof (axq_dist (e s 0) (e s 1) (e s 2) (e s 3) (code_angle (e s 3)) Hn) as A. fold d d' in A.
      pose proof (rate_first_order (e s 3) Hth) as [L U]. unfold code_angle in A.
      rewrite Rabs_right in A by lra. lra. }
    lra.
Qed.

(* from the same first attitude: the integrated trajectory stays within  sum th_t^3 / 48  (chordal; twice that as an
   angle to first order) of the ground truth, for every number of steps *)
Lemma integrate_from_first steps q0 : Forall good_step steps -> qnorm2 q0 = 1 ->
  qdist (integrate (fun th => th) q0 steps) (integrate code_angle q0 steps) <= cubic_sum steps.
Proof. intros H Hq. pose proof (integrate_defect steps H q0 q0 Hq) as D. rewrite qdist_refl in D. lra. Qed.

(* ---- the closed-form step of AngularRate on a rate of the form (a/dt) n ------------------------------------ *)
Lemma ar_closed_axis q n0 n1 n2 a dt : n0*n0 + n1*n1 + n2*n2 = 1 -> 0 < a -> 0 < dt ->
  ar_closed q (scale3 (a / dt) [n0; n1; n2]) dt = qmul q (axq n0 n1 n2 a).
Proof.
  intros Hn Ha Hdt. unfold ar_closed, vnorm, scale3. cbn [e nth].
  assert (Hk : sqrt (a / dt * n0 * (a / dt * n0) + a / dt * n1 * (a / dt * n1) + a / dt * n2 * (a / dt * n2)) = a / dt).
  { replace (a / dt * n0 * (a / dt * n0) + a / dt * n1 * (a / dt * n1) + a / dt * n2 * (a / dt * n2))
      with ((a / dt) * (a / dt) * (n0*n0 + n1*n1 + n2*n2)) by ring.
    rewrite Hn, Rmult_1_r, sqrt_sq_abs. apply Rabs_right. apply Rle_ge. apply Rlt_le. apply Rdiv_lt_0_compat; assumption. }
  rewrite Hk. unfold axq. replace (a / dt * dt / 2) with (a / 2) by (field; lra).
  f_equal. list_eq; field; lra.
Qed.

(* EXACT: the closed-form step applied to the rate  (th/dt) n  = code rate * th / (2 sin(th/2))  reproduces the next attitude;
   applied to the code's rate (2/dt) sin(th/2) n it turns by 2 sin(th/2) instead of th *)
Lemma ar_closed_exact q n0 n1 n2 th dt : n0*n0 + n1*n1 + n2*n2 = 1 -> 0 < th -> 0 < dt ->
  ar_closed q (scale3 (th / dt) [n0; n1; n2]) dt = step q n0 n1 n2 th.
Proof. intros. rewrite step_axq. apply ar_closed_axis; assumption. Qed.
Lemma ar_closed_code_rate q n0 n1 n2 th dt : n0*n0 + n1*n1 + n2*n2 = 1 -> 0 < th < 2 * PI -> 0 < dt ->
  ar_closed q (scale3 (2 / dt * sin (th / 2)) [n0; n1; n2]) dt = qmul q (axq n0 n1 n2 (code_angle th)).
Proof.
  intros Hn Hth Hdt. assert (Hs : 0 < sin (th / 2)) by (apply sin_gt_0; lra).
  replace (2 / dt * sin (th / 2)) with (code_angle th / dt) by (unfold code_angle; field; lra).
  apply ar_closed_axis; [exact Hn|unfold code_angle; lra|exact Hdt].
Qed.
