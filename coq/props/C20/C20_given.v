(* C20_given.v — Sensors(quaternions=Q, ...) : the regenerated model of constructor + generate() on a generic
   three-row trajectory, with the generator's draws as explicit inputs, equals the specification-level objects
   of AhrsLib.Rot.  Proof scripts only use ring/field modulo the unit-norm hypotheses, so algebraically
   equivalent rewrites of the source do not break them. *)
From Coq Require Import Reals List Lra.
From AhrsLib Require Import Base Rot.
From AhrsGen Require Import C20gen_R.
Import ListNotations.
Open Scope R_scope.

(* ---- specification vocabulary ---------------------------------------------------------- *)
Definition unit4 (w x y z : R) : Prop := w*w + x*x + y*y + z*z = 1.
(* a global-frame vector expressed in the body frame of the attitude q :  Rspec(q)^T v *)
Definition body (q v : list R) : list R := mvec3 (mtr3 (Rspec q)) v.
Definition add3 (a b : list R) : list R := [e a 0 + e b 0; e a 1 + e b 1; e a 2 + e b 2].
Definition scale3 (k : R) (a : list R) : list R := [k * e a 0; k * e a 1; k * e a 2].
Definition norm3 (a : list R) : R := sqrt (e a 0 * e a 0 + e a 1 * e a 1 + e a 2 * e a 2).
Definition unit3 (a : list R) : list R := [e a 0 / norm3 a; e a 1 / norm3 a; e a 2 / norm3 a].
Definition vecpart (r : list R) : list R := [e r 1; e r 2; e r 3].
(* what QuaternionArray.angular_velocities computes between consecutive attitudes p, q *)
Definition rate (dt : R) (p q : list R) : list R := scale3 (2 / dt) (vecpart (qmul (qconj p) q)).
(* numpy.ptp of a flattened array *)
Definition ptp (l : list R) : R :=
  match l with [] => 0 | a :: t => fold_left Rmax t a - fold_left Rmin t a end.

Ltac unfold_c20 := cbv [body add3 scale3 norm3 unit3 vecpart rate ptp fold_left app]; unfold_rot.

Lemma Rmax_eq2 a a' b b' : a = a' -> b = b' -> Rmax a b = Rmax a' b'. Proof. intros -> ->; reflexivity. Qed.
Lemma Rmin_eq2 a a' b b' : a = a' -> b = b' -> Rmin a b = Rmin a' b'. Proof. intros -> ->; reflexivity. Qed.
Lemma Rminus_eq2 a a' b b' : a = a' -> b = b' -> a - b = a' - b'. Proof. intros -> ->; reflexivity. Qed.
Ltac ptp_eq := apply Rminus_eq2; repeat (first [apply Rmax_eq2 | apply Rmin_eq2]); uring.

(* open a regenerated definition under the three unit-norm hypotheses: constructor gates decided, norms = 1 *)
Ltac open3 := intros; unfold unit4 in *; orient_unit; cbv zeta; norm1; repeat gate_01; repeat gate_abs0.

Section Given.
Variables q0w q0x q0y q0z q1w q1x q1y q1z q2w q2x q2y q2z : R.
Hypothesis U0 : unit4 q0w q0x q0y q0z.
Hypothesis U1 : unit4 q1w q1x q1y q1z.
Hypothesis U2 : unit4 q2w q2x q2y q2z.
Let q0 := [q0w; q0x; q0y; q0z].
Let q1 := [q1w; q1x; q1y; q1z].
Let q2 := [q2w; q2x; q2y; q2z].

(* accelerometers: row i = Rspec(q_i)^T g + acc_noise * (i-th normal draw) *)
Lemma acc_spec g0 g1 g2 m0 m1 m2 sa sm na00 na01 na02 na10 na11 na12 na20 na21 na22 :
  C20_acc_R q0w q0x q0y q0z q1w q1x q1y q1z q2w q2x q2y q2z g0 g1 g2 m0 m1 m2 sa sm na00 na01 na02 na10 na11 na12 na20 na21 na22
  = Val (add3 (body q0 [g0;g1;g2]) (scale3 sa [na00;na01;na02]) ++
         add3 (body q1 [g0;g1;g2]) (scale3 sa [na10;na11;na12]) ++
         add3 (body q2 [g0;g1;g2]) (scale3 sa [na20;na21;na22])).
Proof. unfold C20_acc_R, q0, q1, q2. revert U0 U1 U2. open3. destr_dec; unfold_c20; val_eq; uring. Qed.


(* magnetometers: row i = Rspec(q_i)^T m + sigma * (i-th normal draw), where sigma is the value of the attribute
   mag_noise REPORTED after generate(); sigma is the requested mag_noise whenever the code does not override it.
   True on the pinned tree (override when mag_noise < ptp) and on the repaired tree (never overridden). *)
Definition mag_rows (sigma m0 m1 m2 nm00 nm01 nm02 nm10 nm11 nm12 nm20 nm21 nm22 : R) : list R :=
  add3 (body q0 [m0;m1;m2]) (scale3 sigma [nm00;nm01;nm02]) ++
  add3 (body q1 [m0;m1;m2]) (scale3 sigma [nm10;nm11;nm12]) ++
  add3 (body q2 [m0;m1;m2]) (scale3 sigma [nm20;nm21;nm22]).
Definition mag_clean (m0 m1 m2 : R) : list R := body q0 [m0;m1;m2] ++ body q1 [m0;m1;m2] ++ body q2 [m0;m1;m2].

Ltac sigma_side :=
  let Hn := fresh "Hn" in
  intro Hn; first [ reflexivity
                  | exfalso; apply Hn; match goal with H : _ < _ |- _ => eapply Rlt_le_trans; [exact H|right; ptp_eq] end ].

Lemma mag_spec m0 m1 m2 sm nm00 nm01 nm02 nm10 nm11 nm12 nm20 nm21 nm22 :
  exists sigma,
    C20_mag_R q0w q0x q0y q0z q1w q1x q1y q1z q2w q2x q2y q2z m0 m1 m2 sm nm00 nm01 nm02 nm10 nm11 nm12 nm20 nm21 nm22
    = Val (mag_rows sigma m0 m1 m2 nm00 nm01 nm02 nm10 nm11 nm12 nm20 nm21 nm22 ++ [sigma])
    /\ (~ sm < ptp (mag_clean m0 m1 m2) -> sigma = sm).
Proof.
  unfold C20_mag_R, mag_rows, mag_clean, q0, q1, q2. revert U0 U1 U2. open3.
  try destr_dec; (eexists; split; [apply Val_inj; unfold_c20; list_eq; uring | unfold_c20; sigma_side]).
Qed.

(* normalized_mag=True: each noisy row divided by its own norm *)
Lemma Rmult_eq2 a a' b b' : a = a' -> b = b' -> a * b = a' * b'. Proof. intros -> ->; reflexivity. Qed.
Definition mag_norm_rows (sigma m0 m1 m2 nm00 nm01 nm02 nm10 nm11 nm12 nm20 nm21 nm22 : R) : list R :=
  unit3 (add3 (body q0 [m0;m1;m2]) (scale3 sigma [nm00;nm01;nm02])) ++
  unit3 (add3 (body q1 [m0;m1;m2]) (scale3 sigma [nm10;nm11;nm12])) ++
  unit3 (add3 (body q2 [m0;m1;m2]) (scale3 sigma [nm20;nm21;nm22])).

Lemma mag_norm_spec m0 m1 m2 sm nm00 nm01 nm02 nm10 nm11 nm12 nm20 nm21 nm22 :
  exists sigma,
    C20_mag_norm_R q0w q0x q0y q0z q1w q1x q1y q1z q2w q2x q2y q2z m0 m1 m2 sm nm00 nm01 nm02 nm10 nm11 nm12 nm20 nm21 nm22
    = Val (mag_norm_rows sigma m0 m1 m2 nm00 nm01 nm02 nm10 nm11 nm12 nm20 nm21 nm22 ++ [sigma])
    /\ (~ sm < ptp (mag_clean m0 m1 m2) -> sigma = sm).
Proof.
  unfold C20_mag_norm_R, mag_norm_rows, mag_clean, q0, q1, q2. revert U0 U1 U2. open3.
  try destr_dec; (eexists; split;
    [apply Val_inj; unfold_c20; list_eq;
       try (unfold Rdiv; apply Rmult_eq2; [uring | apply f_equal; apply f_equal; uring])
    | unfold_c20; sigma_side]).
Qed.

(* the body-frame image of a vector has the vector's norm (so a zero-noise normalised row is body(m)/|m|) *)
Lemma body_norm w x y z v0 v1 v2 : unit4 w x y z -> norm3 (body [w;x;y;z] [v0;v1;v2]) = norm3 [v0;v1;v2].
Proof. intros H. unfold unit4 in H. orient_unit. unfold_c20. apply f_equal. uring. Qed.

(* gyroscopes.  w_0 = 0, w_t = rate dt q_(t-1) q_t ; P = ptp of the noise-free rates in deg/s (the three zeros of
   row 0 enter as one 0).  The bias drawn is (u - 1/2) P / 200 deg/s. *)
Definition dt : R := 1 / 100.
Definition w1 : list R := rate dt q0 q1.
Definition w2 : list R := rate dt q1 q2.
Definition r2d : R := 180 / PI.
Definition d2r : R := PI / 180.
Definition Pdeg : R := ptp (0 :: scale3 r2d w1 ++ scale3 r2d w2).
Definition bias_deg (u0 u1 u2 : R) : list R := scale3 (Pdeg / 200) [u0 - 1/2; u1 - 1/2; u2 - 1/2].

Lemma gyro_rad_spec sg sm m0 m1 m2 u0 u1 u2 ng00 ng01 ng02 ng10 ng11 ng12 ng20 ng21 ng22 :
  let b := scale3 (d2r * d2r) (bias_deg u0 u1 u2) in
  C20_gyro_rad_R q0w q0x q0y q0z q1w q1x q1y q1z q2w q2x q2y q2z sg sm m0 m1 m2 u0 u1 u2 ng00 ng01 ng02 ng10 ng11 ng12 ng20 ng21 ng22
  = Val ((add3 (add3 [0;0;0] b) (scale3 (sg * d2r) [ng00;ng01;ng02]) ++
          add3 (add3 w1 b) (scale3 (sg * d2r) [ng10;ng11;ng12]) ++
          add3 (add3 w2 b) (scale3 (sg * d2r) [ng20;ng21;ng22])) ++ b ++ ([0;0;0] ++ w1 ++ w2)).
Proof.
  unfold C20_gyro_rad_R, bias_deg, Pdeg, w1, w2, dt, r2d, d2r, q0, q1, q2. revert U0 U1 U2. open3.
  assert (HPI : PI <> 0) by (pose proof PI_RGT_0; lra).
  try destr_dec; unfold_c20;
  match goal with |- context [Rmax ?a ?b - ?c] => set (P := Rmax a b - c) end;
  match goal with |- context [(?a - ?c) / 200] => replace (a - c) with P by (symmetry; subst P; ptp_eq) end;
  clearbody P; val_eq; field; exact HPI.
Qed.

Lemma gyro_deg_spec sg sm m0 m1 m2 u0 u1 u2 ng00 ng01 ng02 ng10 ng11 ng12 ng20 ng21 ng22 :
  let b := bias_deg u0 u1 u2 in
  C20_gyro_deg_R q0w q0x q0y q0z q1w q1x q1y q1z q2w q2x q2y q2z sg sm m0 m1 m2 u0 u1 u2 ng00 ng01 ng02 ng10 ng11 ng12 ng20 ng21 ng22
  = Val ((add3 (add3 [0;0;0] b) (scale3 sg [ng00;ng01;ng02]) ++
          add3 (add3 (scale3 r2d w1) b) (scale3 sg [ng10;ng11;ng12]) ++
          add3 (add3 (scale3 r2d w2) b) (scale3 sg [ng20;ng21;ng22])) ++ b ++ ([0;0;0] ++ w1 ++ w2)).
Proof.
  unfold C20_gyro_deg_R, bias_deg, Pdeg, w1, w2, dt, r2d, d2r, q0, q1, q2. revert U0 U1 U2. open3.
  assert (HPI : PI <> 0) by (pose proof PI_RGT_0; lra).
  try destr_dec; unfold_c20;
  match goal with |- context [Rmax ?a ?b - ?c] => set (P := Rmax a b - c) end;
  match goal with |- context [(?a - ?c) / 200] => replace (a - c) with P by (symmetry; subst P; ptp_eq) end;
  clearbody P; val_eq; field; exact HPI.
Qed.

End Given.
