(* C20_rows.v — the row-wise model of the accelerometer / magnetometer arrays for a trajectory of ANY length, and its
   relation to the regenerated three-row instance.  generate() fills row i from rotations[i] and the i-th draw only
   (structural check of the regenerated DAG: evidence `row_locality`; windows of real N-row runs are compared with the
   three-row model by the correspondence `@window`), so the N-row array is `rows ref level qs draws`. *)
From Coq Require Import Reals List Lra Lia.
From AhrsLib Require Import Base Rot.
From AhrsProps Require Import C20_spec.
Import ListNotations.
Open Scope R_scope.

Fixpoint rows (ref : list R) (level : R) (qs draws : list (list R)) : list R :=
  match qs, draws with
  | q :: qs', n :: ns' => add3 (body q ref) (scale3 level n) ++ rows ref level qs' ns'
  | _, _ => []
  end.
Definition row3 (l : list R) (i : nat) : list R := [nth (3 * i) l 0; nth (3 * i + 1) l 0; nth (3 * i + 2) l 0].

Lemma rows_length ref level qs : forall draws, length draws = length qs -> length (rows ref level qs draws) = (3 * length qs)%nat.
Proof.
  induction qs as [|q qs IH]; intros [|n ns] H; simpl in *; try lia; try discriminate.
  rewrite IH by lia. lia.
Qed.

(* every row of the N-row array is the body-frame reference of ITS attitude plus level * ITS draw *)
Lemma rows_row ref level qs : forall draws i, length draws = length qs -> (i < length qs)%nat ->
  row3 (rows ref level qs draws) i = add3 (body (nth i qs []) ref) (scale3 level (nth i draws [])).
Proof.
  induction qs as [|q qs IH]; intros [|n ns] i H Hi; simpl in *; try lia; try discriminate.
  destruct i as [|i].
  - reflexivity.
  - unfold row3. replace (3 * S i)%nat with (S (S (S (3 * i)))) by lia.
    cbn [add3 app nth Nat.add]. rewrite <- (IH ns i) by lia. reflexivity.
Qed.

(* zero level: every row is exactly the body-frame reference, for every N *)
Lemma rows_zero ref qs : forall draws i, length draws = length qs -> (i < length qs)%nat ->
  row3 (rows ref 0 qs draws) i = body (nth i qs []) ref.
Proof.
  intros. rewrite rows_row by assumption. unfold add3, scale3, body, mvec3. cbn [e nth]. list_eq; ring.
Qed.

(* the three-row specification used by C20_acc / C20_mag is the instance N = 3 *)
Lemma rows_three ref level q0 q1 q2 n0 n1 n2 :
  rows ref level [q0;q1;q2] [n0;n1;n2]
  = add3 (body q0 ref) (scale3 level n0) ++ add3 (body q1 ref) (scale3 level n1) ++ add3 (body q2 ref) (scale3 level n2).
Proof. reflexivity. Qed.
