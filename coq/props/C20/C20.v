(* C20.v — property C20: synthetic sensor data agree with their own ground truth.
   Only statements, each closed by `exact`-style glue, each followed by Print Assumptions.
   (continued in C20_any_length.v: every trajectory length, re-integration; C20_fixed.v: magnetometer clause after the repair;
   C20_thorough.v: other sampling rates)
   All statements are about the regenerated model of Sensors(...) (constructor + generate(), the module-level random
   generator replaced by a stream of symbolic draws) on a generic three-row trajectory at 100 Hz. *)
From Coq Require Import Reals List Lra.
From AhrsLib Require Import Base Rot.
From AhrsGen Require Import C20gen_R.
From AhrsProps Require Import C20_spec C20_acc C20_mag C20_magnorm C20_gyro_rad C20_gyro_deg C20_repr C20_rand C20_firstorder C20_euler.
Import ListNotations.
Open Scope R_scope.

(* accelerometer row i = Rspec(q_i)^T g + acc_noise * draw_i for every noise level, reference vectors and magnetometer
   setting; with acc_noise = 0 the rows are exactly the body-frame reference gravity *)
Theorem C20_acc_is_body_gravity : forall q0w q0x q0y q0z q1w q1x q1y q1z q2w q2x q2y q2z,
  unit4 q0w q0x q0y q0z -> unit4 q1w q1x q1y q1z -> unit4 q2w q2x q2y q2z ->
  forall g0 g1 g2 m0 m1 m2 sa sm na00 na01 na02 na10 na11 na12 na20 na21 na22,
  C20_acc_R q0w q0x q0y q0z q1w q1x q1y q1z q2w q2x q2y q2z g0 g1 g2 m0 m1 m2 sa sm na00 na01 na02 na10 na11 na12 na20 na21 na22
  = Val (add3 (body [q0w;q0x;q0y;q0z] [g0;g1;g2]) (scale3 sa [na00;na01;na02]) ++
         add3 (body [q1w;q1x;q1y;q1z] [g0;g1;g2]) (scale3 sa [na10;na11;na12]) ++
         add3 (body [q2w;q2x;q2y;q2z] [g0;g1;g2]) (scale3 sa [na20;na21;na22])) /\
  C20_acc_R q0w q0x q0y q0z q1w q1x q1y q1z q2w q2x q2y q2z g0 g1 g2 m0 m1 m2 0 sm na00 na01 na02 na10 na11 na12 na20 na21 na22
  = Val (body [q0w;q0x;q0y;q0z] [g0;g1;g2] ++ body [q1w;q1x;q1y;q1z] [g0;g1;g2] ++ body [q2w;q2x;q2y;q2z] [g0;g1;g2]).
Proof. intros. split; [apply acc_spec|apply acc_zero]; assumption. Qed.
Print Assumptions C20_acc_is_body_gravity.

(* magnetometers, on the pinned tree only PARTIAL: row i = Rspec(q_i)^T m + sigma * draw_i where sigma is the REPORTED
   attribute mag_noise (reported = applied), and sigma is the requested level whenever requested >= ptp(noise-free
   magnetometers).  What is missing on the pinned tree: sigma = requested for requested < ptp, in particular for 0
   (refuted: C20_mag_zero_noise_refuted; restored by fixes/C20-mag-noise-override.patch: C20_fixed.v) *)
Theorem C20_mag_is_body_field_partial : forall q0w q0x q0y q0z q1w q1x q1y q1z q2w q2x q2y q2z,
  unit4 q0w q0x q0y q0z -> unit4 q1w q1x q1y q1z -> unit4 q2w q2x q2y q2z ->
  forall m0 m1 m2 sm nm00 nm01 nm02 nm10 nm11 nm12 nm20 nm21 nm22,
  let q0 := [q0w;q0x;q0y;q0z] in let q1 := [q1w;q1x;q1y;q1z] in let q2 := [q2w;q2x;q2y;q2z] in let m := [m0;m1;m2] in
  exists sigma,
    C20_mag_R q0w q0x q0y q0z q1w q1x q1y q1z q2w q2x q2y q2z m0 m1 m2 sm nm00 nm01 nm02 nm10 nm11 nm12 nm20 nm21 nm22
    = Val ((add3 (body q0 m) (scale3 sigma [nm00;nm01;nm02]) ++ add3 (body q1 m) (scale3 sigma [nm10;nm11;nm12]) ++
            add3 (body q2 m) (scale3 sigma [nm20;nm21;nm22])) ++ [sigma])
    /\ (~ sm < ptp (body q0 m ++ body q1 m ++ body q2 m) -> sigma = sm).
Proof. intros. apply mag_spec; assumption. Qed.
Print Assumptions C20_mag_is_body_field_partial.

(* normalized_mag=True: every row is the noisy body-frame field divided by its own norm; same clause on sigma *)
Theorem C20_mag_normalised_partial : forall q0w q0x q0y q0z q1w q1x q1y q1z q2w q2x q2y q2z,
  unit4 q0w q0x q0y q0z -> unit4 q1w q1x q1y q1z -> unit4 q2w q2x q2y q2z ->
  forall m0 m1 m2 sm nm00 nm01 nm02 nm10 nm11 nm12 nm20 nm21 nm22,
  let q0 := [q0w;q0x;q0y;q0z] in let q1 := [q1w;q1x;q1y;q1z] in let q2 := [q2w;q2x;q2y;q2z] in let m := [m0;m1;m2] in
  exists sigma,
    C20_mag_norm_R q0w q0x q0y q0z q1w q1x q1y q1z q2w q2x q2y q2z m0 m1 m2 sm nm00 nm01 nm02 nm10 nm11 nm12 nm20 nm21 nm22
    = Val ((unit3 (add3 (body q0 m) (scale3 sigma [nm00;nm01;nm02])) ++ unit3 (add3 (body q1 m) (scale3 sigma [nm10;nm11;nm12])) ++
            unit3 (add3 (body q2 m) (scale3 sigma [nm20;nm21;nm22]))) ++ [sigma])
    /\ (~ sm < ptp (body q0 m ++ body q1 m ++ body q2 m) -> sigma = sm)
    /\ norm3 (body q0 m) = norm3 m.
Proof.
  intros. destruct (mag_norm_spec q0w q0x q0y q0z q1w q1x q1y q1z q2w q2x q2y q2z H H0 H1 m0 m1 m2 sm
                      nm00 nm01 nm02 nm10 nm11 nm12 nm20 nm21 nm22) as (sg & E & S).
  exists sg. split; [exact E|]. split; [exact S|]. apply body_norm; assumption.
Qed.
Print Assumptions C20_mag_normalised_partial.

(* the reported gyroscope bias is the applied one, in both unit settings: output = gyroscopes ++ biases_gyroscopes ++ ang_vel,
   gyroscopes row t = (unit) w_t + reported bias + (noise level in the output unit) * draw_t.  In radians the bias
   (u - 1/2) Pdeg / 200 [deg/s] is multiplied by DEG2RAD twice - reported and applied alike. *)
Theorem C20_bias_reported_is_bias_applied : forall q0w q0x q0y q0z q1w q1x q1y q1z q2w q2x q2y q2z,
  unit4 q0w q0x q0y q0z -> unit4 q1w q1x q1y q1z -> unit4 q2w q2x q2y q2z ->
  forall sg sm m0 m1 m2 u0 u1 u2 ng00 ng01 ng02 ng10 ng11 ng12 ng20 ng21 ng22,
  let q0 := [q0w;q0x;q0y;q0z] in let q1 := [q1w;q1x;q1y;q1z] in let q2 := [q2w;q2x;q2y;q2z] in
  let w1 := rate dt100 q0 q1 in let w2 := rate dt100 q1 q2 in
  let bd := scale3 (Pdeg dt100 q0 q1 q2 / 200) [u0 - 1/2; u1 - 1/2; u2 - 1/2] in
  let br := scale3 (d2r * d2r) bd in
  C20_gyro_rad_R q0w q0x q0y q0z q1w q1x q1y q1z q2w q2x q2y q2z sg sm m0 m1 m2 u0 u1 u2 ng00 ng01 ng02 ng10 ng11 ng12 ng20 ng21 ng22
  = Val ((add3 (add3 [0;0;0] br) (scale3 (sg * d2r) [ng00;ng01;ng02]) ++ add3 (add3 w1 br) (scale3 (sg * d2r) [ng10;ng11;ng12]) ++
          add3 (add3 w2 br) (scale3 (sg * d2r) [ng20;ng21;ng22])) ++ br ++ ([0;0;0] ++ w1 ++ w2)) /\
  C20_gyro_deg_R q0w q0x q0y q0z q1w q1x q1y q1z q2w q2x q2y q2z sg sm m0 m1 m2 u0 u1 u2 ng00 ng01 ng02 ng10 ng11 ng12 ng20 ng21 ng22
  = Val ((add3 (add3 [0;0;0] bd) (scale3 sg [ng00;ng01;ng02]) ++ add3 (add3 (scale3 r2d w1) bd) (scale3 sg [ng10;ng11;ng12]) ++
          add3 (add3 (scale3 r2d w2) bd) (scale3 sg [ng20;ng21;ng22])) ++ bd ++ ([0;0;0] ++ w1 ++ w2)).
Proof. intros. split; [apply gyro_rad_spec|apply gyro_deg_spec]; assumption. Qed.
Print Assumptions C20_bias_reported_is_bias_applied.

(* the noise-free, bias-corrected gyroscope is exactly what QuaternionArray.angular_velocities computes between consecutive
   attitudes, rate dt p q = (2/dt) vec(p* (x) q)  (w_0 = 0); for a step that turns by th about a unit body axis n this is
   (2/dt) sin(th/2) n, and it falls short of the true rate (th/dt) n by at most th^3/(24 dt) per unit of |n_k| *)
Theorem C20_gyro_first_order :
  (forall q0w q0x q0y q0z q1w q1x q1y q1z q2w q2x q2y q2z,
   unit4 q0w q0x q0y q0z -> unit4 q1w q1x q1y q1z -> unit4 q2w q2x q2y q2z ->
   forall sm m0 m1 m2 u0 u1 u2 ng00 ng01 ng02 ng10 ng11 ng12 ng20 ng21 ng22,
   let q0 := [q0w;q0x;q0y;q0z] in let q1 := [q1w;q1x;q1y;q1z] in let q2 := [q2w;q2x;q2y;q2z] in
   let w1 := rate dt100 q0 q1 in let w2 := rate dt100 q1 q2 in
   let br := bias_rad dt100 q0 q1 q2 u0 u1 u2 in let bd := bias_deg dt100 q0 q1 q2 u0 u1 u2 in
   C20_gyro_rad_R q0w q0x q0y q0z q1w q1x q1y q1z q2w q2x q2y q2z 0 sm m0 m1 m2 u0 u1 u2 ng00 ng01 ng02 ng10 ng11 ng12 ng20 ng21 ng22
   = Val ((add3 [0;0;0] br ++ add3 w1 br ++ add3 w2 br) ++ br ++ ([0;0;0] ++ w1 ++ w2)) /\
   C20_gyro_deg_R q0w q0x q0y q0z q1w q1x q1y q1z q2w q2x q2y q2z 0 sm m0 m1 m2 u0 u1 u2 ng00 ng01 ng02 ng10 ng11 ng12 ng20 ng21 ng22
   = Val ((add3 [0;0;0] bd ++ add3 (scale3 r2d w1) bd ++ add3 (scale3 r2d w2) bd) ++ bd ++ ([0;0;0] ++ w1 ++ w2))) /\
  (forall w x y z n0 n1 n2 th dt, unit4 w x y z ->
   rate dt [w;x;y;z] (step [w;x;y;z] n0 n1 n2 th) = scale3 (2 / dt * sin (th / 2)) [n0; n1; n2]) /\
  (forall th, 0 <= th -> 0 <= th - 2 * sin (th / 2) <= th * th * th / 24).
Proof.
  split; [|split].
  - intros. split; [apply gyro_rad_zero|apply gyro_deg_zero]; assumption.
  - intros. apply rate_of_step; assumption.
  - exact rate_first_order.
Qed.
Print Assumptions C20_gyro_first_order.

(* rotations, quaternions and angular positions of a given trajectory are images of the same rows: the matrices are the
   textbook matrices of the quaternions (proper rotations) and, away from gimbal lock, equal Rz(yaw) Ry(pitch) Rx(roll) of the
   reported angular positions *)
Theorem C20_representations_agree : forall q0w q0x q0y q0z q1w q1x q1y q1z q2w q2x q2y q2z,
  unit4 q0w q0x q0y q0z -> unit4 q1w q1x q1y q1z -> unit4 q2w q2x q2y q2z ->
  forall m0 m1 m2 sm,
  let q0 := [q0w;q0x;q0y;q0z] in let q1 := [q1w;q1x;q1y;q1z] in let q2 := [q2w;q2x;q2y;q2z] in
  C20_repr_R q0w q0x q0y q0z q1w q1x q1y q1z q2w q2x q2y q2z m0 m1 m2 sm
  = Val ((q0 ++ q1 ++ q2) ++ (Rspec q0 ++ Rspec q1 ++ Rspec q2) ++ (rpy_of q0 ++ rpy_of q1 ++ rpy_of q2))
  /\ SO3 (Rspec q0) /\ SO3 (Rspec q1) /\ SO3 (Rspec q2)
  /\ (forall w x y z, unit4 w x y z -> -1 < 2 * (w*y - z*x) < 1 ->
      Rspec [w;x;y;z] = Rzyx (e (rpy_of [w;x;y;z]) 0) (e (rpy_of [w;x;y;z]) 1) (e (rpy_of [w;x;y;z]) 2)).
Proof.
  intros. split; [apply repr_spec; assumption|]. repeat split; try (apply Rspec_SO3; assumption).
  intros. apply rpy_of_is_euler; assumption.
Qed.
Print Assumptions C20_representations_agree.

(* random route: QuaternionArray(rpy=angles), the constructor Sensors uses on its generated angular positions, returns
   the unit quaternion qZ(yaw) qY(pitch) qX(roll) and to_DCM() gives its matrix, which is Rz(yaw) Ry(pitch) Rx(roll) *)
Theorem C20_random_route_representations : forall ro pi ya,
  C20_from_rpy_R ro pi ya = Val (q_of_rpy ro pi ya ++ Rspec (q_of_rpy ro pi ya)) /\
  qnorm2 (q_of_rpy ro pi ya) = 1 /\ Rspec (q_of_rpy ro pi ya) = Rzyx ro pi ya.
Proof. intros. split; [apply from_rpy_spec|]. split; [apply q_of_rpy_unit|apply Rspec_q_of_rpy]. Qed.
Print Assumptions C20_random_route_representations.

(* the hypotheses are inhabited by a non-stationary trajectory: identity, then (3/5, 4/5, 0, 0), then a half turn about x;
   its ground-truth rate between the first two rows is (2/dt) * 4/5 about x *)
Example C20_nonvacuous : unit4 1 0 0 0 /\ unit4 (3/5) (4/5) 0 0 /\ unit4 0 1 0 0 /\
  rate dt100 [1;0;0;0] [3/5; 4/5; 0; 0] = [160; 0; 0] /\ body [3/5; 4/5; 0; 0] [0;0;1] = [0; 24/25; -7/25].
Proof. unfold unit4. repeat split; try lra; unfold_c20; list_eq; lra. Qed.
