(* C20_magnorm.v — normalised magnetometers of Sensors(quaternions=Q, ...). *)
From Coq Require Import Reals List Lra.
From AhrsLib Require Import Base Rot.
From AhrsGen Require Import C20gen_R.
From AhrsProps Require Import C20_spec.
Import ListNotations.
Open Scope R_scope.

Section Given.
Variables q0w q0x q0y q0z q1w q1x q1y q1z q2w q2x q2y q2z : R.
Hypothesis U0 : unit4 q0w q0x q0y q0z.
Hypothesis U1 : unit4 q1w q1x q1y q1z.
Hypothesis U2 : unit4 q2w q2x q2y q2z.
Let q0 := [q0w; q0x; q0y; q0z].
Let q1 := [q1w; q1x; q1y; q1z].
Let q2 := [q2w; q2x; q2y; q2z].

Definition mag_cleanN (m0 m1 m2 : R) : list R := body q0 [m0;m1;m2] ++ body q1 [m0;m1;m2] ++ body q2 [m0;m1;m2].

(* normalized_mag=True: each noisy row divided by its own norm *)
Definition mag_norm_rows (sigma m0 m1 m2 nm00 nm01 nm02 nm10 nm11 nm12 nm20 nm21 nm22 : R) : list R :=
  unit3 (add3 (body q0 [m0;m1;m2]) (scale3 sigma [nm00;nm01;nm02])) ++
  unit3 (add3 (body q1 [m0;m1;m2]) (scale3 sigma [nm10;nm11;nm12])) ++
  unit3 (add3 (body q2 [m0;m1;m2]) (scale3 sigma [nm20;nm21;nm22])).

Lemma mag_norm_spec m0 m1 m2 sm nm00 nm01 nm02 nm10 nm11 nm12 nm20 nm21 nm22 :
  exists sigma,
    C20_mag_norm_R q0w q0x q0y q0z q1w q1x q1y q1z q2w q2x q2y q2z m0 m1 m2 sm nm00 nm01 nm02 nm10 nm11 nm12 nm20 nm21 nm22
    = Val (mag_norm_rows sigma m0 m1 m2 nm00 nm01 nm02 nm10 nm11 nm12 nm20 nm21 nm22 ++ [sigma])
    /\ (~ sm < ptp (mag_cleanN m0 m1 m2) -> sigma = sm).
Proof.
  unfold C20_mag_norm_R, mag_norm_rows, mag_cleanN, q0, q1, q2. revert U0 U1 U2. open3.
  try destr_dec; (eexists; split;
    [apply Val_inj; unfold_c20; list_eq;
       try (unfold Rdiv; apply Rmult_eq2; [uring | apply f_equal; apply f_equal; uring])
    | unfold_c20; sigma_side]).
Qed.
End Given.
