(* C20_gyro.v — gyroscopes, reported bias and ground-truth angular velocity of Sensors(quaternions=Q, ...),
   in radians and in degrees. *)
From Coq Require Import Reals List Lra.
From AhrsLib Require Import Base Rot.
From AhrsGen Require Import C20gen_R.
From AhrsProps Require Import C20_spec.
Import ListNotations.
Open Scope R_scope.

Section Given.
Variables q0w q0x q0y q0z q1w q1x q1y q1z q2w q2x q2y q2z : R.
Hypothesis U0 : unit4 q0w q0x q0y q0z.
Hypothesis U1 : unit4 q1w q1x q1y q1z.
Hypothesis U2 : unit4 q2w q2x q2y q2z.
Let q0 := [q0w; q0x; q0y; q0z].
Let q1 := [q1w; q1x; q1y; q1z].
Let q2 := [q2w; q2x; q2y; q2z].

(* w_0 = 0, w_t = rate dt q_(t-1) q_t ; Pdeg = ptp of the noise-free rates in deg/s (the three zeros of row 0 enter
   as one 0).  The bias drawn is (u - 1/2) Pdeg / 200 deg/s; in radians mode it is multiplied by DEG2RAD TWICE, but so
   is the value added to the output: reported = applied. *)
Definition w1 : list R := rate dt100 q0 q1.
Definition w2 : list R := rate dt100 q1 q2.
Definition Pdeg : R := ptp (0 :: scale3 r2d w1 ++ scale3 r2d w2).
Definition bias_deg (u0 u1 u2 : R) : list R := scale3 (Pdeg / 200) [u0 - 1/2; u1 - 1/2; u2 - 1/2].
Definition bias_rad (u0 u1 u2 : R) : list R := scale3 (d2r * d2r) (bias_deg u0 u1 u2).

Ltac gyro_close :=
  let P := fresh "P" in let HPI := fresh "HPI" in
  assert (HPI : PI <> 0) by (pose proof PI_RGT_0; lra);
  try destr_dec; unfold_c20;
  match goal with |- Val ?l = _ => match l with context [Rmax ?a ?b - ?c] => set (P := Rmax a b - c) end end;
  match goal with |- _ = Val ?l => match l with context [Rmax ?a ?b - ?c] =>
     replace (Rmax a b - c) with P by (subst P; ptp_eq_with ltac:(try reflexivity; field; exact HPI)) end end;
  clearbody P; val_eq; field; exact HPI.

Lemma gyro_rad_spec sg sm m0 m1 m2 u0 u1 u2 ng00 ng01 ng02 ng10 ng11 ng12 ng20 ng21 ng22 :
  C20_gyro_rad_R q0w q0x q0y q0z q1w q1x q1y q1z q2w q2x q2y q2z sg sm m0 m1 m2 u0 u1 u2 ng00 ng01 ng02 ng10 ng11 ng12 ng20 ng21 ng22
  = Val ((add3 (add3 [0;0;0] (bias_rad u0 u1 u2)) (scale3 (sg * d2r) [ng00;ng01;ng02]) ++
          add3 (add3 w1 (bias_rad u0 u1 u2)) (scale3 (sg * d2r) [ng10;ng11;ng12]) ++
          add3 (add3 w2 (bias_rad u0 u1 u2)) (scale3 (sg * d2r) [ng20;ng21;ng22]))
         ++ bias_rad u0 u1 u2 ++ ([0;0;0] ++ w1 ++ w2)).
Proof.
  unfold C20_gyro_rad_R, bias_rad, bias_deg, Pdeg, w1, w2, q0, q1, q2. revert U0 U1 U2. open3. gyro_close.
Qed.

Lemma gyro_deg_spec sg sm m0 m1 m2 u0 u1 u2 ng00 ng01 ng02 ng10 ng11 ng12 ng20 ng21 ng22 :
  C20_gyro_deg_R q0w q0x q0y q0z q1w q1x q1y q1z q2w q2x q2y q2z sg sm m0 m1 m2 u0 u1 u2 ng00 ng01 ng02 ng10 ng11 ng12 ng20 ng21 ng22
  = Val ((add3 (add3 [0;0;0] (bias_deg u0 u1 u2)) (scale3 sg [ng00;ng01;ng02]) ++
          add3 (add3 (scale3 r2d w1) (bias_deg u0 u1 u2)) (scale3 sg [ng10;ng11;ng12]) ++
          add3 (add3 (scale3 r2d w2) (bias_deg u0 u1 u2)) (scale3 sg [ng20;ng21;ng22]))
         ++ bias_deg u0 u1 u2 ++ ([0;0;0] ++ w1 ++ w2)).
Proof.
  unfold C20_gyro_deg_R, bias_deg, Pdeg, w1, w2, q0, q1, q2. revert U0 U1 U2. open3. gyro_close.
Qed.
End Given.
