(* C20_firstorder.v — what the ground-truth rate  (2/dt) vec(p* (x) q)  is, and its first-order relation to the true
   angular rate.  Pure mathematics on AhrsLib.Rot (no generated code): it applies to the `rate` terms that the
   regenerated model is proved to output (C20_gyro_*.v). *)
From Coq Require Import Reals List Lra Lia.
From AhrsLib Require Import Base Rot.
From AhrsProps Require Import C20_spec.
Import ListNotations.
Open Scope R_scope.

(* a body-frame rotation by the angle th about the unit axis n during one step: q' = q (x) (cos(th/2), n sin(th/2)) *)
Definition step (q : list R) (n0 n1 n2 th : R) : list R :=
  qmul q [cos (th / 2); n0 * sin (th / 2); n1 * sin (th / 2); n2 * sin (th / 2)].

(* EXACT: the rate computed between q and its successor is (2/dt) sin(th/2) n  (the true constant rate is (th/dt) n) *)
Lemma rate_of_step w x y z n0 n1 n2 th dt : unit4 w x y z ->
  rate dt [w;x;y;z] (step [w;x;y;z] n0 n1 n2 th) = scale3 (2 / dt * sin (th / 2)) [n0; n1; n2].
Proof.
  intros H. unfold unit4 in H. orient_unit. unfold step. set (c := cos (th / 2)). set (s := sin (th / 2)).
  unfold_c20. list_eq; uring.
Qed.

(* the successor is again a unit quaternion *)
Lemma step_unit w x y z n0 n1 n2 th : unit4 w x y z -> n0*n0 + n1*n1 + n2*n2 = 1 ->
  qnorm2 (step [w;x;y;z] n0 n1 n2 th) = 1.
Proof.
  intros H Hn. unfold step. rewrite qnorm2_mul. unfold unit4 in H.
  pose proof (sin2_cos2 (th / 2)) as T. unfold Rsqr in T.
  set (c := cos (th / 2)) in *. set (s := sin (th / 2)) in *.
  unfold_rot. rewrite H.
  replace (c * c + n0 * s * (n0 * s) + n1 * s * (n1 * s) + n2 * s * (n2 * s)) with (c * c + (n0*n0 + n1*n1 + n2*n2) * (s * s)) by ring.
  rewrite Hn. lra.
Qed.

(* x - x^3/6 <= sin x <= x  for x >= 0 *)
Lemma sin_cubic_lower x : 0 <= x -> x - x * x * x / 6 <= sin x.
Proof.
  intros Hx. destruct (Rle_dec x 3) as [H3|H3].
  - assert (HPI : x <= PI) by (pose proof PI2_3_2; lra).
    destruct (SIN x Hx HPI) as [L _]. eapply Rle_trans; [|exact L].
    unfold sin_lb, sin_approx, sin_term. cbn [sum_f_R0 Nat.mul Nat.add fact pow INR].
    replace (INR (fact (2 * 0 + 1))) with 1 by (rewrite INR_IZR_INZ; apply f_equal; vm_compute; reflexivity).
    replace (INR (fact (2 * 1 + 1))) with 6 by (rewrite INR_IZR_INZ; apply f_equal; vm_compute; reflexivity).
    replace (INR (fact (2 * 2 + 1))) with 120 by (rewrite INR_IZR_INZ; apply f_equal; vm_compute; reflexivity).
    replace (INR (fact (2 * 3 + 1))) with 5040 by (rewrite INR_IZR_INZ; apply f_equal; vm_compute; reflexivity).
    cbn [Nat.mul Nat.add pow].
    assert (Hx2 : 0 <= x * x) by nra. assert (Hx2b : x * x <= 9) by nra.
    assert (Hx5 : 0 <= x * x * x * x * x) by (repeat apply Rmult_le_pos; assumption).
    assert (E : x * x * x * x * x / 120 - x * x * x * x * x * (x * x) / 5040 >= 0).
    { replace (x * x * x * x * x / 120 - x * x * x * x * x * (x * x) / 5040)
        with (x * x * x * x * x * ((42 - x * x) / 5040)) by field. nra. }
    lra.
  - assert (Hx3 : 3 < x) by lra. pose proof (SIN_bound x) as [Lb _].
    assert (x * x > 9) by nra. assert (x * x * x > 9 * x) by nra. lra.
Qed.

Lemma sin_le_x x : 0 <= x -> sin x <= x.
Proof. intros [H|<-]; [left; apply sin_lt_x; exact H|rewrite sin_0; lra]. Qed.

(* first-order statement: the computed rate differs from the true rate (th/dt) n, component k, by at most
   |n_k| th^3 / (24 dt)  — for 0 <= th (odd in th otherwise) *)
Lemma rate_first_order th : 0 <= th -> 0 <= th - 2 * sin (th / 2) <= th * th * th / 24.
Proof.
  intros H. assert (H2 : 0 <= th / 2) by lra.
  pose proof (sin_cubic_lower (th / 2) H2) as L. pose proof (sin_le_x (th / 2) H2) as U.
  split; [lra|]. replace (th * th * th / 24) with (2 * ((th / 2) * (th / 2) * (th / 2) / 6)) by field. lra.
Qed.
