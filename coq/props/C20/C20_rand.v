(* C20_rand.v — Sensors(num_samples=N): the trajectory comes from roll-pitch-yaw angles (random_angpos, an external
   source: here three generic rows of angles).  Quaternions, rotations, angular positions and velocities of the
   regenerated model are the images of those angles; accelerometers are the body-frame gravity. *)
From Coq Require Import Reals List Lra.
From AhrsLib Require Import Base Rot.
From AhrsGen Require Import C20gen_R.
From AhrsProps Require Import C20_spec.
Import ListNotations.
Open Scope R_scope.

(* QuaternionArray.from_rpy for one row: q = qZ(yaw) qY(pitch) qX(roll) *)
Definition q_of_rpy (ro pi ya : R) : list R :=
  let cy := cos (ya / 2) in let sy := sin (ya / 2) in let cp := cos (pi / 2) in let sp := sin (pi / 2) in
  let cr := cos (ro / 2) in let sr := sin (ro / 2) in
  [cy*cp*cr + sy*sp*sr; cy*cp*sr - sy*sp*cr; sy*cp*sr + cy*sp*cr; sy*cp*cr - cy*sp*sr].

(* elementary rotations and the aerospace sequence R = Rz(yaw) Ry(pitch) Rx(roll) *)
Definition Rx (a : R) : list R := [1;0;0; 0;cos a;- sin a; 0;sin a;cos a].
Definition Ry (a : R) : list R := [cos a;0;sin a; 0;1;0; - sin a;0;cos a].
Definition Rz (a : R) : list R := [cos a;- sin a;0; sin a;cos a;0; 0;0;1].
Definition Rzyx (ro pi ya : R) : list R := mmul3 (Rz ya) (mmul3 (Ry pi) (Rx ro)).

(* name cos/sin of every angle occurring in the goal, keeping only  c*c + s*s = 1 *)
Ltac trig_abs :=
  repeat match goal with |- context [cos ?a] =>
    let c := fresh "c" in let s := fresh "s" in let T := fresh "T" in
    pose proof (sin2_cos2 a) as T; unfold Rsqr in T; rewrite Rplus_comm in T;
    set (c := cos a) in *; set (s := sin a) in *; clearbody c s end.
Ltac half_angles :=
  repeat match goal with |- context [(1 / 2) * ?a] => replace ((1 / 2) * a) with (a / 2) by field end.
(* ring modulo the nine oriented Pythagorean identities (whatever their names) *)
Ltac tring :=
  lazymatch goal with
  | A : _ * _ = 1 - _, B : _ * _ = 1 - _, C : _ * _ = 1 - _, D : _ * _ = 1 - _, E : _ * _ = 1 - _,
    F : _ * _ = 1 - _, G : _ * _ = 1 - _, H : _ * _ = 1 - _, I : _ * _ = 1 - _ |- _ => ring [A B C D E F G H I]
  end.
Ltac tnorm1 :=
  repeat (match goal with
  | |- context [sqrt ?e] =>
      let H := fresh "Hn" in assert (H : e = 1) by (div1; tring); rewrite H; clear H; rewrite sqrt_1
  end; div1).
Ltac tgate_abs0 :=
  match goal with
  | |- context [Rle_dec (Rabs ?e) ?c] =>
      let H := fresh "Hg" in assert (H : Rabs e <= c) by (replace e with 0 by tring; rewrite Rabs_R0; lra);
      destruct (Rle_dec (Rabs e) c); [clear H|contradiction]
  end.
Ltac open_rand := cbv zeta; half_angles; trig_abs; orient_unit; tnorm1; repeat gate_01; repeat tgate_abs0.

Section Rand.
Variables ro0 pi0 ya0 ro1 pi1 ya1 ro2 pi2 ya2 : R.
Let q0 := q_of_rpy ro0 pi0 ya0.
Let q1 := q_of_rpy ro1 pi1 ya1.
Let q2 := q_of_rpy ro2 pi2 ya2.

(* output = quaternions ++ rotations ++ ang_pos ++ ang_vel ; ang_vel repeats the first rate (vstack((w[0], w))) *)
Lemma rand_repr_spec m0 m1 m2 sm :
  C20_rand_repr_R ro0 pi0 ya0 ro1 pi1 ya1 ro2 pi2 ya2 m0 m1 m2 sm
  = Val ((q0 ++ q1 ++ q2) ++ (Rspec q0 ++ Rspec q1 ++ Rspec q2) ++ [ro0;pi0;ya0; ro1;pi1;ya1; ro2;pi2;ya2]
         ++ (rate dt100 q0 q1 ++ rate dt100 q0 q1 ++ rate dt100 q1 q2)).
Proof.
  unfold q0, q1, q2, q_of_rpy. unfold_c20. unfold C20_rand_repr_R. open_rand.
  try destr_dec; val_eq; tring.
Qed.

Lemma rand_acc_spec g0 g1 g2 m0 m1 m2 sa sm na00 na01 na02 na10 na11 na12 na20 na21 na22 :
  C20_rand_acc_R ro0 pi0 ya0 ro1 pi1 ya1 ro2 pi2 ya2 g0 g1 g2 m0 m1 m2 sa sm na00 na01 na02 na10 na11 na12 na20 na21 na22
  = Val (add3 (body q0 [g0;g1;g2]) (scale3 sa [na00;na01;na02]) ++
         add3 (body q1 [g0;g1;g2]) (scale3 sa [na10;na11;na12]) ++
         add3 (body q2 [g0;g1;g2]) (scale3 sa [na20;na21;na22])).
Proof.
  unfold q0, q1, q2, q_of_rpy. unfold_c20. unfold C20_rand_acc_R. open_rand.
  try destr_dec; val_eq; tring.
Qed.
End Rand.

(* the quaternion built from the angles is a unit quaternion and its matrix is Rz(yaw) Ry(pitch) Rx(roll):
   angular positions, quaternions and rotations of the random route describe the same attitude *)
Lemma q_of_rpy_unit ro pi ya : qnorm2 (q_of_rpy ro pi ya) = 1.
Proof.
  unfold q_of_rpy. unfold_rot.
  pose proof (sin2_cos2 (ya / 2)) as A. pose proof (sin2_cos2 (pi / 2)) as B. pose proof (sin2_cos2 (ro / 2)) as C.
  unfold Rsqr in *. set (cy := cos (ya / 2)) in *. set (sy := sin (ya / 2)) in *. set (cp := cos (pi / 2)) in *.
  set (sp := sin (pi / 2)) in *. set (cr := cos (ro / 2)) in *. set (sr := sin (ro / 2)) in *.
  replace (_ + _ + _ + _) with ((sy * sy + cy * cy) * (sp * sp + cp * cp) * (sr * sr + cr * cr)) by ring.
  rewrite A, B, C. ring.
Qed.

Lemma Rspec_q_of_rpy ro pi ya : Rspec (q_of_rpy ro pi ya) = Rzyx ro pi ya.
Proof.
  unfold Rzyx, Rx, Ry, Rz, q_of_rpy.
  replace (cos ya) with (cos (2 * (ya / 2))) by (f_equal; field).
  replace (sin ya) with (sin (2 * (ya / 2))) by (f_equal; field).
  replace (cos pi) with (cos (2 * (pi / 2))) by (f_equal; field).
  replace (sin pi) with (sin (2 * (pi / 2))) by (f_equal; field).
  replace (cos ro) with (cos (2 * (ro / 2))) by (f_equal; field).
  replace (sin ro) with (sin (2 * (ro / 2))) by (f_equal; field).
  rewrite !cos_2a, !sin_2a.
  pose proof (sin2_cos2 (ya / 2)) as A. pose proof (sin2_cos2 (pi / 2)) as B. pose proof (sin2_cos2 (ro / 2)) as C.
  unfold Rsqr in *. set (cy := cos (ya / 2)) in *. set (sy := sin (ya / 2)) in *. set (cp := cos (pi / 2)) in *.
  set (sp := sin (pi / 2)) in *. set (cr := cos (ro / 2)) in *. set (sr := sin (ro / 2)) in *.
  assert (A' : cy * cy = 1 - sy * sy) by lra. assert (B' : cp * cp = 1 - sp * sp) by lra. assert (C' : cr * cr = 1 - sr * sr) by lra.
  unfold_rot. list_eq; ring [A' B' C'].
Qed.
