(* C20_rand.v — Sensors(num_samples=N) builds its trajectory with QuaternionArray(rpy=ang_pos) from roll-pitch-yaw
   angles (random_angpos, an external source).  That constructor, regenerated for a generic row of angles, returns
   the unit quaternion qZ(yaw) qY(pitch) qX(roll) whose matrix is Rz(yaw) Ry(pitch) Rx(roll): angular positions,
   quaternions and rotations of the random route describe the same attitudes.  From there on the random route is
   the given-quaternion pipeline (C20_acc/mag/gyro/repr); the glue between the two (the full three-row regenerated
   models C20_rand_acc / C20_rand_repr) is tied to the code by the float correspondence and explored by the search. *)
From Coq Require Import Reals List Lra.
From AhrsLib Require Import Base Rot.
From AhrsGen Require Import C20gen_R.
From AhrsProps Require Import C20_spec.
Import ListNotations.
Open Scope R_scope.

(* name cos/sin of every angle occurring in the goal, keeping only  c*c + s*s = 1 *)
Ltac trig_abs :=
  repeat match goal with |- context [cos ?a] =>
    let c := fresh "c" in let s := fresh "s" in let T := fresh "T" in
    pose proof (sin2_cos2 a) as T; unfold Rsqr in T; rewrite Rplus_comm in T;
    set (c := cos a) in *; set (s := sin a) in *; clearbody c s end.
Ltac half_angles :=
  repeat match goal with |- context [(1 / 2) * ?a] => replace ((1 / 2) * a) with (a / 2) by field end.

(* the regenerated QuaternionArray(rpy=...) row (normalised twice by the code) and its matrix *)
Lemma from_rpy_spec ro pi ya :
  C20_from_rpy_R ro pi ya = Val (q_of_rpy ro pi ya ++ Rspec (q_of_rpy ro pi ya)).
Proof.
  unfold q_of_rpy. unfold_c20. unfold C20_from_rpy_R. cbv zeta. half_angles. trig_abs. orient_unit.
  norm1. gates. val_eq; uring.
Qed.

(* the quaternion built from the angles is a unit quaternion and its matrix is Rz(yaw) Ry(pitch) Rx(roll):
   angular positions, quaternions and rotations of the random route describe the same attitude *)
Lemma q_of_rpy_unit ro pi ya : qnorm2 (q_of_rpy ro pi ya) = 1.
Proof.
  unfold q_of_rpy. unfold_rot.
  pose proof (sin2_cos2 (ya / 2)) as A. pose proof (sin2_cos2 (pi / 2)) as B. pose proof (sin2_cos2 (ro / 2)) as C.
  unfold Rsqr in *. set (cy := cos (ya / 2)) in *. set (sy := sin (ya / 2)) in *. set (cp := cos (pi / 2)) in *.
  set (sp := sin (pi / 2)) in *. set (cr := cos (ro / 2)) in *. set (sr := sin (ro / 2)) in *.
  replace (_ + _ + _ + _) with ((sy * sy + cy * cy) * (sp * sp + cp * cp) * (sr * sr + cr * cr)) by ring.
  rewrite A, B, C. ring.
Qed.

Lemma Rspec_q_of_rpy ro pi ya : Rspec (q_of_rpy ro pi ya) = Rzyx ro pi ya.
Proof.
  unfold Rzyx, Rx, Ry, Rz, q_of_rpy.
  replace (cos ya) with (cos (2 * (ya / 2))) by (f_equal; field).
  replace (sin ya) with (sin (2 * (ya / 2))) by (f_equal; field).
  replace (cos pi) with (cos (2 * (pi / 2))) by (f_equal; field).
  replace (sin pi) with (sin (2 * (pi / 2))) by (f_equal; field).
  replace (cos ro) with (cos (2 * (ro / 2))) by (f_equal; field).
  replace (sin ro) with (sin (2 * (ro / 2))) by (f_equal; field).
  rewrite !cos_2a, !sin_2a.
  pose proof (sin2_cos2 (ya / 2)) as A. pose proof (sin2_cos2 (pi / 2)) as B. pose proof (sin2_cos2 (ro / 2)) as C.
  unfold Rsqr in *. set (cy := cos (ya / 2)) in *. set (sy := sin (ya / 2)) in *. set (cp := cos (pi / 2)) in *.
  set (sp := sin (pi / 2)) in *. set (cr := cos (ro / 2)) in *. set (sr := sin (ro / 2)) in *.
  assert (A' : cy * cy = 1 - sy * sy) by lra. assert (B' : cp * cp = 1 - sp * sp) by lra. assert (C' : cr * cr = 1 - sr * sr) by lra.
  unfold_rot. list_eq; ring [A' B' C'].
Qed.
