(* C20_acc.v — accelerometers of Sensors(quaternions=Q, ...) on a generic three-row trajectory. *)
From Coq Require Import Reals List Lra.
From AhrsLib Require Import Base Rot.
From AhrsGen Require Import C20gen_R.
From AhrsProps Require Import C20_spec.
Import ListNotations.
Open Scope R_scope.

Section Given.
Variables q0w q0x q0y q0z q1w q1x q1y q1z q2w q2x q2y q2z : R.
Hypothesis U0 : unit4 q0w q0x q0y q0z.
Hypothesis U1 : unit4 q1w q1x q1y q1z.
Hypothesis U2 : unit4 q2w q2x q2y q2z.

(* row i = Rspec(q_i)^T g + acc_noise * (i-th normal draw), whatever the other settings *)
Lemma acc_spec g0 g1 g2 m0 m1 m2 sa sm na00 na01 na02 na10 na11 na12 na20 na21 na22 :
  C20_acc_R q0w q0x q0y q0z q1w q1x q1y q1z q2w q2x q2y q2z g0 g1 g2 m0 m1 m2 sa sm na00 na01 na02 na10 na11 na12 na20 na21 na22
  = Val (add3 (body [q0w;q0x;q0y;q0z] [g0;g1;g2]) (scale3 sa [na00;na01;na02]) ++
         add3 (body [q1w;q1x;q1y;q1z] [g0;g1;g2]) (scale3 sa [na10;na11;na12]) ++
         add3 (body [q2w;q2x;q2y;q2z] [g0;g1;g2]) (scale3 sa [na20;na21;na22])).
Proof. unfold_c20. unfold C20_acc_R. revert U0 U1 U2. open3. try destr_dec; val_eq; uring. Qed.

(* zero accelerometer noise: the rows are exactly the body-frame gravity *)
Lemma acc_zero g0 g1 g2 m0 m1 m2 sm na00 na01 na02 na10 na11 na12 na20 na21 na22 :
  C20_acc_R q0w q0x q0y q0z q1w q1x q1y q1z q2w q2x q2y q2z g0 g1 g2 m0 m1 m2 0 sm na00 na01 na02 na10 na11 na12 na20 na21 na22
  = Val (body [q0w;q0x;q0y;q0z] [g0;g1;g2] ++ body [q1w;q1x;q1y;q1z] [g0;g1;g2] ++ body [q2w;q2x;q2y;q2z] [g0;g1;g2]).
Proof. rewrite acc_spec. unfold_c20. val_eq; ring. Qed.
End Given.
