(* C20_arstep.v — the closed-form step of AngularRate.update (the integrator of the re-integration clause), regenerated
   from /repo, equals ar_closed of C20_integrate.v:  q (x) (cos(|w|dt/2), w/|w| sin(|w|dt/2))  for a unit q and w <> 0. *)
From Coq Require Import Reals List Lra.
From AhrsLib Require Import Base Rot.
From AhrsGen Require Import C20gen_R.
From AhrsProps Require Import C20_spec.
Import ListNotations.
Open Scope R_scope.

Lemma arstep_spec w x y z g0 g1 g2 : unit4 w x y z -> 0 < g0*g0 + g1*g1 + g2*g2 ->
  C20_arstep_R w x y z g0 g1 g2 = Val (ar_closed [w;x;y;z] [g0;g1;g2] (1 / 100)).
Proof.
  intros U Hg. unfold ar_closed, vnorm. cbv [e nth]. unfold C20_arstep_R. unfold unit4 in U. orient_unit. cbv zeta.
  qnorm1. destruct (Req_EM_T 0 1) as [A|_]; [lra|].
  assert (Hk : 0 < sqrt (g0*g0 + g1*g1 + g2*g2)) by (apply sqrt_lt_R0; exact Hg).
  assert (Hk2 : sqrt (g0*g0 + g1*g1 + g2*g2) * sqrt (g0*g0 + g1*g1 + g2*g2) = g0*g0 + g1*g1 + g2*g2) by (apply sqrt_sqrt; lra).
  set (k := sqrt (g0*g0 + g1*g1 + g2*g2)) in *.
  destruct (Req_EM_T 0 k) as [A|_]; [lra|].
  replace (k * (1 * / 100) * / 2) with (k * (1 / 100) / 2) by (unfold Rdiv; ring).
  pose proof (sin2_cos2 (k * (1 / 100) / 2)) as T. unfold Rsqr in T. rewrite Rplus_comm in T.
  set (c := cos (k * (1 / 100) / 2)) in *. set (s := sin (k * (1 / 100) / 2)) in *.
  set (n0 := g0 / k). set (n1 := g1 / k). set (n2 := g2 / k).
  assert (Hn : n0*n0 + n1*n1 + n2*n2 = 1).
  { unfold n0, n1, n2. replace (g0 / k * (g0 / k) + g1 / k * (g1 / k) + g2 / k * (g2 / k)) with ((g0*g0 + g1*g1 + g2*g2) / (k * k)) by (field; lra).
    rewrite <- Hk2. field. lra. }
  assert (E0 : g0 = k * n0) by (unfold n0; field; lra).
  assert (E1 : g1 = k * n1) by (unfold n1; field; lra).
  assert (E2 : g2 = k * n2) by (unfold n2; field; lra).
  clearbody n0 n1 n2 c s. clear Hk2. clearbody k. subst g0 g1 g2. clear Hg.
  assert (Hk0 : k <> 0) by lra.
  assert (Hc : c * c = 1 - s * s) by lra. assert (Hn0 : n0 * n0 = 1 - n1 * n1 - n2 * n2) by lra. clear T Hn.
  match goal with |- context [sqrt ?r] =>
    assert (Hr : r = 1) by (field_simplify_eq; [ring [Hc Hn0 Hu]|exact Hk0]); rewrite Hr, sqrt_1; clear Hr end.
  destruct (Req_EM_T 0 1) as [A|_]; [lra|].
  unfold_rot. val_eq; field; exact Hk0.
Qed.
