(* C20_randyaw.v — random route with the `yaw=` keyword: Sensors(num_samples=3, yaw=yw) (random_angpos stubbed by symbolic
   angles).  Whatever path the constructor takes, when it returns, the reported angular positions carry the requested yaw,
   and the reported ang_vel rows are the rates of the REPORTED quaternions (first rate repeated) - i.e. the gyroscopes are
   differentiated from the same trajectory that quaternions / rotations / accelerometers / magnetometers describe
   (rotations and accelerometers of the same object: C20_randfull.v, thorough tier).
   No norm is simplified: the statement is structural.  The generated lets are eliminated one by one into variables
   (let_elim keeps only the defining equation as a hypothesis), the reported quaternion components are then made opaque
   and only what is computed FROM them is unfolded, so the proof never expands the doubly normalised terms.
   (What the reported quaternions are: C20_rand.v, from_rpy_spec.) *)
From Coq Require Import Reals List Lra.
From AhrsLib Require Import Base Rot.
From AhrsGen Require Import C20gen_R.
From AhrsProps Require Import C20_spec.
Import ListNotations.
Open Scope R_scope.

Lemma let_elim {A B : Type} (v : A) (f : A -> B) (r : B) : (let x := v in f x) = r -> exists y : A, y = v /\ f y = r.
Proof. intros H. exists v. split; [reflexivity|exact H]. Qed.
(* one step on a hypothesis  H : <generated term> = Val l : a let becomes a variable with its equation, a gate is split *)
Ltac hstep H :=
  lazymatch type of H with
  | (let x := ?v in @?b x) = ?r =>
      apply (let_elim v b r) in H; let y := fresh "t" in let E := fresh "E" in destruct H as [y [E H]]; cbv beta in H
  | (if ?d then _ else _) = _ => destruct d
  end.
Ltac forget_eq x := match goal with E : x = _ |- _ => clear E | _ => idtac end.

Lemma rand_yaw_same_quaternions ro0 pi0 ya0 ro1 pi1 ya1 ro2 pi2 ya2 yw m0 m1 m2 sm l :
  C20_rand_yaw_R ro0 pi0 ya0 ro1 pi1 ya1 ro2 pi2 ya2 yw m0 m1 m2 sm = Val l ->
  exists a0 a1 a2 a3 b0 b1 b2 b3 c0 c1 c2 c3,
    l = ([a0;a1;a2;a3] ++ [b0;b1;b2;b3] ++ [c0;c1;c2;c3])
        ++ [ro0; pi0; yw * d2r;  ro1; pi1; yw * d2r;  ro2; pi2; yw * d2r]
        ++ (rate dt100 [a0;a1;a2;a3] [b0;b1;b2;b3] ++ rate dt100 [a0;a1;a2;a3] [b0;b1;b2;b3] ++ rate dt100 [b0;b1;b2;b3] [c0;c1;c2;c3]).
Proof.
  cbv beta delta [C20_rand_yaw_R]. intros H.
  repeat hstep H; try discriminate H.
  all: injection H as H; subst l.
  all: match goal with |- exists _ _ _ _ _ _ _ _ _ _ _ _, (?x0 :: ?x1 :: ?x2 :: ?x3 :: ?x4 :: ?x5 :: ?x6 :: ?x7 :: ?x8 :: ?x9 :: ?x10 :: ?x11 :: _) = _ =>
         exists x0, x1, x2, x3, x4, x5, x6, x7, x8, x9, x10, x11;
         forget_eq x0; forget_eq x1; forget_eq x2; forget_eq x3; forget_eq x4; forget_eq x5; forget_eq x6; forget_eq x7;
         forget_eq x8; forget_eq x9; forget_eq x10; forget_eq x11 end.
  all: repeat match goal with E : ?y = _ |- _ => match goal with |- context [y] => rewrite E; clear E end end.
  all: assert (HPI : PI <> 0) by (pose proof PI_RGT_0; lra).
  all: unfold_c20; list_eq; first [ring | field; exact HPI].
Qed.
