(* C20_mag.v — magnetometers of Sensors(quaternions=Q, ...). *)
From Coq Require Import Reals List Lra.
From AhrsLib Require Import Base Rot.
From AhrsGen Require Import C20gen_R.
From AhrsProps Require Import C20_spec.
Import ListNotations.
Open Scope R_scope.

Section Given.
Variables q0w q0x q0y q0z q1w q1x q1y q1z q2w q2x q2y q2z : R.
Hypothesis U0 : unit4 q0w q0x q0y q0z.
Hypothesis U1 : unit4 q1w q1x q1y q1z.
Hypothesis U2 : unit4 q2w q2x q2y q2z.
Let q0 := [q0w; q0x; q0y; q0z].
Let q1 := [q1w; q1x; q1y; q1z].
Let q2 := [q2w; q2x; q2y; q2z].

(* row i = Rspec(q_i)^T m + sigma * (i-th normal draw), where sigma is the value of the attribute mag_noise
   REPORTED after generate(); sigma is the requested mag_noise whenever the code does not override it.
   True on the pinned tree (override when mag_noise < ptp) and on the repaired tree (never overridden). *)
Definition mag_rows (sigma m0 m1 m2 nm00 nm01 nm02 nm10 nm11 nm12 nm20 nm21 nm22 : R) : list R :=
  add3 (body q0 [m0;m1;m2]) (scale3 sigma [nm00;nm01;nm02]) ++
  add3 (body q1 [m0;m1;m2]) (scale3 sigma [nm10;nm11;nm12]) ++
  add3 (body q2 [m0;m1;m2]) (scale3 sigma [nm20;nm21;nm22]).
Definition mag_clean (m0 m1 m2 : R) : list R := body q0 [m0;m1;m2] ++ body q1 [m0;m1;m2] ++ body q2 [m0;m1;m2].

Lemma mag_spec m0 m1 m2 sm nm00 nm01 nm02 nm10 nm11 nm12 nm20 nm21 nm22 :
  exists sigma,
    C20_mag_R q0w q0x q0y q0z q1w q1x q1y q1z q2w q2x q2y q2z m0 m1 m2 sm nm00 nm01 nm02 nm10 nm11 nm12 nm20 nm21 nm22
    = Val (mag_rows sigma m0 m1 m2 nm00 nm01 nm02 nm10 nm11 nm12 nm20 nm21 nm22 ++ [sigma])
    /\ (~ sm < ptp (mag_clean m0 m1 m2) -> sigma = sm).
Proof.
  unfold C20_mag_R, mag_rows, mag_clean, q0, q1, q2. revert U0 U1 U2. open3.
  try destr_dec; (eexists; split; [apply Val_inj; unfold_c20; list_eq; uring | unfold_c20; sigma_side]).
Qed.

End Given.
