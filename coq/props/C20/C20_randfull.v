(* C20_randfull.v (thorough tier: its Qed re-types the remaining term once per generated let, ~50 s) — the statement of
   C20_randyaw.v extended to .rotations and .accelerometers of Sensors(num_samples=3, yaw=yw). *)
From Coq Require Import Reals List Lra.
From AhrsLib Require Import Base Rot.
From AhrsGen Require Import C20gen_R.
From AhrsProps Require Import C20_spec C20_randyaw.
Import ListNotations.
Open Scope R_scope.

Lemma rand_full_same_quaternions ro0 pi0 ya0 ro1 pi1 ya1 ro2 pi2 ya2 yw g0 g1 g2 m0 m1 m2 sa sm na00 na01 na02 na10 na11 na12 na20 na21 na22 l :
  C20_rand_full_R ro0 pi0 ya0 ro1 pi1 ya1 ro2 pi2 ya2 yw g0 g1 g2 m0 m1 m2 sa sm na00 na01 na02 na10 na11 na12 na20 na21 na22 = Val l ->
  exists a0 a1 a2 a3 b0 b1 b2 b3 c0 c1 c2 c3,
    l = ([a0;a1;a2;a3] ++ [b0;b1;b2;b3] ++ [c0;c1;c2;c3])
        ++ [ro0; pi0; yw * d2r;  ro1; pi1; yw * d2r;  ro2; pi2; yw * d2r]
        ++ (rate dt100 [a0;a1;a2;a3] [b0;b1;b2;b3] ++ rate dt100 [a0;a1;a2;a3] [b0;b1;b2;b3] ++ rate dt100 [b0;b1;b2;b3] [c0;c1;c2;c3])
        ++ (Rspec [a0;a1;a2;a3] ++ Rspec [b0;b1;b2;b3] ++ Rspec [c0;c1;c2;c3])
        ++ (add3 (body [a0;a1;a2;a3] [g0;g1;g2]) (scale3 sa [na00;na01;na02]) ++
            add3 (body [b0;b1;b2;b3] [g0;g1;g2]) (scale3 sa [na10;na11;na12]) ++
            add3 (body [c0;c1;c2;c3] [g0;g1;g2]) (scale3 sa [na20;na21;na22])).
Proof.
  cbv beta delta [C20_rand_full_R]. intros H.
  repeat hstep H; try discriminate H.
  all: injection H as H; subst l.
  all: match goal with |- exists _ _ _ _ _ _ _ _ _ _ _ _, (?x0 :: ?x1 :: ?x2 :: ?x3 :: ?x4 :: ?x5 :: ?x6 :: ?x7 :: ?x8 :: ?x9 :: ?x10 :: ?x11 :: _) = _ =>
         exists x0, x1, x2, x3, x4, x5, x6, x7, x8, x9, x10, x11;
         forget_eq x0; forget_eq x1; forget_eq x2; forget_eq x3; forget_eq x4; forget_eq x5; forget_eq x6; forget_eq x7;
         forget_eq x8; forget_eq x9; forget_eq x10; forget_eq x11 end.
  all: repeat match goal with E : ?y = _ |- _ => match goal with |- context [y] => rewrite E; clear E end end.
  all: assert (HPI : PI <> 0) by (pose proof PI_RGT_0; lra).
  all: unfold_c20; list_eq; first [ring | field; exact HPI].
Qed.
