(* C20_fixed.v — statements that hold once fixes/C20-mag-noise-override.patch is applied (the check compiles this file
   exactly when the known finding "Sensors.generate/mag-noise-overridden" no longer reproduces on the implementation). *)
From Coq Require Import Reals List Lra.
From AhrsLib Require Import Base Rot.
From AhrsGen Require Import C20gen_R.
From AhrsProps Require Import C20_spec C20_magfix C20_rows.
Import ListNotations.
Open Scope R_scope.

(* magnetometer row i = Rspec(q_i)^T m + mag_noise * draw_i, the reported mag_noise is the requested one, and with
   mag_noise = 0 the rows are exactly the body-frame reference field (divided by |m| under normalized_mag=True) *)
Theorem C20_mag_is_body_field : forall q0w q0x q0y q0z q1w q1x q1y q1z q2w q2x q2y q2z,
  unit4 q0w q0x q0y q0z -> unit4 q1w q1x q1y q1z -> unit4 q2w q2x q2y q2z ->
  forall m0 m1 m2 sm nm00 nm01 nm02 nm10 nm11 nm12 nm20 nm21 nm22,
  let q0 := [q0w;q0x;q0y;q0z] in let q1 := [q1w;q1x;q1y;q1z] in let q2 := [q2w;q2x;q2y;q2z] in let m := [m0;m1;m2] in
  C20_mag_R q0w q0x q0y q0z q1w q1x q1y q1z q2w q2x q2y q2z m0 m1 m2 sm nm00 nm01 nm02 nm10 nm11 nm12 nm20 nm21 nm22
  = Val ((add3 (body q0 m) (scale3 sm [nm00;nm01;nm02]) ++ add3 (body q1 m) (scale3 sm [nm10;nm11;nm12]) ++
          add3 (body q2 m) (scale3 sm [nm20;nm21;nm22])) ++ [sm]) /\
  C20_mag_R q0w q0x q0y q0z q1w q1x q1y q1z q2w q2x q2y q2z m0 m1 m2 0 nm00 nm01 nm02 nm10 nm11 nm12 nm20 nm21 nm22
  = Val ((body q0 m ++ body q1 m ++ body q2 m) ++ [0]) /\
  C20_mag_norm_R q0w q0x q0y q0z q1w q1x q1y q1z q2w q2x q2y q2z m0 m1 m2 sm nm00 nm01 nm02 nm10 nm11 nm12 nm20 nm21 nm22
  = Val ((unit3 (add3 (body q0 m) (scale3 sm [nm00;nm01;nm02])) ++ unit3 (add3 (body q1 m) (scale3 sm [nm10;nm11;nm12])) ++
          unit3 (add3 (body q2 m) (scale3 sm [nm20;nm21;nm22]))) ++ [sm]) /\
  C20_mag_norm_R q0w q0x q0y q0z q1w q1x q1y q1z q2w q2x q2y q2z m0 m1 m2 0 nm00 nm01 nm02 nm10 nm11 nm12 nm20 nm21 nm22
  = Val ((scale3 (/ norm3 m) (body q0 m) ++ scale3 (/ norm3 m) (body q1 m) ++ scale3 (/ norm3 m) (body q2 m)) ++ [0]).
Proof.
  intros. split; [apply magfix_spec; assumption|]. split; [apply magfix_zero; assumption|].
  split; [apply magfix_norm_spec; assumption|apply magfix_norm_zero; assumption].
Qed.
Print Assumptions C20_mag_is_body_field.

(* the regenerated three-row magnetometer array is the row-wise array of C20_rows.v (so C20_rows_any_length speaks for it) *)
Theorem C20_mag_rows : forall q0w q0x q0y q0z q1w q1x q1y q1z q2w q2x q2y q2z,
  unit4 q0w q0x q0y q0z -> unit4 q1w q1x q1y q1z -> unit4 q2w q2x q2y q2z ->
  forall m0 m1 m2 sm nm00 nm01 nm02 nm10 nm11 nm12 nm20 nm21 nm22,
  C20_mag_R q0w q0x q0y q0z q1w q1x q1y q1z q2w q2x q2y q2z m0 m1 m2 sm nm00 nm01 nm02 nm10 nm11 nm12 nm20 nm21 nm22
  = Val (rows [m0;m1;m2] sm [[q0w;q0x;q0y;q0z]; [q1w;q1x;q1y;q1z]; [q2w;q2x;q2y;q2z]]
              [[nm00;nm01;nm02]; [nm10;nm11;nm12]; [nm20;nm21;nm22]] ++ [sm]).
Proof. intros. rewrite rows_three. apply magfix_spec; assumption. Qed.
Print Assumptions C20_mag_rows.
