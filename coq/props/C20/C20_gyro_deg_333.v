(* C20_gyro_deg_333.v — gyroscopes, reported bias and ground-truth angular velocity of
   Sensors(quaternions=Q, freq=333.0, in_degrees=True) on a generic three-row trajectory.  (generated from one template
   by the builder: the proof script is the same for every traced rate and unit) *)
From Coq Require Import Reals List Lra.
From AhrsLib Require Import Base Rot.
From AhrsGen Require Import C20gen_R.
From AhrsProps Require Import C20_spec.
Import ListNotations.
Open Scope R_scope.

Section Given.
Variables q0w q0x q0y q0z q1w q1x q1y q1z q2w q2x q2y q2z : R.
Hypothesis U0 : unit4 q0w q0x q0y q0z.
Hypothesis U1 : unit4 q1w q1x q1y q1z.
Hypothesis U2 : unit4 q2w q2x q2y q2z.
Let q0 := [q0w; q0x; q0y; q0z].
Let q1 := [q1w; q1x; q1y; q1z].
Let q2 := [q2w; q2x; q2y; q2z].
Let dt := (1 / 333).
Let w1 := rate dt q0 q1.
Let w2 := rate dt q1 q2.

(* output = gyroscopes ++ biases_gyroscopes ++ ang_vel.  gyroscopes row t = (unit) w_t + reported bias + (noise level in the
   output unit) * draw_t, with w_0 = 0 and w_t = rate dt q_(t-1) q_t = ang_vel row t : the reported bias IS the applied one *)
Lemma gyro_deg_333_spec sg sm m0 m1 m2 u0 u1 u2 ng00 ng01 ng02 ng10 ng11 ng12 ng20 ng21 ng22 :
  C20_gyro_deg_333_R q0w q0x q0y q0z q1w q1x q1y q1z q2w q2x q2y q2z sg sm m0 m1 m2 u0 u1 u2 ng00 ng01 ng02 ng10 ng11 ng12 ng20 ng21 ng22
  = Val ((add3 (add3 [0;0;0] (bias_deg dt q0 q1 q2 u0 u1 u2)) (scale3 sg [ng00;ng01;ng02]) ++
          add3 (add3 (scale3 r2d w1) (bias_deg dt q0 q1 q2 u0 u1 u2)) (scale3 sg [ng10;ng11;ng12]) ++
          add3 (add3 (scale3 r2d w2) (bias_deg dt q0 q1 q2 u0 u1 u2)) (scale3 sg [ng20;ng21;ng22]))
         ++ bias_deg dt q0 q1 q2 u0 u1 u2 ++ ([0;0;0] ++ w1 ++ w2)).
Proof. unfold w1, w2, dt, q0, q1, q2. unfold_c20. unfold C20_gyro_deg_333_R. revert U0 U1 U2. open3. gyro_close. Qed.

(* noise-free (gyr_noise = 0): the bias-corrected gyroscope rows are exactly the ground-truth rates in the output unit *)
Lemma gyro_deg_333_zero sm m0 m1 m2 u0 u1 u2 ng00 ng01 ng02 ng10 ng11 ng12 ng20 ng21 ng22 :
  C20_gyro_deg_333_R q0w q0x q0y q0z q1w q1x q1y q1z q2w q2x q2y q2z 0 sm m0 m1 m2 u0 u1 u2 ng00 ng01 ng02 ng10 ng11 ng12 ng20 ng21 ng22
  = Val ((add3 [0;0;0] (bias_deg dt q0 q1 q2 u0 u1 u2) ++ add3 (scale3 r2d w1) (bias_deg dt q0 q1 q2 u0 u1 u2) ++ add3 (scale3 r2d w2) (bias_deg dt q0 q1 q2 u0 u1 u2))
         ++ bias_deg dt q0 q1 q2 u0 u1 u2 ++ ([0;0;0] ++ w1 ++ w2)).
Proof. rewrite gyro_deg_333_spec. apply Val_inj. cbv [add3 scale3 app e nth]. list_eq; ring. Qed.
End Given.
