(* C20_spec.v — specification vocabulary and tactics shared by the C20 proof files (no generated code here). *)
From Coq Require Import Reals List Lra.
From AhrsLib Require Import Base Rot.
Import ListNotations.
Open Scope R_scope.

Definition unit4 (w x y z : R) : Prop := w*w + x*x + y*y + z*z = 1.
(* a global-frame vector expressed in the body frame of the attitude q :  Rspec(q)^T v *)
Definition body (q v : list R) : list R := mvec3 (mtr3 (Rspec q)) v.
Definition add3 (a b : list R) : list R := [e a 0 + e b 0; e a 1 + e b 1; e a 2 + e b 2].
Definition scale3 (k : R) (a : list R) : list R := [k * e a 0; k * e a 1; k * e a 2].
Definition norm3 (a : list R) : R := sqrt (e a 0 * e a 0 + e a 1 * e a 1 + e a 2 * e a 2).
Definition unit3 (a : list R) : list R := [e a 0 / norm3 a; e a 1 / norm3 a; e a 2 / norm3 a].
Definition vecpart (r : list R) : list R := [e r 1; e r 2; e r 3].
(* what QuaternionArray.angular_velocities computes between consecutive attitudes p, q :
   (2/dt) * vector part of  p* (x) q  *)
Definition rate (dt : R) (p q : list R) : list R := scale3 (2 / dt) (vecpart (qmul (qconj p) q)).
(* numpy.ptp of a flattened array: left folds of max and min *)
Definition ptp (l : list R) : R :=
  match l with [] => 0 | a :: t => fold_left Rmax t a - fold_left Rmin t a end.
Definition r2d : R := 180 / PI.      (* RAD2DEG *)
Definition d2r : R := PI / 180.      (* DEG2RAD *)
Definition dt100 : R := 1 / 100.     (* 1 / frequency of the default traced instances; other traced rates: 1/50, 1/333 *)

(* what QuaternionArray.to_angles returns for one row: roll, pitch, yaw *)
Definition rpy_of (q : list R) : list R :=
  let w := e q 0 in let x := e q 1 in let y := e q 2 in let z := e q 3 in
  [atan2 (2 * (w*x + y*z)) (1 - 2 * (x*x + y*y)); asin (2 * (w*y - z*x)); atan2 (2 * (w*z + x*y)) (1 - 2 * (y*y + z*z))].

(* QuaternionArray.from_rpy for one row: q = qZ(yaw) qY(pitch) qX(roll) *)
Definition q_of_rpy (ro pi ya : R) : list R :=
  let cy := cos (ya / 2) in let sy := sin (ya / 2) in let cp := cos (pi / 2) in let sp := sin (pi / 2) in
  let cr := cos (ro / 2) in let sr := sin (ro / 2) in
  [cy*cp*cr + sy*sp*sr; cy*cp*sr - sy*sp*cr; sy*cp*sr + cy*sp*cr; sy*cp*cr - cy*sp*sr].

(* elementary rotations and the aerospace sequence R = Rz(yaw) Ry(pitch) Rx(roll) *)
Definition Rx (a : R) : list R := [1;0;0; 0;cos a;- sin a; 0;sin a;cos a].
Definition Ry (a : R) : list R := [cos a;0;sin a; 0;1;0; - sin a;0;cos a].
Definition Rz (a : R) : list R := [cos a;- sin a;0; sin a;cos a;0; 0;0;1].
Definition Rzyx (ro pi ya : R) : list R := mmul3 (Rz ya) (mmul3 (Ry pi) (Rx ro)).

(* the closed-form step of AngularRate.update on a rate w over dt:  q (x) (cos(|w|dt/2), w/|w| sin(|w|dt/2)) *)
Definition vnorm (w : list R) : R := sqrt (e w 0 * e w 0 + e w 1 * e w 1 + e w 2 * e w 2).
Definition ar_closed (q w : list R) (dt : R) : list R :=
  let k := vnorm w in
  qmul q [cos (k * dt / 2); e w 0 / k * sin (k * dt / 2); e w 1 / k * sin (k * dt / 2); e w 2 / k * sin (k * dt / 2)].

(* gyroscope bias: Pdeg = ptp of the noise-free rates in deg/s of a three-row trajectory (w_0 = 0: the three zeros of
   row 0 enter as one 0); the bias drawn is (u - 1/2) Pdeg / 200 deg/s; in radians mode the code multiplies it by
   DEG2RAD twice - before adding it to the deg/s signal and again with the signal *)
Definition Pdeg (dt : R) (q0 q1 q2 : list R) : R := ptp (0 :: scale3 r2d (rate dt q0 q1) ++ scale3 r2d (rate dt q1 q2)).
Definition bias_deg (dt : R) (q0 q1 q2 : list R) (u0 u1 u2 : R) : list R := scale3 (Pdeg dt q0 q1 q2 / 200) [u0 - 1/2; u1 - 1/2; u2 - 1/2].
Definition bias_rad (dt : R) (q0 q1 q2 : list R) (u0 u1 u2 : R) : list R := scale3 (d2r * d2r) (bias_deg dt q0 q1 q2 u0 u1 u2).

Ltac unfold_c20 := cbv [body add3 scale3 norm3 unit3 vecpart rate ptp fold_left app r2d d2r dt100 Pdeg bias_deg bias_rad]; unfold_rot.

Lemma Rmax_eq2 a a' b b' : a = a' -> b = b' -> Rmax a b = Rmax a' b'. Proof. intros -> ->; reflexivity. Qed.
Lemma Rmin_eq2 a a' b b' : a = a' -> b = b' -> Rmin a b = Rmin a' b'. Proof. intros -> ->; reflexivity. Qed.
Lemma Rminus_eq2 a a' b b' : a = a' -> b = b' -> a - b = a' - b'. Proof. intros -> ->; reflexivity. Qed.
Lemma Rmult_eq2 a a' b b' : a = a' -> b = b' -> a * b = a' * b'. Proof. intros -> ->; reflexivity. Qed.
(* equality of two peak-to-peak expressions, entry by entry; leaf equalities by `tac` *)
Ltac ptp_eq_with tac := apply Rminus_eq2; repeat (first [apply Rmax_eq2 | apply Rmin_eq2]); tac.
Ltac ptp_eq := ptp_eq_with uring.

(* rewrite the norm of a unit quaternion row to 1 (cheap, syntactic four-squares shape) *)
Ltac qnorm1 :=
  repeat (match goal with
  | |- context [sqrt (?a * ?a + ?b * ?b + ?c * ?c + ?d * ?d)] =>
      let H := fresh in assert (H : a * a + b * b + c * c + d * d = 1) by (div1; uring);
      rewrite H; clear H; rewrite sqrt_1
  end; div1).
(* open a regenerated definition under the unit-norm hypotheses: constructor gates decided, norms = 1 *)
Ltac gates := repeat gate_01; repeat gate_abs0.
Ltac open3 := intros; unfold unit4 in *; orient_unit; cbv zeta; first [progress qnorm1 | norm1]; gates.

(* close a gyroscope lemma: name the generated peak-to-peak term, identify it with the specification's, then field *)
Ltac gyro_close :=
  let P := fresh "P" in let HPI := fresh "HPI" in
  assert (HPI : PI <> 0) by (pose proof PI_RGT_0; lra);
  try destr_dec;
  match goal with |- Val ?l = _ => match l with context [Rmax ?a ?b - ?c] => set (P := Rmax a b - c) end end;
  match goal with |- _ = Val ?l => match l with context [Rmax ?a ?b - ?c] =>
     replace (Rmax a b - c) with P by (subst P; ptp_eq_with ltac:(try reflexivity; field; exact HPI)) end end;
  clearbody P; val_eq; field; exact HPI.

(* the reported noise level is the requested one unless the code overrides it (closes the side clause of the
   magnetometer lemmas on the pinned tree - override branch contradicts the premise - and on the repaired tree) *)
Ltac sigma_side :=
  let Hn := fresh "Hn" in
  intro Hn; first [ reflexivity
                  | exfalso; apply Hn; match goal with H : _ < _ |- _ => eapply Rlt_le_trans; [exact H|right; ptp_eq] end ].

(* the body-frame image of a vector has the vector's norm (so a zero-noise normalised row is body(m)/|m|) *)
Lemma body_norm w x y z v0 v1 v2 : unit4 w x y z -> norm3 (body [w;x;y;z] [v0;v1;v2]) = norm3 [v0;v1;v2].
Proof. intros H. unfold unit4 in H. orient_unit. unfold_c20. apply f_equal. uring. Qed.

(* body q v is the inverse rotation: Rspec q . body q v = v *)
Lemma body_inverse w x y z v0 v1 v2 : unit4 w x y z ->
  mvec3 (Rspec [w;x;y;z]) (body [w;x;y;z] [v0;v1;v2]) = [v0;v1;v2].
Proof. intros H. unfold unit4 in H. orient_unit. unfold_c20. list_eq; uring. Qed.
