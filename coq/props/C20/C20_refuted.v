(* C20_refuted.v — witness, inside the regenerated model, of the known finding
   "Sensors.generate/mag-noise-overridden".  Compiled separately: once the override is removed this file stops
   compiling and the check treats that as "repaired" (the positive theorem of C20_fixed.v takes over). *)
From Coq Require Import Reals List Lra.
From AhrsLib Require Import Base Rot.
From AhrsGen Require Import C20gen_R.
From AhrsProps Require Import C20_spec.
Import ListNotations.
Open Scope R_scope.

(* stationary trajectory at the identity, reference field (1,2,3), requested magnetometer noise 0, first normal draw 1:
   generate() replaces the requested 0 by 0.5 % of the norm of the DEFAULT reference field (since 0 < ptp = 2), so the
   first magnetometer sample is not the body-frame field and the reported noise level is not the requested one *)
Lemma mag_at_witness : exists l,
  C20_mag_R 1 0 0 0  1 0 0 0  1 0 0 0  1 2 3  0  1 0 0 0 0 0 0 0 0 = Val l /\ nth 0 l 0 <> 1 /\ nth 9 l 0 <> 0.
Proof.
  unfold C20_mag_R. cbv zeta. norm1. gates.
  match goal with |- context [Rlt_dec 0 ?P] => destruct (Rlt_dec 0 P) as [Hlt|Hn] end.
  - eexists. split; [reflexivity|]. cbn [nth]. split; lra.
  - exfalso. apply Hn. apply Rlt_Rminus.
    match goal with |- ?m < ?M =>
      assert (HM : 3 <= M) by (eapply Rle_trans; [|apply Rmax_r]; lra);
      assert (Hm : m <= 1) by (repeat (eapply Rle_trans; [apply Rmin_l|]); lra) end.
    lra.
Qed.

Theorem C20_mag_zero_noise_refuted :
  exists q0w q0x q0y q0z q1w q1x q1y q1z q2w q2x q2y q2z m0 m1 m2 nm00 nm01 nm02 nm10 nm11 nm12 nm20 nm21 nm22 l,
    unit4 q0w q0x q0y q0z /\ unit4 q1w q1x q1y q1z /\ unit4 q2w q2x q2y q2z /\
    C20_mag_R q0w q0x q0y q0z q1w q1x q1y q1z q2w q2x q2y q2z m0 m1 m2 0 nm00 nm01 nm02 nm10 nm11 nm12 nm20 nm21 nm22 = Val l /\
    nth 0 l 0 <> e (body [q0w;q0x;q0y;q0z] [m0;m1;m2]) 0 /\ nth 9 l 0 <> 0.
Proof.
  destruct mag_at_witness as (l & E & H0 & H9).
  exists 1, 0, 0, 0, 1, 0, 0, 0, 1, 0, 0, 0, 1, 2, 3, 1, 0, 0, 0, 0, 0, 0, 0, 0, l.
  unfold unit4. repeat (split; [lra|]). split; [exact E|]. split; [|exact H9].
  intros C. apply H0. rewrite C. unfold_c20. lra.
Qed.
Print Assumptions C20_mag_zero_noise_refuted.
