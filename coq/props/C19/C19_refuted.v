(* C19_refuted.v — witness, inside the regenerated model, of the known finding "static/mutators-present": on the current
   tree some public callable that is not a documented in-place operation may modify a caller array.  Compiled
   separately: once every recorded mutator is repaired, expected_mutators is empty, this file stops compiling and the
   check treats that as "repaired". *)
From Coq Require Import List String Arith Bool.
From AhrsModel Require Import Effects.
From AhrsGen Require Import C19effects.
From AhrsProps Require Import C19_analysis.
Import ListNotations.


(* "no public callable mutates" REFUTED on this tree: every recorded mutator is a public, non-exempt callable of the
   regenerated table whose computed may-mutate set (restricted to caller arrays) is not empty *)
Theorem C19_public_pure_refuted :
  expected_mutators <> [] /\
  forall n, In n expected_mutators ->
    exists f, nth_error names f = Some n /\ public f = true /\ exempt f = false /\ is_mutator f = true.
Proof.
  split; [discriminate|].
  assert (H : forallb (fun n => existsb (fun f => (if string_dec (name_of f) n then true else false) && Nat.ltb f (List.length names)
                                                && public f && negb (exempt f) && is_mutator f) all_ids) expected_mutators = true)
    by (vm_compute; reflexivity).
  intros n Hn. rewrite forallb_forall in H. specialize (H n Hn). apply existsb_exists in H as [f [_ Hf]].
  apply andb_prop in Hf as [Hf Hmut]. apply andb_prop in Hf as [Hf Hex]. apply andb_prop in Hf as [Hf Hpub].
  apply andb_prop in Hf as [Hname Hlt]. exists f.
  destruct (string_dec (name_of f) n) as [E|]; [|discriminate].
  repeat split; auto.
  - unfold name_of, nthd in E. apply Nat.ltb_lt in Hlt. rewrite (nth_error_nth' names "?"%string Hlt). now rewrite E.
  - now apply negb_true_iff.
Qed.
Print Assumptions C19_public_pure_refuted.
