(* C19 — public functions never modify the caller's arrays and are repeatable: statements.
   The effect programs (generated_programs, names, is_public, ...) are regenerated from the package source by tools/pyfx
   on every run; the analysis and its soundness proof are in coq/model/Effects.v. *)
From Coq Require Import List String Arith Bool.
From AhrsModel Require Import Effects.
From AhrsGen Require Import C19effects.
From AhrsProps Require Import C19_analysis.
Import ListNotations.


(* SOUNDNESS of the analysis (Effects.v), for any table of callables, any labelling of protected cells, any summaries
   that are valid: the analysis over-approximates aliasing (Inv), mutation (kept) and global-state use (gkept) of every
   execution -- every path through `If`, every iteration count of `Loop`, whatever the callees do. *)
Theorem C19_analysis_sound : forall (T : table) (gtop : list gid) (S_ : list (option summ)), valid T gtop S_ ->
  forall lab p a a' M G s s',
  ana S_ gtop p a = Some (a', M, G) -> exec T p s s' -> Inv lab s a -> wf s -> bounded lab s ->
  Inv lab s' a' /\ kept lab M s s' /\ gkept gtop G s s'.
Proof. exact ana_sound. Qed.
Print Assumptions C19_analysis_sound.

(* the callee summaries computed in call-graph order are valid, so calls may use them *)
Theorem C19_summaries_valid : forall (T : table) (gtop : list gid) n, valid T gtop (summs_upto T gtop n).
Proof. exact summs_valid. Qed.
Print Assumptions C19_summaries_valid.

(* may_mutate = {} => no parameter's array changes version, on every path, for every loop count *)
Theorem C19_may_mutate_sound : forall (T : table) (gtop : list gid) f fd,
  nth_error T f = Some fd -> may_mutate T gtop f = Some [] ->
  forall s s', entry (f_nparams fd) s -> exec T (f_body fd) s s' -> params_unchanged s s'.
Proof. exact may_mutate_sound. Qed.
Print Assumptions C19_may_mutate_sound.

(* any number of repeated calls: each call starts from the inputs (argument arrays, their contents, global state)
   the first one saw *)
Theorem C19_pure_repeatable : forall (T : table) (gtop : list gid) f fd,
  nth_error T f = Some fd -> may_mutate T gtop f = Some [] -> globals_used T gtop f = Some [] ->
  forall n s s', entry (f_nparams fd) s -> calls T fd n s s' ->
  entry (f_nparams fd) (reenter s s') /\ same_inputs gtop s (reenter s s').
Proof. exact pure_repeatable. Qed.
Print Assumptions C19_pure_repeatable.

(* ---- the package: every public callable extracted from the current source is pure, a documented in-place operation,
   or one of the recorded mutators that still reproduce *)
Theorem all_public_pure : forallb ok all_ids = true.
Proof. exact all_public_pure_lemma. Qed.
Print Assumptions all_public_pure.

(* the callables the analysis flags are exactly the recorded mutators (as sets) *)
Theorem C19_flagged_eq_expected :
  forallb (fun n => str_in n expected_mutators) flagged = true /\ forallb (fun n => str_in n flagged) expected_mutators = true.
Proof. exact flagged_eq_expected_lemma. Qed.
Print Assumptions C19_flagged_eq_expected.

(* what "not flagged" gives, at the regenerated table: a caller array none of whose parameter positions is in the
   computed set keeps its version in every execution of the callable's effect program *)
Theorem C19_unflagged_sound : forall f fd sm,
  nth_error generated_programs f = Some fd -> summ_of f = Some sm ->
  forall s s', entry (f_nparams fd) s -> exec generated_programs (f_body fd) s s' ->
  forall c, (exists k, env s k = Some c) -> (forall k, env s k = Some c -> ~ In k (s_mut sm)) -> ver s' c = ver s c.
Proof. exact unflagged_sound_lemma. Qed.
Print Assumptions C19_unflagged_sound.

Theorem C19_pure_sound : forall f fd sm,
  nth_error generated_programs f = Some fd -> summ_of f = Some sm -> s_mut sm = [] ->
  forall s s', entry (f_nparams fd) s -> exec generated_programs (f_body fd) s s' -> params_unchanged s s'.
Proof. exact pure_sound_lemma. Qed.
Print Assumptions C19_pure_sound.

Theorem C19_repeatable_partial : forall f fd sm,
  nth_error generated_programs f = Some fd -> summ_of f = Some sm -> s_mut sm = [] -> s_glob sm = [] ->
  forall n s s', entry (f_nparams fd) s -> calls generated_programs fd n s s' ->
  entry (f_nparams fd) (reenter s s') /\ same_inputs gtop s (reenter s s').
Proof. exact repeatable_lemma. Qed.
Print Assumptions C19_repeatable_partial.

(* public callables that may read global state (RNG, module generator, clock) are only the documented ones *)
Theorem C19_global_readers_allowed :
  forallb (fun f => negb (public f) || negb (reads_global f) || glob_allowed f) all_ids = true.
Proof. exact global_readers_allowed_lemma. Qed.
Print Assumptions C19_global_readers_allowed.
