(* C19_analysis.v — runs the verified analysis of coq/model/Effects.v on the effect programs regenerated from the
   package source (gen/C19effects.v) and derives, by computation, which public callables may modify a caller array. *)
From Coq Require Import List String Arith Bool.
From AhrsModel Require Import Effects.
From AhrsGen Require Import C19effects.
Import ListNotations.


(* summaries of all callables in call-graph order (computed once) *)
Definition S : list (option summ) := Eval vm_compute in (summaries generated_programs gtop).

Definition nthd {A} (l : list A) (k : nat) (d : A) := nth k l d.
Definition name_of (f : nat) : string := nthd names f "?"%string.
Definition public (f : nat) : bool := nthd is_public f false.
Definition exempt (f : nat) : bool := nthd exempt_inplace f false.
Definition glob_allowed (f : nat) : bool := nthd global_allowed f false.
Definition summ_of (f : nat) : option summ := match nth_error S f with Some (Some sm) => Some sm | _ => None end.

(* Which parameters are caller arrays.  Explicit parameters always are.  An implicit parameter `self.attr` is one only
   if SOME method of the package may leave `self.attr` bound to (a view of) one of its explicit parameters: attributes
   that are only ever bound to arrays the object allocated itself cannot be the caller's.  attr_exit lists, per
   callable, (variable holding self.attr at exit, attribute id); the labels of that variable that are explicit
   parameters decide. *)
Definition exit_map (f : nat) : option amap :=
  match nth_error generated_programs f with
  | Some fd => match ana (firstn f S) gtop (f_body fd) (idmap (f_nparams fd)) with Some (a, _, _) => Some a | None => None end
  | None => None
  end.
Definition exit_maps : list (option amap) := Eval vm_compute in (map exit_map (seq 0 (List.length names))).
Definition exit_of (f : nat) : option amap := nthd exit_maps f None.
Definition tainted_by (f : nat) : list nat :=
  match exit_of f with
  | Some a => flat_map (fun '(v, at_) => if existsb (fun l => Nat.leb (nthd n_self f 0) l && Nat.ltb l (nthd n_explicit f 0)) (get a v) then [at_] else [])
                       (nthd attr_exit f [])
  | None => map snd (nthd attr_exit f [])
  end.
Definition tainted_attrs : list nat := Eval vm_compute in (dedup (flat_map tainted_by (seq 0 (List.length names)))).

(* For the ndarray subclasses of the package (Quaternion, QuaternionArray, DCM) the object IS its data: every array
   attribute of self counts, so a query method that rewrites self.array / self.A in place is flagged ("query method
   mutates the object's own array state", which also breaks repeatability on the same object). *)
(* Module-level mutable objects and mutable default arguments are implicit parameters too (shared_params): they are shared
   by every call, so writing into them, or RETURNING them (the caller may write into what it was given), makes later
   calls depend on earlier ones. *)
Definition shared (f : nat) : list nat := nthd shared_params f [].
Definition returns_shared (f : nat) : bool :=
  negb (nthd shared_ok f false) &&
  match shared f with
  | [] => false
  | sh => match exit_of f with
          | Some a =>
              (* a constructor "returns" the object: what it binds to self.<attr> counts (f_ret = result + attribute channel) *)
              let rv := if nthd is_ctor f false
                        then match nth_error generated_programs f with Some fd => f_ret fd | None => nthd ret_real f 0 end
                        else nthd ret_real f 0 in
              existsb (fun k => memb k sh) (get a rv)
          | None => true
          end
  end.
(* np.empty / np.empty_like / np.ndarray(shape) hand out whatever the heap held: pyfx binds their result to the shared
   pseudo-object `@uninit` and re-binds the name to a fresh array only after a complete, unconditional initialisation.
   A callable whose result (or an attribute it binds) may still be that object returns values that depend on earlier,
   unrelated calls: not repeatable. *)
Definition returns_uninit (f : nat) : bool :=
  match nthd uninit_params f [] with
  | [] => false
  | un => match exit_of f, nth_error generated_programs f with
          | Some a, Some fd => existsb (fun k => memb k un) (get a (f_ret fd))
          | _, _ => true
          end
  end.
Definition counted (f k : nat) : bool :=
  Nat.ltb k (nthd n_explicit f 0) || memb k (shared f) ||
  existsb (fun '(p, at_) => Nat.eqb p k && (memb at_ tainted_attrs || nthd array_class f false)) (nthd attr_params f []).

(* the caller arrays callable f may modify; None: the analysis gave up (treated as "may modify") *)
Definition mutated (f : nat) : option (list nat) := option_map (fun sm => filter (counted f) (s_mut sm)) (summ_of f).
(* a constructor of a class with documented in-place operations must not hand out an object that may share memory
   with one of its data parameters: the in-place operation would then rewrite the caller's array *)
Definition keeps_caller_data (f : nat) : bool :=
  nthd ctor_required f false &&
  match summ_of f with
  | Some sm => existsb (fun k => Nat.leb 1 k && Nat.ltb k (nthd n_explicit f 0)) (s_ret sm)
  | None => true
  end.
Definition is_mutator (f : nat) : bool := match mutated f with Some [] => keeps_caller_data f || returns_shared f || returns_uninit f | _ => true end.
Definition reads_global (f : nat) : bool := match summ_of f with Some sm => match s_glob sm with [] => false | _ => true end | None => true end.

Definition all_ids := seq 0 (List.length names).
Definition flagged : list string :=
  Eval vm_compute in (map name_of (filter (fun f => public f && negb (exempt f) && is_mutator f) all_ids)).
Definition mutated_table : list (string * option (list nat)) :=
  Eval vm_compute in (map (fun f => (name_of f, option_map s_mut (summ_of f))) all_ids).
Definition global_table : list (string * option (list nat)) :=
  Eval vm_compute in (map (fun f => (name_of f, option_map s_glob (summ_of f))) (filter reads_global all_ids)).

Fixpoint str_in (s : string) (l : list string) : bool :=
  match l with [] => false | h :: t => if string_dec s h then true else str_in s t end.

(* ok: a public callable either provably modifies no caller array, or is a documented in-place operation, or is one of
   the mutators recorded as known findings of the current tree (expected_mutators is regenerated on every run from the
   findings that still reproduce on the implementation; it is empty once the fixes have landed) *)
Definition ok (f : nat) : bool :=
  negb (public f) || exempt f || negb (is_mutator f) || str_in (name_of f) expected_mutators.

Lemma all_public_pure_lemma : forallb ok all_ids = true.
Proof. vm_compute. reflexivity. Qed.

(* and conversely every expected mutator IS flagged (the analysis exhibits each recorded defect), i.e. the two lists
   are equal as sets *)
Lemma flagged_eq_expected_lemma : forallb (fun n => str_in n expected_mutators) flagged = true /\
                                  forallb (fun n => str_in n flagged) expected_mutators = true.
Proof. split; vm_compute; reflexivity. Qed.

Lemma global_readers_allowed_lemma : forallb (fun f => negb (public f) || negb (reads_global f) || glob_allowed f) all_ids = true.
Proof. vm_compute. reflexivity. Qed.

Lemma S_is_summaries : S = summaries generated_programs gtop.
Proof. vm_compute. reflexivity. Qed.

(* ---- what "not flagged" means: instances of the soundness theorems of Effects.v at the regenerated table *)
Lemma summ_of_analysis f sm : summ_of f = Some sm -> analysis generated_programs gtop f = Some sm.
Proof. unfold summ_of, analysis. rewrite <- S_is_summaries. auto. Qed.

Lemma unflagged_sound_lemma f fd sm :
  nth_error generated_programs f = Some fd -> summ_of f = Some sm ->
  forall s s', entry (f_nparams fd) s -> exec generated_programs (f_body fd) s s' ->
  forall c, (exists k, env s k = Some c) -> (forall k, env s k = Some c -> ~ In k (s_mut sm)) -> ver s' c = ver s c.
Proof. intros Hf Hs. apply summ_of_analysis in Hs. exact (param_unchanged _ _ f fd sm Hf Hs). Qed.

Lemma pure_sound_lemma f fd sm :
  nth_error generated_programs f = Some fd -> summ_of f = Some sm -> s_mut sm = [] ->
  forall s s', entry (f_nparams fd) s -> exec generated_programs (f_body fd) s s' -> params_unchanged s s'.
Proof.
  intros Hf Hs Hm. apply summ_of_analysis in Hs.
  apply (may_mutate_sound generated_programs gtop f fd Hf). unfold may_mutate. rewrite Hs. simpl. now rewrite Hm.
Qed.

Lemma repeatable_lemma f fd sm :
  nth_error generated_programs f = Some fd -> summ_of f = Some sm -> s_mut sm = [] -> s_glob sm = [] ->
  forall n s s', entry (f_nparams fd) s -> calls generated_programs fd n s s' ->
  entry (f_nparams fd) (reenter s s') /\ same_inputs gtop s (reenter s s').
Proof.
  intros Hf Hs Hm Hg. apply summ_of_analysis in Hs.
  apply (pure_repeatable generated_programs gtop f fd Hf); [unfold may_mutate|unfold globals_used]; rewrite Hs; simpl; congruence.
Qed.

(* ---- non-vacuity: the semantics really changes versions, and the analysis sees it *)
Example inplace_changes_the_argument :
  let s0 := {| env := fun x => if Nat.eqb x 0 then Some 0 else None; ver := fun _ => 0; nxt := 1; glob := fun _ => 0 |} in
  exists s', exec [] (InPlace 0) s0 s' /\ ver s' 0 <> ver s0 0 /\ entry 1 s0.
Proof.
  intros s0. eexists. split; [apply EInPlace|]. split.
  - simpl. unfold upd. simpl. discriminate.
  - split.
    + intros x c E. simpl in *. destruct x; simpl in E; [inversion E; auto|discriminate].
    + intros x Hx. simpl. destruct x; [inversion Hx|reflexivity].
Qed.

Example analysis_flags_an_inplace_callee :   (* f0(q): q /= n ; f1(x): y = x.T ; f0(y)  -- f1 mutates x through the view *)
  let T := [ {| f_nparams := 1; f_body := InPlace 0; f_ret := 1 |};
             {| f_nparams := 1; f_body := Seq (Alias 1 [0]) (Call 2 0 [1]); f_ret := 2 |};
             {| f_nparams := 1; f_body := Seq (Copy 1 0) (Call 2 0 [1]); f_ret := 2 |} ] in
  map (option_map s_mut) (summaries T []) = [Some [0]; Some [0]; Some []].
Proof. vm_compute. reflexivity. Qed.
