(* C11_routes.v — every DCM construction route yields a proper rotation matrix that the regenerated gate accepts.
   DCM(q=) and DCM(axang=) at a fixed angle are regenerated code; the angle routes (x/y/z, rpy, euler, axang for
   every angle) are the hand model AhrsModel.C11_routes composed with the regenerated gate. *)
From Coq Require Import Reals List Lra Psatz.
From AhrsLib Require Import Base Rot.
From AhrsModel Require Import C11_routes.
From AhrsGen Require Import C11gen_R.
From AhrsProps Require Import C11_norm C11_gate.
Import ListNotations.
Open Scope R_scope.

(* the hand model over the reals *)
Definition mmR := mm R 0 Rplus Rmult.
Definition elemR := elem R 0 1 Ropp.
Definition rot_seqR := rot_seq R 0 1 Rplus Rmult Ropp.
Definition dcm_xyzR := dcm_xyz R 0 1 Rplus Rmult Ropp.
Definition dcm_rpyR := dcm_rpy R 0 1 Rplus Rmult Ropp.
Definition rodriguesR := rodrigues R 0 1 Rplus Rminus Rmult Rdiv Ropp sqrt.
Definition I3R := I3m R 0 1.

Ltac unfold_model := cbv [mmR elemR rot_seqR dcm_xyzR dcm_rpyR rodriguesR I3R
                          mm elem rot_seq dcm_xyz dcm_rpy rodrigues I3m skewm madd msc map g nth].

Lemma mmR_mmul3 A B : mmR A B = mmul3 A B.
Proof. unfold mmR, mm, mmul3, g, e. reflexivity. Qed.
Lemma I3R_I3 : I3R = I3. Proof. reflexivity. Qed.

Lemma I3_SO3 : SO3 I3.
Proof. unfold SO3. cbv [mmul3 mtr3 det3 I3 e nth length]. repeat split; try (list_eq; ring); ring. Qed.

Lemma elem_SO3 a c s : c*c + s*s = 1 -> SO3 (elemR a c s).
Proof.
  intros H. destruct a; unfold SO3; cbv [elemR elem mmul3 mtr3 det3 I3 e nth length];
  (split; [reflexivity|]); (split; [list_eq; nra|]); (split; [list_eq; nra|nra]).
Qed.

Definition unit_cs (x : axis * R * R) : Prop := let '(_, c, s) := x in c*c + s*s = 1.

(* rot_seq of any length, any axes: a proper rotation *)
Lemma rot_seq_SO3 l : Forall unit_cs l -> SO3 (rot_seqR l).
Proof.
  induction 1 as [|[[a c] s] r Hx Hr IH].
  - exact I3_SO3.
  - change (rot_seqR ((a, c, s) :: r)) with (mmR (elemR a c s) (rot_seqR r)).
    rewrite mmR_mmul3. apply SO3_mul; [apply elem_SO3; exact Hx|exact IH].
Qed.

Lemma xyz_SO3 cx sx cy sy cz sz : cx*cx + sx*sx = 1 -> cy*cy + sy*sy = 1 -> cz*cz + sz*sz = 1 ->
  SO3 (dcm_xyzR cx sx cy sy cz sz).
Proof.
  intros Hx Hy Hz.
  change (dcm_xyzR cx sx cy sy cz sz) with (mmR (mmR (mmR I3R (elemR AX cx sx)) (elemR AY cy sy)) (elemR AZ cz sz)).
  rewrite !mmR_mmul3. repeat apply SO3_mul; try (apply elem_SO3; assumption). exact I3_SO3.
Qed.
Lemma rpy_SO3 c0 s0 c1 s1 c2 s2 : c0*c0 + s0*s0 = 1 -> c1*c1 + s1*s1 = 1 -> c2*c2 + s2*s2 = 1 ->
  SO3 (dcm_rpyR c0 s0 c1 s1 c2 s2).
Proof. intros H0 H1 H2. apply (rot_seq_SO3 [(AZ, c0, s0); (AY, c1, s1); (AX, c2, s2)]). repeat constructor; assumption. Qed.

(* Rodrigues' formula about any non-zero axis *)
Lemma rodrigues_unit_SO3 k0 k1 k2 c s : k0*k0 + k1*k1 + k2*k2 = 1 -> c*c + s*s = 1 ->
  SO3 [1 + (s*0 + ((1-c)*0*0 + (1-c)*(-k2)*k2 + (1-c)*k1*(-k1)));
       0 + s*(-k2) + ((1-c)*0*(-k2) + (1-c)*(-k2)*0 + (1-c)*k1*k0);
       0 + s*k1 + ((1-c)*0*k1 + (1-c)*(-k2)*(-k0) + (1-c)*k1*0);
       0 + s*k2 + ((1-c)*k2*0 + (1-c)*0*k2 + (1-c)*(-k0)*(-k1));
       1 + s*0 + ((1-c)*k2*(-k2) + (1-c)*0*0 + (1-c)*(-k0)*k0);
       0 + s*(-k0) + ((1-c)*k2*k1 + (1-c)*0*(-k0) + (1-c)*(-k0)*0);
       0 + s*(-k1) + ((1-c)*(-k1)*0 + (1-c)*k0*k2 + (1-c)*0*(-k1));
       0 + s*k0 + ((1-c)*(-k1)*(-k2) + (1-c)*k0*0 + (1-c)*0*k0);
       1 + s*0 + ((1-c)*(-k1)*k1 + (1-c)*k0*(-k0) + (1-c)*0*0)].
Proof.
  intros Hk Hc.
  assert (Uk : k0*k0 = 1 - k1*k1 - k2*k2) by lra. assert (Uc : c*c = 1 - s*s) by lra.
  unfold SO3. cbv [mmul3 mtr3 det3 I3 e nth length]. split; [reflexivity|].
  split; [list_eq; ring [Uk Uc]|]. split; [list_eq; ring [Uk Uc]|ring [Uk Uc]].
Qed.

Lemma rodrigues_SO3 a0 a1 a2 c s : nz3 a0 a1 a2 -> c*c + s*s = 1 -> SO3 (rodriguesR a0 a1 a2 c s).
Proof.
  intros Hn Hc. pose proof (n3_pos _ _ _ Hn) as Hp. pose proof (n3_sq a0 a1 a2) as Hs.
  unfold n3 in *.
  assert (Hk : (a0 / sqrt (a0*a0 + a1*a1 + a2*a2)) * (a0 / sqrt (a0*a0 + a1*a1 + a2*a2)) +
               (a1 / sqrt (a0*a0 + a1*a1 + a2*a2)) * (a1 / sqrt (a0*a0 + a1*a1 + a2*a2)) +
               (a2 / sqrt (a0*a0 + a1*a1 + a2*a2)) * (a2 / sqrt (a0*a0 + a1*a1 + a2*a2)) = 1).
  { set (n := sqrt _) in *. field_simplify_eq; [|lra]. nra. }
  pose proof (rodrigues_unit_SO3 _ _ _ c s Hk Hc) as H.
  unfold_model.
  match goal with |- SO3 ?A => match type of H with SO3 ?B => replace A with B; [exact H|] end end.
  list_eq; ring.
Qed.

(* ---- composition with the regenerated gate ---------------------------------------------------------- *)
Lemma gate9_SO3 M : SO3 M -> gate9 M = Val M.
Proof.
  intros H. pose proof H as (L & _). destruct (len9 M L) as (a0&a1&a2&a3&a4&a5&a6&a7&a8&->).
  apply gate_accepts, so3_close_of_SO3, H.
Qed.

(* DCM(x=, y=, z=), DCM(rpy=), DCM(euler=(seq, angles)), DCM(axang=) : hand model of the angle part, then the gate *)
Definition DCM_xyz_model (cx sx cy sy cz sz : R) : outcome R := gate9 (dcm_xyzR cx sx cy sy cz sz).
Definition DCM_rpy_model (c0 s0 c1 s1 c2 s2 : R) : outcome R := gate9 (dcm_rpyR c0 s0 c1 s1 c2 s2).
Definition DCM_euler_model (l : list (axis * R * R)) : outcome R := gate9 (rot_seqR l).
Definition DCM_axang_model (a0 a1 a2 c s : R) : outcome R := gate9 (rodriguesR a0 a1 a2 c s).

Definition cs_of (x : axis * R) : axis * R * R := (fst x, cos (snd x), sin (snd x)).
Lemma cs_of_unit l : Forall unit_cs (map cs_of l).
Proof.
  induction l as [|[a t] r IH]; constructor; [|exact IH]. unfold cs_of, unit_cs. cbn.
  pose proof (sin2_cos2 t) as H. unfold Rsqr in H. lra.
Qed.
Lemma cs1 t : cos t * cos t + sin t * sin t = 1.
Proof. pose proof (sin2_cos2 t) as H. unfold Rsqr in H. lra. Qed.

Lemma DCM_euler_route l : DCM_euler_model (map cs_of l) = Val (rot_seqR (map cs_of l)) /\ SO3 (rot_seqR (map cs_of l)).
Proof. pose proof (rot_seq_SO3 _ (cs_of_unit l)) as H. split; [apply gate9_SO3, H|exact H]. Qed.
Lemma DCM_xyz_route x y z :
  DCM_xyz_model (cos x) (sin x) (cos y) (sin y) (cos z) (sin z) = Val (dcm_xyzR (cos x) (sin x) (cos y) (sin y) (cos z) (sin z)) /\
  SO3 (dcm_xyzR (cos x) (sin x) (cos y) (sin y) (cos z) (sin z)).
Proof. pose proof (xyz_SO3 _ _ _ _ _ _ (cs1 x) (cs1 y) (cs1 z)) as H. split; [apply gate9_SO3, H|exact H]. Qed.
Lemma DCM_rpy_route a0 a1 a2 :
  DCM_rpy_model (cos a0) (sin a0) (cos a1) (sin a1) (cos a2) (sin a2) =
    Val (dcm_rpyR (cos a0) (sin a0) (cos a1) (sin a1) (cos a2) (sin a2)) /\
  SO3 (dcm_rpyR (cos a0) (sin a0) (cos a1) (sin a1) (cos a2) (sin a2)).
Proof. pose proof (rpy_SO3 _ _ _ _ _ _ (cs1 a0) (cs1 a1) (cs1 a2)) as H. split; [apply gate9_SO3, H|exact H]. Qed.
Lemma DCM_axang_route a0 a1 a2 t : nz3 a0 a1 a2 ->
  DCM_axang_model a0 a1 a2 (cos t) (sin t) = Val (rodriguesR a0 a1 a2 (cos t) (sin t)) /\
  SO3 (rodriguesR a0 a1 a2 (cos t) (sin t)).
Proof. intros Hn. pose proof (rodrigues_SO3 _ _ _ _ _ Hn (cs1 t)) as H. split; [apply gate9_SO3, H|exact H]. Qed.
(* the early exits of `rotation` (angle 0, whole turns) are the pair (c, s) = (1, 0): the identity *)
Lemma elem_early a : elemR a 1 0 = I3.
Proof. destruct a; cbv [elemR elem I3]; list_eq; ring. Qed.

(* ---- regenerated routes ------------------------------------------------------------------------------ *)
(* the hand model of the axis-angle route IS the regenerated code at the traced angle (3/4 rad), for every axis *)
Lemma DCM_axang_c_is_model k0 k1 k2 : nz3 k0 k1 k2 ->
  C11_DCM_axang_c_R k0 k1 k2 = DCM_axang_model k0 k1 k2 (cos (3/4)) (sin (3/4)).
Proof.
  intros Hn. destruct (DCM_axang_route k0 k1 k2 (3/4) Hn) as [E HS]. rewrite E.
  apply so3_close_of_SO3 in HS. revert HS. unfold so3_close, tol_d, tol_o. unfold_model. cbv [mmul3 mtr3 det3 e nth].
  intros (H0 & H1 & H2 & H3 & H4 & H5 & H6 & H7 & H8 & H9).
  unfold C11_DCM_axang_c_R. cbv zeta. repeat gate_true. val_eq; ring.
Qed.

(* DCM(q=q) for every non-zero q: the textbook matrix of the versor of q, a proper rotation *)
Lemma DCM_q_route w x y z : nz4 w x y z ->
  C11_DCM_q_R w x y z = Val (Rspec (vers w x y z)) /\ SO3 (Rspec (vers w x y z)).
Proof.
  intros Hn. pose proof (versor_sq _ _ _ _ Hn) as U.
  assert (HS : SO3 (Rspec (vers w x y z))) by (apply Rspec_SO3; exact U).
  split; [|exact HS].
  apply so3_close_of_SO3 in HS. revert HS. unfold so3_close, tol_d, tol_o, vers, n4.
  cbv [Rspec mmul3 mtr3 det3 e nth].
  intros (H0 & H1 & H2 & H3 & H4 & H5 & H6 & H7 & H8 & H9).
  unfold C11_DCM_q_R. cbv zeta. repeat gate_true. val_eq; ring.
Qed.

(* Quaternion(dcm=M): the SO(3) check of from_DCM is the same predicate as the DCM gate *)
Example routes_nonvacuous : nz3 1 2 3 /\ Forall unit_cs (map cs_of [(AZ, 1/2); (AX, -1/4); (AZ, 2)]) /\ nz4 1 2 3 4.
Proof. split; [unfold nz3; lra|]. split; [apply cs_of_unit|unfold nz4; lra]. Qed.
