(* C11_qdcm.v — Quaternion(dcm=M) with the default method (shepperd), the whole regenerated decision tree
   (26 paths): whatever it returns is a unit quaternion and nothing but ValueError is raised.
   Compiled in the thorough tier only (about 70 s); the quick tier proves the same statement for the
   branch-free method='chiaverini' variant, which passes through the same from_DCM check. *)
From Coq Require Import Reals List Lra Psatz.
From AhrsLib Require Import Base Rot.
From AhrsGen Require Import C11gen_R.
From AhrsProps Require Import C11_norm.
Import ListNotations.
Open Scope R_scope.

Theorem C11_Q_dcm_shepperd_unit_or_ValueError : forall m00 m01 m02 m10 m11 m12 m20 m21 m22 o,
  C11_Q_dcm_R m00 m01 m02 m10 m11 m12 m20 m21 m22 = o -> unit_or_VE o.
Proof. intros until o. unfold C11_Q_dcm_R. walk leaf_post. Qed.
Print Assumptions C11_Q_dcm_shepperd_unit_or_ValueError.
