(* C11_qdcm.v — Quaternion(dcm=M), default method: the whole regenerated decision tree (from_DCM's SO(3) check,
   the four shepperd branches, two normalisations, the constructor's zero test; 26 paths).
   Whatever it returns is a unit quaternion, nothing but ValueError is raised, and a matrix that fails the
   check (the same predicate so3_close as the DCM gate) is rejected. *)
From Coq Require Import Reals List Lra Psatz.
From AhrsLib Require Import Base Rot.
From AhrsGen Require Import C11gen_R.
From AhrsProps Require Import C11_norm C11_gate.
Import ListNotations.
Open Scope R_scope.

Lemma Q_dcm_unit_or_VE m00 m01 m02 m10 m11 m12 m20 m21 m22 o :
  C11_Q_dcm_R m00 m01 m02 m10 m11 m12 m20 m21 m22 = o -> unit_or_VE o.
Proof. cbv beta delta [C11_Q_dcm_R]. walk leaf_post. Qed.

(* walk only the chain of gates  if c then .. else Raise _  at the top of the tree *)
Ltac walk_gates leaf :=
  lazymatch goal with
  | |- (if ?c then ?a else ?b) = ?r -> ?G =>
      lazymatch b with
      | Raise _ => refine (if_elim c a b (fun o => o = r -> G) _ _); intro; [walk_gates leaf | leaf]
      | _ => leaf
      end
  | |- _ => leaf
  end.

Lemma Q_dcm_rejects m00 m01 m02 m10 m11 m12 m20 m21 m22 :
  ~ so3_close [m00;m01;m02;m10;m11;m12;m20;m21;m22] ->
  C11_Q_dcm_R m00 m01 m02 m10 m11 m12 m20 m21 m22 = Raise ValueError.
Proof.
  intros Hn.
  assert (G : forall o, C11_Q_dcm_R m00 m01 m02 m10 m11 m12 m20 m21 m22 = o -> o = Raise ValueError).
  { intros o. cbv beta delta [C11_Q_dcm_R].
    walk_gates ltac:(let E := fresh "E" in intros E;
      first [ symmetry; exact E
            | exfalso; apply Hn; unfold so3_close, tol_d, tol_o; cbv [mmul3 mtr3 det3 e nth];
              repeat split; use_close ]). }
  apply G. reflexivity.
Qed.

(* so the matrices that Quaternion(dcm=) converts are exactly within the gate's tolerance of SO(3) *)
Lemma Q_dcm_val_close m00 m01 m02 m10 m11 m12 m20 m21 m22 l :
  C11_Q_dcm_R m00 m01 m02 m10 m11 m12 m20 m21 m22 = Val l ->
  so3_close [m00;m01;m02;m10;m11;m12;m20;m21;m22] /\ unit4l l.
Proof.
  intros E. split; [|exact (Q_dcm_unit_or_VE _ _ _ _ _ _ _ _ _ _ E)].
  destruct (gate_cases m00 m01 m02 m10 m11 m12 m20 m21 m22) as [[C _]|[Hn _]]; [exact C|].
  rewrite (Q_dcm_rejects _ _ _ _ _ _ _ _ _ Hn) in E. discriminate E.
Qed.
