(* C11.v — property C11: constructors only ever produce valid rotations and reject what cannot be one.
   Only statements, closed by `exact`-style glue, each followed by Print Assumptions. *)
From Coq Require Import Reals List Lra.
From AhrsLib Require Import Base Rot.
From AhrsModel Require Import C11_routes C11_decision.
From AhrsGen Require Import C11gen_R.
From AhrsProps Require Import C11_norm C11_gate C11_routes C11_qdcm.
Import ListNotations.
Open Scope R_scope.

(* ---- quaternions ----------------------------------------------------------------------------------- *)
(* Quaternion(v), v a non-zero 4- or 3-vector: returns lambda*v with lambda > 0, of norm one *)
Theorem C11_normalize_unit_same_direction : forall w x y z, 0 < w*w + x*x + y*y + z*z ->
  exists lam, 0 < lam /\ C11_Q4_R w x y z = Val [lam*w; lam*x; lam*y; lam*z] /\
              (lam*w)*(lam*w) + (lam*x)*(lam*x) + (lam*y)*(lam*y) + (lam*z)*(lam*z) = 1.
Proof. exact Q4_same_direction. Qed.
Print Assumptions C11_normalize_unit_same_direction.

Theorem C11_normalize_pure_unit_same_direction : forall x y z, 0 < x*x + y*y + z*z ->
  exists lam, 0 < lam /\ C11_Q3_R x y z = Val [0; lam*x; lam*y; lam*z] /\
              0*0 + (lam*x)*(lam*x) + (lam*y)*(lam*y) + (lam*z)*(lam*z) = 1.
Proof. exact Q3_same_direction. Qed.
Print Assumptions C11_normalize_pure_unit_same_direction.

(* the zero vector is rejected with ValueError, and it is the only thing Quaternion(v4) rejects *)
Theorem C11_quaternion_rejects_exactly_zero :
  C11_Q4_R 0 0 0 0 = Raise ValueError /\ C11_Q3_R 0 0 0 = Raise ValueError /\
  (forall w x y z ex, C11_Q4_R w x y z = Raise ex -> ex = ValueError /\ w = 0 /\ x = 0 /\ y = 0 /\ z = 0).
Proof.
  split; [exact Q4_zero|]. split; [exact Q3_zero|].
  intros w x y z ex H. split; [exact (Q4_raises_VE _ _ _ _ _ H)|exact (Q4_raises_only_zero _ _ _ _ _ H)].
Qed.
Print Assumptions C11_quaternion_rejects_exactly_zero.

(* QuaternionArray: two generic rows (N x 4 and N x 3): every row is normalised in its own direction; one zero
   row rejects the array; nothing but ValueError is raised; whatever is returned has unit rows *)
Theorem C11_quaternion_array_rows : forall a b c d w x y z,
  (0 < a*a + b*b + c*c + d*d -> 0 < w*w + x*x + y*y + z*z ->
     C11_QA4_R a b c d w x y z =
       Val [a / n4 a b c d; b / n4 a b c d; c / n4 a b c d; d / n4 a b c d;
            w / n4 w x y z; x / n4 w x y z; y / n4 w x y z; z / n4 w x y z]) /\
  (forall l, C11_QA4_R a b c d w x y z = Val l -> length l = 8%nat /\ unit_rows l) /\
  (forall ex, C11_QA4_R a b c d w x y z = Raise ex -> ex = ValueError) /\
  ((a = 0 /\ b = 0 /\ c = 0 /\ d = 0) \/ (w = 0 /\ x = 0 /\ y = 0 /\ z = 0) ->
     C11_QA4_R a b c d w x y z = Raise ValueError).
Proof.
  intros. split; [exact (QA4_value a b c d w x y z)|]. split; [exact (QA4_returns_unit a b c d w x y z)|].
  split; [exact (QA4_raises_VE a b c d w x y z)|exact (QA4_zero_row a b c d w x y z)].
Qed.
Print Assumptions C11_quaternion_array_rows.

Theorem C11_quaternion_array_pure_rows : forall b c d x y z,
  (0 < b*b + c*c + d*d -> 0 < x*x + y*y + z*z ->
     C11_QA3_R b c d x y z =
       Val [0; b / n3 b c d; c / n3 b c d; d / n3 b c d; 0; x / n3 x y z; y / n3 x y z; z / n3 x y z]) /\
  (forall l, C11_QA3_R b c d x y z = Val l -> length l = 8%nat /\ unit_rows l) /\
  (forall ex, C11_QA3_R b c d x y z = Raise ex -> ex = ValueError) /\
  ((b = 0 /\ c = 0 /\ d = 0) \/ (x = 0 /\ y = 0 /\ z = 0) -> C11_QA3_R b c d x y z = Raise ValueError).
Proof.
  intros. split; [exact (QA3_value b c d x y z)|]. split; [exact (QA3_returns_unit b c d x y z)|].
  split; [exact (QA3_raises_VE b c d x y z)|exact (QA3_zero_row b c d x y z)].
Qed.
Print Assumptions C11_quaternion_array_pure_rows.

(* sums and differences: a non-vanishing sum / difference of the two versors is returned as a unit quaternion;
   whatever is returned is a unit quaternion; a vanishing one (q - q, q + (-q)) is rejected with ValueError *)
Theorem C11_sum_difference_unit : forall a b c d w x y z,
  (forall l, C11_add_R a b c d w x y z = Val l -> unit4l l) /\
  (forall l, C11_sub_R a b c d w x y z = Val l -> unit4l l) /\
  (forall ex, C11_add_R a b c d w x y z = Raise ex -> ex = ValueError) /\
  (forall ex, C11_sub_R a b c d w x y z = Raise ex -> ex = ValueError) /\
  (0 < a*a + b*b + c*c + d*d -> 0 < w*w + x*x + y*y + z*z ->
     (0 < qnorm2 (qadd (vers a b c d) (vers w x y z)) -> exists l, C11_add_R a b c d w x y z = Val l /\ unit4l l) /\
     (0 < qnorm2 (qsub (vers a b c d) (vers w x y z)) -> exists l, C11_sub_R a b c d w x y z = Val l /\ unit4l l)).
Proof.
  intros. split; [exact (add_returns_unit a b c d w x y z)|]. split; [exact (sub_returns_unit a b c d w x y z)|].
  split; [exact (add_raises_VE a b c d w x y z)|]. split; [exact (sub_raises_VE a b c d w x y z)|].
  intros Hp Hq. split; [exact (add_nonvanishing a b c d w x y z Hp Hq)|exact (sub_nonvanishing a b c d w x y z Hp Hq)].
Qed.
Print Assumptions C11_sum_difference_unit.

Theorem C11_vanishing_sum_rejected : forall w x y z, 0 < w*w + x*x + y*y + z*z ->
  C11_sub_R w x y z w x y z = Raise ValueError /\ C11_add_R w x y z (-w) (-x) (-y) (-z) = Raise ValueError.
Proof. intros w x y z H. split; [exact (sub_self_rejected w x y z H)|exact (add_neg_rejected w x y z H)]. Qed.
Print Assumptions C11_vanishing_sum_rejected.

(* random_attitudes: for every value of its three uniform draws (u1 in [0,1]) the result is a unit quaternion *)
Theorem C11_random_attitude_unit : forall u1 u2 u3, 0 <= u1 <= 1 ->
  exists l, C11_random_R u1 u2 u3 = Val l /\ unit4l l.
Proof. exact random_unit. Qed.
Print Assumptions C11_random_attitude_unit.

(* rotate_by: for non-zero p and q the rotated row is the Hamilton product of the versors, a unit quaternion *)
Theorem C11_rotate_by_unit : forall a b c d w x y z, 0 < a*a + b*b + c*c + d*d -> 0 < w*w + x*x + y*y + z*z ->
  exists l, C11_rotate_by_R a b c d w x y z = Val l /\ unit4l l /\ l = qmul (vers w x y z) (vers a b c d).
Proof. exact rotate_by_unit. Qed.
Print Assumptions C11_rotate_by_unit.

(* ---- the SO(3) gate of DCM(M) ---------------------------------------------------------------------- *)
(* the regenerated gate decides exactly the predicate so3_close, returns its argument, raises only ValueError *)
Theorem C11_gate_is_so3_close : forall m0 m1 m2 m3 m4 m5 m6 m7 m8,
  let M := [m0;m1;m2;m3;m4;m5;m6;m7;m8] in
  (so3_close M /\ C11_DCM_matrix_R m0 m1 m2 m3 m4 m5 m6 m7 m8 = Val M) \/
  (~ so3_close M /\ C11_DCM_matrix_R m0 m1 m2 m3 m4 m5 m6 m7 m8 = Raise ValueError).
Proof. intros. exact (gate_cases m0 m1 m2 m3 m4 m5 m6 m7 m8). Qed.
Print Assumptions C11_gate_is_so3_close.

(* rejection of the named families at distance >= 1e-4: reflections (det = -1), scalings (1+eps) R
   (shears R (I + eps E12): C11_tol.v) *)
Theorem C11_so3_gate_rejects : forall r0 r1 r2 r3 r4 r5 r6 r7 r8 eps,
  let R := [r0;r1;r2;r3;r4;r5;r6;r7;r8] in
  (det3 R = -1 -> gate9 R = Raise ValueError) /\
  (SO3 R -> 1/10000 <= Rabs eps -> gate9 (mscale (1 + eps) R) = Raise ValueError).
Proof.
  intros. split.
  - intros H. apply (gate_rejects r0 r1 r2 r3 r4 r5 r6 r7 r8), reflection_not_close, H.
  - intros HS He. pose proof (scaling_not_close eps _ _ _ _ _ _ _ _ _ HS He) as N.
    exact (gate_rejects _ _ _ _ _ _ _ _ _ N).
Qed.
Print Assumptions C11_so3_gate_rejects.

(* NaN entries (hand model over option R, None = NaN, every comparison with NaN false): on finite entries the
   hand model decides as the regenerated gate; with a NaN anywhere it rejects *)
Theorem C11_so3_gate_rejects_nan :
  (forall m0 m1 m2 m3 m4 m5 m6 m7 m8, let M := [m0;m1;m2;m3;m4;m5;m6;m7;m8] in
     (ogate_ok (map Some M) = true -> gate9 M = Val M) /\
     (ogate_ok (map Some M) = false -> gate9 M = Raise ValueError)) /\
  (forall A, length A = 9%nat -> In None A -> ogate_ok A = false).
Proof. split; [exact ogate_finite|exact ogate_nan_rejected]. Qed.
Print Assumptions C11_so3_gate_rejects_nan.

(* ---- every DCM construction route yields a proper rotation ----------------------------------------- *)
(* DCM(q=q), regenerated: for every non-zero q the textbook matrix of its versor, in SO(3), accepted *)
Theorem C11_DCM_from_quaternion_SO3 : forall w x y z, 0 < w*w + x*x + y*y + z*z ->
  C11_DCM_q_R w x y z = Val (Rspec (vers w x y z)) /\ SO3 (Rspec (vers w x y z)).
Proof. exact DCM_q_route. Qed.
Print Assumptions C11_DCM_from_quaternion_SO3.

(* DCM(axang=(k, t)): the hand model (Rodrigues) composed with the regenerated gate returns a proper rotation for
   every non-zero axis and every angle, and it IS the regenerated code at the traced angle for every axis *)
Theorem C11_DCM_axis_angle_SO3 : forall k0 k1 k2 t, 0 < k0*k0 + k1*k1 + k2*k2 ->
  DCM_axang_model k0 k1 k2 (cos t) (sin t) = Val (rodriguesR k0 k1 k2 (cos t) (sin t)) /\
  SO3 (rodriguesR k0 k1 k2 (cos t) (sin t)) /\
  C11_DCM_axang_c_R k0 k1 k2 = DCM_axang_model k0 k1 k2 (cos (3/4)) (sin (3/4)).
Proof.
  intros k0 k1 k2 t H. destruct (DCM_axang_route k0 k1 k2 t H) as [A B].
  split; [exact A|]. split; [exact B|exact (DCM_axang_c_is_model k0 k1 k2 H)].
Qed.
Print Assumptions C11_DCM_axis_angle_SO3.

(* DCM(x=,y=,z=), DCM(rpy=), DCM(euler=(axes, angles)) for sequences of ANY length and any angles: hand model of
   rotation / rot_seq composed with the regenerated gate; the early exits of `rotation` are (c,s) = (1,0) *)
Theorem C11_DCM_angle_routes_SO3 :
  (forall x y z, DCM_xyz_model (cos x) (sin x) (cos y) (sin y) (cos z) (sin z) =
                   Val (dcm_xyzR (cos x) (sin x) (cos y) (sin y) (cos z) (sin z)) /\
                 SO3 (dcm_xyzR (cos x) (sin x) (cos y) (sin y) (cos z) (sin z))) /\
  (forall a0 a1 a2, DCM_rpy_model (cos a0) (sin a0) (cos a1) (sin a1) (cos a2) (sin a2) =
                   Val (dcm_rpyR (cos a0) (sin a0) (cos a1) (sin a1) (cos a2) (sin a2)) /\
                 SO3 (dcm_rpyR (cos a0) (sin a0) (cos a1) (sin a1) (cos a2) (sin a2))) /\
  (forall l : list (axis * R), DCM_euler_model (map cs_of l) = Val (rot_seqR (map cs_of l)) /\ SO3 (rot_seqR (map cs_of l))) /\
  (forall l, Forall unit_cs l -> SO3 (rot_seqR l)) /\
  (forall a, elemR a 1 0 = I3).
Proof.
  split; [exact DCM_xyz_route|]. split; [exact DCM_rpy_route|]. split; [exact DCM_euler_route|].
  split; [exact rot_seq_SO3|exact elem_early].
Qed.
Print Assumptions C11_DCM_angle_routes_SO3.

(* Quaternion(dcm=M), regenerated, all 26 paths: a result is returned only for matrices within the gate's
   tolerance of SO(3) and is then a unit quaternion; anything else raises ValueError *)
Theorem C11_quaternion_from_DCM_checked : forall m00 m01 m02 m10 m11 m12 m20 m21 m22,
  let M := [m00;m01;m02;m10;m11;m12;m20;m21;m22] in
  (forall l, C11_Q_dcm_R m00 m01 m02 m10 m11 m12 m20 m21 m22 = Val l -> so3_close M /\ unit4l l) /\
  (forall ex, C11_Q_dcm_R m00 m01 m02 m10 m11 m12 m20 m21 m22 = Raise ex -> ex = ValueError) /\
  (~ so3_close M -> C11_Q_dcm_R m00 m01 m02 m10 m11 m12 m20 m21 m22 = Raise ValueError).
Proof.
  intros. split; [exact (Q_dcm_val_close m00 m01 m02 m10 m11 m12 m20 m21 m22)|]. split.
  - intros ex H. exact (Q_dcm_unit_or_VE _ _ _ _ _ _ _ _ _ _ H).
  - exact (Q_dcm_rejects m00 m01 m02 m10 m11 m12 m20 m21 m22).
Qed.
Print Assumptions C11_quaternion_from_DCM_checked.

(* ---- the accept / reject decision (hand model, exhaustive grid correspondence) ---------------------- *)
Theorem C11_decision_never_accepts_invalid : forall c k d s x,
  (k = Nd \/ k = Lst \/ k = Tup) -> size s <> 0%nat ->
  (x = Zero \/ x = ZeroRow \/ x = NaN \/ (c = Dcm /\ (x = Reflect \/ x = Scaled))) ->
  decide c k d s x <> Ok.
Proof. exact decide_never_accepts_invalid. Qed.
Print Assumptions C11_decision_never_accepts_invalid.

(* non-vacuity of the hypotheses used above *)
Example C11_nonvacuous :
  (0 < 1*1 + 2*2 + 3*3 + 4*4) /\ SO3 [0; -1; 0;  1; 0; 0;  0; 0; 1] /\ det3 [0; 1; 0;  1; 0; 0;  0; 0; 1] = -1 /\
  decide Quat Nd F64 [4%nat] Generic = Ok /\ decide Dcm Nd F64 [3%nat;3%nat] Reflect = VErr /\ decide Quat Lst Str [4%nat] Generic = TErr.
Proof.
  split; [lra|]. destruct gate_nonvacuous as (A & B & _). split; [exact A|]. split; [exact B|]. repeat split; reflexivity.
Qed.
