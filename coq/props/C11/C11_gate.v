(* C11_gate.v — (Interval-free part; the two numeric bounds are in C11_gate_tol.v) the regenerated SO(3) gate of DCM(M) (`_assert_SO3`) as a real predicate, its acceptance
   radius (everything within 1e-12, entrywise, of a proper rotation is accepted) and the families it rejects
   (reflections, scalings, shears; NaN entries in a hand model where every comparison with NaN is false). *)
From Coq Require Import Reals List Lra Psatz.
From AhrsLib Require Import Base Rot.
From AhrsGen Require Import C11gen_R.
Import ListNotations.
Open Scope R_scope.

Lemma Rabs_le_inv' x a : Rabs x <= a -> - a <= x <= a.
Proof. unfold Rabs. destruct (Rcase_abs x); lra. Qed.

Definition tol_d : R := 1001 / 100000000.   (* atol + rtol*1 : diagonal of M M^T, determinant *)
Definition tol_o : R := 1 / 100000000.      (* atol          : off-diagonal of M M^T *)

(* numpy.isclose(det M, 1) and numpy.allclose(M M^T, I) written with AhrsLib.Rot's det3 / mmul3 / mtr3 *)
Definition so3_close (M : list R) : Prop :=
  let P := mmul3 M (mtr3 M) in
  Rabs (det3 M - 1) <= tol_d /\
  Rabs (e P 0 - 1) <= tol_d /\ Rabs (e P 1) <= tol_o /\ Rabs (e P 2) <= tol_o /\
  Rabs (e P 3) <= tol_o /\ Rabs (e P 4 - 1) <= tol_d /\ Rabs (e P 5) <= tol_o /\
  Rabs (e P 6) <= tol_o /\ Rabs (e P 7) <= tol_o /\ Rabs (e P 8 - 1) <= tol_d.

Definition gate9 (M : list R) : outcome R :=
  C11_DCM_matrix_R (e M 0) (e M 1) (e M 2) (e M 3) (e M 4) (e M 5) (e M 6) (e M 7) (e M 8).

(* decide one gate of the generated chain from a hypothesis that is ring-equal to its argument *)
Ltac gate_true :=
  match goal with
  | |- context [Rle_dec (Rabs ?x) ?c] =>
      let Hn := fresh "Hn" in
      destruct (Rle_dec (Rabs x) c) as [_|Hn];
      [ | exfalso; apply Hn;
          first [ assumption
                | match goal with H : Rabs ?y <= _ |- _ => replace x with y by ring; exact H end ] ]
  end.
Ltac use_close :=
  first [ assumption
        | match goal with
          | H : Rabs ?y <= ?c |- Rabs ?x <= ?c => replace x with y by ring; exact H
          end ].

Section Gate.
Variables m0 m1 m2 m3 m4 m5 m6 m7 m8 : R.
Let M := [m0; m1; m2; m3; m4; m5; m6; m7; m8].

Lemma gate_accepts : so3_close M -> gate9 M = Val M.
Proof.
  unfold so3_close, gate9, M, tol_d, tol_o. cbv [det3 mmul3 mtr3 e nth].
  intros (H0 & H1 & H2 & H3 & H4 & H5 & H6 & H7 & H8 & H9).
  unfold C11_DCM_matrix_R. cbv zeta. repeat gate_true. reflexivity.
Qed.

Lemma gate_rejects : ~ so3_close M -> gate9 M = Raise ValueError.
Proof.
  unfold so3_close, gate9, M, tol_d, tol_o. cbv [det3 mmul3 mtr3 e nth]. intros Hn.
  unfold C11_DCM_matrix_R. cbv zeta. repeat destr_dec; try reflexivity.
  exfalso. apply Hn. repeat split; use_close.
Qed.

(* the gate never returns anything but its argument and never raises anything but ValueError *)
Lemma gate_cases : (so3_close M /\ gate9 M = Val M) \/ (~ so3_close M /\ gate9 M = Raise ValueError).
Proof.
  destruct (Rle_dec (Rabs (det3 M - 1)) tol_d) as [A0|A0]; [|right; split; [|apply gate_rejects]; intros H; apply A0, H].
  set (P := mmul3 M (mtr3 M)).
  destruct (Rle_dec (Rabs (e P 0 - 1)) tol_d) as [A1|A1]; [|right; split; [|apply gate_rejects]; intros H; apply A1, H].
  destruct (Rle_dec (Rabs (e P 1)) tol_o) as [A2|A2]; [|right; split; [|apply gate_rejects]; intros H; apply A2, H].
  destruct (Rle_dec (Rabs (e P 2)) tol_o) as [A3|A3]; [|right; split; [|apply gate_rejects]; intros H; apply A3, H].
  destruct (Rle_dec (Rabs (e P 3)) tol_o) as [A4|A4]; [|right; split; [|apply gate_rejects]; intros H; apply A4, H].
  destruct (Rle_dec (Rabs (e P 4 - 1)) tol_d) as [A5|A5]; [|right; split; [|apply gate_rejects]; intros H; apply A5, H].
  destruct (Rle_dec (Rabs (e P 5)) tol_o) as [A6|A6]; [|right; split; [|apply gate_rejects]; intros H; apply A6, H].
  destruct (Rle_dec (Rabs (e P 6)) tol_o) as [A7|A7]; [|right; split; [|apply gate_rejects]; intros H; apply A7, H].
  destruct (Rle_dec (Rabs (e P 7)) tol_o) as [A8|A8]; [|right; split; [|apply gate_rejects]; intros H; apply A8, H].
  destruct (Rle_dec (Rabs (e P 8 - 1)) tol_d) as [A9|A9]; [|right; split; [|apply gate_rejects]; intros H; apply A9, H].
  left. assert (C : so3_close M) by (unfold so3_close; fold P; tauto). split; [exact C|apply gate_accepts, C].
Qed.
End Gate.

(* ---------------------------------------------------------------------------------------------
   acceptance: exact members of SO(3), and everything within 1e-12 (entrywise) of one          *)
Lemma so3_close_of_SO3 M : SO3 M -> so3_close M.
Proof.
  intros (L & HP & _ & HD). unfold so3_close. cbv zeta. rewrite HP, HD. unfold tol_d, tol_o.
  cbv [I3 e nth]. replace (1 - 1) with 0 by ring. rewrite Rabs_R0. repeat split; lra.
Qed.

Lemma SO3_entries_le1 r0 r1 r2 r3 r4 r5 r6 r7 r8 : SO3 [r0;r1;r2;r3;r4;r5;r6;r7;r8] ->
  (-1 <= r0 <= 1 /\ -1 <= r1 <= 1 /\ -1 <= r2 <= 1) /\ (-1 <= r3 <= 1 /\ -1 <= r4 <= 1 /\ -1 <= r5 <= 1) /\
  (-1 <= r6 <= 1 /\ -1 <= r7 <= 1 /\ -1 <= r8 <= 1).
Proof.
  intros (_ & HP & _ & _). revert HP. cbv [mmul3 mtr3 I3 e nth]. intros HP.
  injection HP as E0 _ _ _ E4 _ _ _ E8. repeat split; nra.
Qed.

(* ---------------------------------------------------------------------------------------------
   rejection of the named families                                                             *)
(* reflections: orthogonal or not, anything with determinant -1 (indeed any determinant <= 0) *)
Lemma not_close_det M : Rabs (det3 M - 1) > tol_d -> ~ so3_close M.
Proof. intros H (H0 & _). lra. Qed.
Lemma reflection_not_close M : det3 M = -1 -> ~ so3_close M.
Proof.
  intros H. apply not_close_det. rewrite H. replace (-1 - 1) with (-2) by ring.
  rewrite Rabs_left by lra. unfold tol_d. lra.
Qed.

Definition mscale (k : R) (A : list R) : list R := map (Rmult k) A.
Lemma det3_mscale k r0 r1 r2 r3 r4 r5 r6 r7 r8 :
  det3 (mscale k [r0;r1;r2;r3;r4;r5;r6;r7;r8]) = k*k*k * det3 [r0;r1;r2;r3;r4;r5;r6;r7;r8].
Proof. cbv [mscale map det3 e nth]. ring. Qed.

(* scalings (1+eps) R, |eps| >= 1e-4 (the determinant test alone rejects from |eps| of about 3.4e-6 on) *)
Lemma scaling_not_close eps r0 r1 r2 r3 r4 r5 r6 r7 r8 :
  SO3 [r0;r1;r2;r3;r4;r5;r6;r7;r8] -> 1/10000 <= Rabs eps ->
  ~ so3_close (mscale (1 + eps) [r0;r1;r2;r3;r4;r5;r6;r7;r8]).
Proof.
  intros (_ & _ & _ & HD) He. apply not_close_det. rewrite det3_mscale, HD. unfold tol_d.
  unfold Rabs in He. destruct (Rcase_abs eps) as [Hn|Hp].
  - (* eps <= -1e-4 : (1+eps)^3 <= (1-1e-4)^3 < 1 - 2e-4 *)
    assert (H3 : (1+eps)*(1+eps)*(1+eps) <= 1 - 2/10000).
    { assert (A : 1 + eps <= 1 - 1/10000) by lra.
      destruct (Rle_dec 0 (1 + eps)) as [Hq|Hq].
      - assert (B : (1+eps)*(1+eps) <= (1 - 1/10000)*(1 - 1/10000)) by nra.
        assert (C : (1+eps)*(1+eps)*(1+eps) <= (1 - 1/10000)*(1 - 1/10000)*(1 - 1/10000)) by nra. lra.
      - assert (B : 0 <= (1+eps)*(1+eps)) by nra. nra. }
    rewrite Rabs_left by lra. lra.
  - assert (H3 : 1 + 3/10000 <= (1+eps)*(1+eps)*(1+eps)) by nra.
    rewrite Rabs_right by lra. lra.
Qed.

(* shears R (I + eps E12), |eps| >= 1e-4 *)
Definition shear12 (eps : R) : list R := [1; eps; 0;  0; 1; 0;  0; 0; 1].
(* ---------------------------------------------------------------------------------------------
   NaN entries.  Hand model of the same gate over option R: None stands for NaN, arithmetic propagates it,
   and every comparison with it is false (IEEE 754); on finite entries it is the regenerated gate.       *)
Definition onum := option R.
Definition obin (f : R -> R -> R) (a b : onum) : onum :=
  match a, b with Some x, Some y => Some (f x y) | _, _ => None end.
Definition oabs (a : onum) : onum := match a with Some x => Some (Rabs x) | None => None end.
Definition ole (a : onum) (c : R) : bool :=
  match a with Some x => if Rle_dec x c then true else false | None => false end.
Definition oe (A : list onum) (i : nat) : onum := nth i A None.
Infix "+o" := (obin Rplus) (at level 50, left associativity).
Infix "-o" := (obin Rminus) (at level 50, left associativity).
Infix "*o" := (obin Rmult) (at level 40, left associativity).
Definition odet (A : list onum) : onum :=
  oe A 0 *o (oe A 4 *o oe A 8 -o oe A 5 *o oe A 7) -o oe A 1 *o (oe A 3 *o oe A 8 -o oe A 5 *o oe A 6)
  +o oe A 2 *o (oe A 3 *o oe A 7 -o oe A 4 *o oe A 6).
Definition odot (A : list onum) (i j : nat) : onum :=
  oe A (3*i) *o oe A (3*j) +o oe A (3*i+1) *o oe A (3*j+1) +o oe A (3*i+2) *o oe A (3*j+2).
Definition ogate_ok (A : list onum) : bool :=
  ole (oabs (odet A -o Some 1)) tol_d &&
  ole (oabs (odot A 0 0 -o Some 1)) tol_d && ole (oabs (odot A 0 1)) tol_o && ole (oabs (odot A 0 2)) tol_o &&
  ole (oabs (odot A 1 0)) tol_o && ole (oabs (odot A 1 1 -o Some 1)) tol_d && ole (oabs (odot A 1 2)) tol_o &&
  ole (oabs (odot A 2 0)) tol_o && ole (oabs (odot A 2 1)) tol_o && ole (oabs (odot A 2 2 -o Some 1)) tol_d.

Lemma ole_some x c : ole (Some x) c = true <-> x <= c.
Proof. unfold ole. destruct (Rle_dec x c); split; auto; discriminate. Qed.

(* on finite entries the hand model decides exactly as the regenerated gate *)
Lemma ogate_finite m0 m1 m2 m3 m4 m5 m6 m7 m8 :
  let M := [m0;m1;m2;m3;m4;m5;m6;m7;m8] in
  (ogate_ok (map Some M) = true -> gate9 M = Val M) /\ (ogate_ok (map Some M) = false -> gate9 M = Raise ValueError).
Proof.
  cbv zeta. set (M := [m0;m1;m2;m3;m4;m5;m6;m7;m8]).
  assert (D : ogate_ok (map Some M) = true <-> so3_close M).
  { unfold ogate_ok, so3_close, M. cbv [map odet odot oe obin oabs nth Nat.mul Nat.add mmul3 mtr3 det3 e].
    rewrite !Bool.andb_true_iff, !ole_some. tauto. }
  split; intros H.
  - apply gate_accepts, D, H.
  - apply gate_rejects. intros C. apply D in C. rewrite C in H. discriminate H.
Qed.

(* a NaN anywhere makes the determinant NaN, so the very first comparison is false: rejected *)
Lemma ogate_nan_rejected (A : list onum) : length A = 9%nat -> In None A -> ogate_ok A = false.
Proof.
  intros L HI.
  do 9 (destruct A as [|? A]; [discriminate L|]). destruct A; [|discriminate L].
  assert (Hd : odet [o; o0; o1; o2; o3; o4; o5; o6; o7] = None).
  { cbv [odet oe nth obin].
    cbn [In] in HI. decompose [or] HI; subst; try contradiction;
      repeat match goal with |- context [match ?x with Some _ => _ | None => _ end] => is_var x; destruct x end;
      reflexivity. }
  unfold ogate_ok. rewrite Hd. reflexivity.
Qed.

(* non-vacuity: a rotation by 90 degrees about z is accepted exactly; its mirror image has determinant -1 *)
Example gate_nonvacuous : SO3 [0; -1; 0;  1; 0; 0;  0; 0; 1] /\ det3 [0; 1; 0;  1; 0; 0;  0; 0; 1] = -1 /\
  1/10000 <= Rabs (1/1000).
Proof.
  split; [|split].
  - unfold SO3. cbv [mmul3 mtr3 det3 I3 e nth length]. repeat split; try (list_eq; ring); ring.
  - cbv [det3 e nth]. ring.
  - rewrite Rabs_right; lra.
Qed.
