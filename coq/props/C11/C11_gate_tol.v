(* C11_gate_tol.v — the two statements about the SO(3) gate that need numeric interval bounds (Interval library):
   the acceptance radius 1e-12 and the rejection of shears.  Kept apart so that C11.v's dependency cone stays
   Interval-free (the thorough tier's coqchk needs > 25 min for anything that depends on Interval/Flocq/Coquelicot). *)
From Coq Require Import Reals List Lra Psatz.
From Interval Require Import Tactic.
From AhrsLib Require Import Base Rot.
From AhrsGen Require Import C11gen_R.
From AhrsProps Require Import C11_gate.
Import ListNotations.
Open Scope R_scope.

Definition eps12 : R := 1 / 1000000000000.

Lemma so3_gate_accepts_close r0 r1 r2 r3 r4 r5 r6 r7 r8 m0 m1 m2 m3 m4 m5 m6 m7 m8 :
  SO3 [r0;r1;r2;r3;r4;r5;r6;r7;r8] ->
  Rabs (m0 - r0) <= eps12 -> Rabs (m1 - r1) <= eps12 -> Rabs (m2 - r2) <= eps12 ->
  Rabs (m3 - r3) <= eps12 -> Rabs (m4 - r4) <= eps12 -> Rabs (m5 - r5) <= eps12 ->
  Rabs (m6 - r6) <= eps12 -> Rabs (m7 - r7) <= eps12 -> Rabs (m8 - r8) <= eps12 ->
  so3_close [m0;m1;m2;m3;m4;m5;m6;m7;m8].
Proof.
  intros HS B0 B1 B2 B3 B4 B5 B6 B7 B8.
  pose proof (SO3_entries_le1 _ _ _ _ _ _ _ _ _ HS) as ((R0&R1&R2)&(R3&R4&R5)&(R6&R7&R8)).
  destruct HS as (_ & HP & _ & HD). revert HP HD. cbv [mmul3 mtr3 det3 I3 e nth]. intros HP HD.
  injection HP as P0 P1 P2 P3 P4 P5 P6 P7 P8.
  unfold eps12 in *.
  apply Rabs_le_inv' in B0, B1, B2, B3, B4, B5, B6, B7, B8.
  set (e0 := m0 - r0) in *. set (e1 := m1 - r1) in *. set (e2 := m2 - r2) in *.
  set (e3 := m3 - r3) in *. set (e4 := m4 - r4) in *. set (e5 := m5 - r5) in *.
  set (e6 := m6 - r6) in *. set (e7 := m7 - r7) in *. set (e8 := m8 - r8) in *.
  replace m0 with (r0 + e0) by (unfold e0; ring). replace m1 with (r1 + e1) by (unfold e1; ring).
  replace m2 with (r2 + e2) by (unfold e2; ring). replace m3 with (r3 + e3) by (unfold e3; ring).
  replace m4 with (r4 + e4) by (unfold e4; ring). replace m5 with (r5 + e5) by (unfold e5; ring).
  replace m6 with (r6 + e6) by (unfold e6; ring). replace m7 with (r7 + e7) by (unfold e7; ring).
  replace m8 with (r8 + e8) by (unfold e8; ring).
  clearbody e0 e1 e2 e3 e4 e5 e6 e7 e8.
  assert (I0 : -1/1000000000000 <= e0 <= 1/1000000000000) by lra.
  assert (I1 : -1/1000000000000 <= e1 <= 1/1000000000000) by lra.
  assert (I2 : -1/1000000000000 <= e2 <= 1/1000000000000) by lra.
  assert (I3' : -1/1000000000000 <= e3 <= 1/1000000000000) by lra.
  assert (I4 : -1/1000000000000 <= e4 <= 1/1000000000000) by lra.
  assert (I5 : -1/1000000000000 <= e5 <= 1/1000000000000) by lra.
  assert (I6 : -1/1000000000000 <= e6 <= 1/1000000000000) by lra.
  assert (I7 : -1/1000000000000 <= e7 <= 1/1000000000000) by lra.
  assert (I8 : -1/1000000000000 <= e8 <= 1/1000000000000) by lra.
  clear B0 B1 B2 B3 B4 B5 B6 B7 B8.
  unfold so3_close, tol_d, tol_o. cbv [mmul3 mtr3 det3 e nth].
  (* each residual is rewritten as (expression in r+e) - (the same expression in r), whose expansion has an
     e-factor in every monomial; plain interval evaluation of the expansion then bounds it *)
  Ltac resid Heq :=
    match goal with
    | |- Rabs (?X - 1) <= _ => rewrite <- Heq
    | |- Rabs ?X <= _ => replace X with (X - 0) by ring; rewrite <- Heq
    end;
    match goal with |- Rabs ?t <= _ => ring_simplify t end; interval.
  repeat split.
  - resid HD.
  - resid P0.
  - resid P1.
  - resid P2.
  - resid P3.
  - resid P4.
  - resid P5.
  - resid P6.
  - resid P7.
  - resid P8.
Qed.

Lemma shear_not_close eps r0 r1 r2 r3 r4 r5 r6 r7 r8 :
  SO3 [r0;r1;r2;r3;r4;r5;r6;r7;r8] -> 1/10000 <= Rabs eps ->
  ~ so3_close (mmul3 [r0;r1;r2;r3;r4;r5;r6;r7;r8] (shear12 eps)).
Proof.
  intros HS He HC.
  pose proof (SO3_entries_le1 _ _ _ _ _ _ _ _ _ HS) as ((R0&R1&R2)&(R3&R4&R5)&(R6&R7&R8)).
  destruct HS as (_ & _ & HQ & _). revert HQ. cbv [mmul3 mtr3 I3 e nth]. intros HQ.
  injection HQ as Q0 Q1 Q2 Q3 Q4 Q5 Q6 Q7 Q8.
  revert HC. unfold so3_close, shear12, tol_d, tol_o. cbv [mmul3 mtr3 det3 e nth].
  intros (_ & C0 & C1 & C2 & C3 & C4 & C5 & C6 & C7 & C8).
  (* d_k := (M M^T - I)_k ; then eps = sum_ij R_i0 d_ij R_j1 because R^T R = I *)
  match type of C0 with Rabs ?x <= _ => set (d0 := x) in * end.
  match type of C1 with Rabs ?x <= _ => set (d1 := x) in * end.
  match type of C2 with Rabs ?x <= _ => set (d2 := x) in * end.
  match type of C3 with Rabs ?x <= _ => set (d3 := x) in * end.
  match type of C4 with Rabs ?x <= _ => set (d4 := x) in * end.
  match type of C5 with Rabs ?x <= _ => set (d5 := x) in * end.
  match type of C6 with Rabs ?x <= _ => set (d6 := x) in * end.
  match type of C7 with Rabs ?x <= _ => set (d7 := x) in * end.
  match type of C8 with Rabs ?x <= _ => set (d8 := x) in * end.
  assert (K : eps = r0*(d0*r1 + d1*r4 + d2*r7) + r3*(d3*r1 + d4*r4 + d5*r7) + r6*(d6*r1 + d7*r4 + d8*r7)).
  { (* with a, b, c the columns of R:  a^T (M M^T - I) b = (a.a)(a.b) + (eps a.a + a.b)(eps a.b + b.b) + (a.c)(c.b) - a.b
       identically; the dot products are those of R^T R = I *)
    assert (K0 : r0*(d0*r1 + d1*r4 + d2*r7) + r3*(d3*r1 + d4*r4 + d5*r7) + r6*(d6*r1 + d7*r4 + d8*r7) =
                 (r0*r0 + r3*r3 + r6*r6) * (r0*r1 + r3*r4 + r6*r7) +
                 (eps * (r0*r0 + r3*r3 + r6*r6) + (r0*r1 + r3*r4 + r6*r7)) *
                 (eps * (r0*r1 + r3*r4 + r6*r7) + (r1*r1 + r4*r4 + r7*r7)) +
                 (r0*r2 + r3*r5 + r6*r8) * (r2*r1 + r5*r4 + r8*r7) - (r0*r1 + r3*r4 + r6*r7))
      by (unfold d0, d1, d2, d3, d4, d5, d6, d7, d8; ring).
    rewrite K0, Q0, Q1, Q2, Q4, Q7. ring. }
  apply Rabs_le_inv' in C0, C1, C2, C3, C4, C5, C6, C7, C8.
  clearbody d0 d1 d2 d3 d4 d5 d6 d7 d8.
  assert (B : Rabs eps <= 4/100000).
  { rewrite K.
    assert (J0 : -1001/100000000 <= d0 <= 1001/100000000) by lra.
    assert (J1 : -1/100000000 <= d1 <= 1/100000000) by lra.
    assert (J2 : -1/100000000 <= d2 <= 1/100000000) by lra.
    assert (J3 : -1/100000000 <= d3 <= 1/100000000) by lra.
    assert (J4 : -1001/100000000 <= d4 <= 1001/100000000) by lra.
    assert (J5 : -1/100000000 <= d5 <= 1/100000000) by lra.
    assert (J6 : -1/100000000 <= d6 <= 1/100000000) by lra.
    assert (J7 : -1/100000000 <= d7 <= 1/100000000) by lra.
    assert (J8 : -1001/100000000 <= d8 <= 1001/100000000) by lra.
    clear C0 C1 C2 C3 C4 C5 C6 C7 C8 Q0 Q1 Q2 Q3 Q4 Q5 Q6 Q7 Q8 K He. interval. }
  lra.
Qed.

