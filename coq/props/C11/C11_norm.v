(* C11_norm.v — the regenerated quaternion constructors (Quaternion, QuaternionArray, + / -, random_attitudes,
   rotate_by, Quaternion(dcm=)) normalise: whatever they return is a unit quaternion, it points the same way as
   the input, zero vectors raise ValueError, and nothing else is ever raised. *)
From Coq Require Import Reals List Lra Psatz.
From AhrsLib Require Import Base Rot.
From AhrsGen Require Import C11gen_R.
Import ListNotations.
Open Scope R_scope.

Definition nz4 (w x y z : R) : Prop := 0 < w*w + x*x + y*y + z*z.
Definition nz3 (x y z : R) : Prop := 0 < x*x + y*y + z*z.
Definition n4 (w x y z : R) : R := sqrt (w*w + x*x + y*y + z*z).
Definition n3 (x y z : R) : R := sqrt (x*x + y*y + z*z).
Definition unit4l (l : list R) : Prop := length l = 4%nat /\ qnorm2 l = 1.
(* an N x 4 array, row-major, all of whose rows are unit quaternions *)
Fixpoint unit_rows (l : list R) : Prop :=
  match l with
  | [] => True
  | a :: b :: c :: d :: r => a*a + b*b + c*c + d*d = 1 /\ unit_rows r
  | _ => False
  end.

Lemma ss4_ge0 a b c d : 0 <= a*a + b*b + c*c + d*d. Proof. nra. Qed.
Lemma ss3_ge0 a b c : 0 <= a*a + b*b + c*c. Proof. nra. Qed.

Lemma n4_pos w x y z : nz4 w x y z -> 0 < n4 w x y z.
Proof. intros H. apply sqrt_lt_R0. exact H. Qed.
Lemma n4_sq w x y z : n4 w x y z * n4 w x y z = w*w + x*x + y*y + z*z.
Proof. apply sqrt_sqrt, ss4_ge0. Qed.
Lemma n3_pos x y z : nz3 x y z -> 0 < n3 x y z.
Proof. intros H. apply sqrt_lt_R0. exact H. Qed.
Lemma n3_sq x y z : n3 x y z * n3 x y z = x*x + y*y + z*z.
Proof. apply sqrt_sqrt, ss3_ge0. Qed.

(* a vector divided by its own non-zero norm has norm one *)
Lemma div4_unit a b c d : sqrt (a*a + b*b + c*c + d*d) <> 0 ->
  (a / sqrt (a*a + b*b + c*c + d*d)) * (a / sqrt (a*a + b*b + c*c + d*d)) +
  (b / sqrt (a*a + b*b + c*c + d*d)) * (b / sqrt (a*a + b*b + c*c + d*d)) +
  (c / sqrt (a*a + b*b + c*c + d*d)) * (c / sqrt (a*a + b*b + c*c + d*d)) +
  (d / sqrt (a*a + b*b + c*c + d*d)) * (d / sqrt (a*a + b*b + c*c + d*d)) = 1.
Proof.
  intros Hz. pose proof (sqrt_sqrt _ (ss4_ge0 a b c d)) as Hs.
  set (n := sqrt _) in *. field_simplify_eq; [|exact Hz]. nra.
Qed.
Lemma div3_unit a b c : sqrt (a*a + b*b + c*c) <> 0 ->
  0 * 0 + (a / sqrt (a*a + b*b + c*c)) * (a / sqrt (a*a + b*b + c*c)) +
  (b / sqrt (a*a + b*b + c*c)) * (b / sqrt (a*a + b*b + c*c)) +
  (c / sqrt (a*a + b*b + c*c)) * (c / sqrt (a*a + b*b + c*c)) = 1.
Proof.
  intros Hz. pose proof (sqrt_sqrt _ (ss3_ge0 a b c)) as Hs.
  set (n := sqrt _) in *. field_simplify_eq; [|exact Hz]. nra.
Qed.

Lemma sqrt_ss4_0 a b c d : sqrt (a*a + b*b + c*c + d*d) = 0 -> a = 0 /\ b = 0 /\ c = 0 /\ d = 0.
Proof. intros H. apply sqrt_eq_0 in H; [|apply ss4_ge0]. repeat split; nra. Qed.
Lemma sqrt_ss3_0 a b c : sqrt (a*a + b*b + c*c) = 0 -> a = 0 /\ b = 0 /\ c = 0.
Proof. intros H. apply sqrt_eq_0 in H; [|apply ss3_ge0]. repeat split; nra. Qed.

(* ---- deciding the constructors' zero tests -------------------------------------------------
   the tests appear as  Req_EM_T 0 (sqrt e)  (Quaternion: `q_norm == 0`) or  Rlt_dec 0 (sqrt e)
   (QuaternionArray: `q_norm > 0`); both forms are handled so that either spelling of the test is accepted *)
Ltac gate_pos :=
  match goal with
  | |- context [Req_EM_T 0 (sqrt ?e)] =>
      let Hz := fresh "Hz" in
      destruct (Req_EM_T 0 (sqrt e)) as [Hz|Hz];
      [ exfalso; symmetry in Hz; apply sqrt_eq_0 in Hz; [nra|nra] | ]
  | |- context [Rlt_dec 0 (sqrt ?e)] =>
      let Hz := fresh "Hz" in
      destruct (Rlt_dec 0 (sqrt e)) as [Hz|Hz];
      [ | exfalso; apply Hz; apply sqrt_lt_R0; nra ]
  end.
(* the zero branch: e = 0 under the hypotheses *)
Ltac gate_zero :=
  match goal with
  | |- context [Req_EM_T 0 (sqrt ?e)] =>
      let Hz := fresh "Hz" in
      destruct (Req_EM_T 0 (sqrt e)) as [Hz|Hz];
      [ | exfalso; apply Hz; replace e with 0 by nra; symmetry; apply sqrt_0 ]
  | |- context [Rlt_dec 0 (sqrt ?e)] =>
      let Hz := fresh "Hz" in
      destruct (Rlt_dec 0 (sqrt e)) as [Hz|Hz];
      [ exfalso; replace e with 0 in Hz by nra; rewrite sqrt_0 in Hz; lra | ]
  end.

(* closing a leaf  Val [...] = Val l -> unit rows of l *)
Ltac leaf_unit :=
  let E := fresh "E" in
  intros E; first [discriminate E | injection E as <-];
  cbv [unit4l unit_rows qnorm2 e nth length]; repeat split;
  first [ apply div4_unit; lra | apply div3_unit; lra | idtac ].

(* ========================================================================================= *)
(* Quaternion(v4), Quaternion(v3)                                                            *)
(* ========================================================================================= *)
Lemma Q4_value w x y z : nz4 w x y z ->
  C11_Q4_R w x y z = Val [w / n4 w x y z; x / n4 w x y z; y / n4 w x y z; z / n4 w x y z].
Proof. unfold nz4, C11_Q4_R, n4. intros H. cbv zeta. gate_pos. reflexivity. Qed.

Lemma Q3_value x y z : nz3 x y z ->
  C11_Q3_R x y z = Val [0; x / n3 x y z; y / n3 x y z; z / n3 x y z].
Proof. unfold nz3, C11_Q3_R, n3. intros H. cbv zeta. gate_pos. reflexivity. Qed.

Lemma Q4_zero : C11_Q4_R 0 0 0 0 = Raise ValueError.
Proof. unfold C11_Q4_R. cbv zeta. gate_zero. reflexivity. Qed.
Lemma Q3_zero : C11_Q3_R 0 0 0 = Raise ValueError.
Proof. unfold C11_Q3_R. cbv zeta. gate_zero. reflexivity. Qed.

(* same direction: the result is lambda * v with lambda > 0, and has norm one *)
Lemma Q4_same_direction w x y z : nz4 w x y z ->
  exists lam, 0 < lam /\ C11_Q4_R w x y z = Val [lam*w; lam*x; lam*y; lam*z] /\
              (lam*w)*(lam*w) + (lam*x)*(lam*x) + (lam*y)*(lam*y) + (lam*z)*(lam*z) = 1.
Proof.
  intros H. pose proof (n4_pos _ _ _ _ H) as Hp. pose proof (n4_sq w x y z) as Hs.
  exists (/ n4 w x y z). split; [apply Rinv_0_lt_compat; exact Hp|]. split.
  - rewrite (Q4_value _ _ _ _ H). val_eq; unfold Rdiv; ring.
  - set (n := n4 w x y z) in *. field_simplify_eq; [|lra]. nra.
Qed.
Lemma Q3_same_direction x y z : nz3 x y z ->
  exists lam, 0 < lam /\ C11_Q3_R x y z = Val [0; lam*x; lam*y; lam*z] /\
              0*0 + (lam*x)*(lam*x) + (lam*y)*(lam*y) + (lam*z)*(lam*z) = 1.
Proof.
  intros H. pose proof (n3_pos _ _ _ H) as Hp. pose proof (n3_sq x y z) as Hs.
  exists (/ n3 x y z). split; [apply Rinv_0_lt_compat; exact Hp|]. split.
  - rewrite (Q3_value _ _ _ H). val_eq; unfold Rdiv; ring.
  - set (n := n3 x y z) in *. field_simplify_eq; [|lra]. nra.
Qed.

(* whatever the constructor returns is a unit quaternion; whatever it raises is ValueError *)
Lemma Q4_returns_unit w x y z l : C11_Q4_R w x y z = Val l -> unit4l l.
Proof. unfold C11_Q4_R. cbv zeta. repeat destr_dec; leaf_unit. Qed.
Lemma Q3_returns_unit x y z l : C11_Q3_R x y z = Val l -> unit4l l.
Proof. unfold C11_Q3_R. cbv zeta. repeat destr_dec; leaf_unit. Qed.
Ltac only_VE := let E := fresh in intros E; first [discriminate E | injection E as <-; reflexivity].
Lemma Q4_raises_VE w x y z ex : C11_Q4_R w x y z = Raise ex -> ex = ValueError.
Proof. unfold C11_Q4_R. cbv zeta. repeat destr_dec; only_VE. Qed.
Lemma Q3_raises_VE x y z ex : C11_Q3_R x y z = Raise ex -> ex = ValueError.
Proof. unfold C11_Q3_R. cbv zeta. repeat destr_dec; only_VE. Qed.
(* rejection happens only for the zero vector *)
Lemma Q4_raises_only_zero w x y z ex : C11_Q4_R w x y z = Raise ex -> w = 0 /\ x = 0 /\ y = 0 /\ z = 0.
Proof.
  intros H. destruct (Rlt_dec 0 (w*w+x*x+y*y+z*z)) as [Hp|Hn].
  - rewrite (Q4_value _ _ _ _ Hp) in H. discriminate H.
  - repeat split; nra.
Qed.

(* ========================================================================================= *)
(* QuaternionArray(N x 4), QuaternionArray(N x 3): two generic rows (and the 1-row case)       *)
(* ========================================================================================= *)
Lemma QA4_value a b c d w x y z : nz4 a b c d -> nz4 w x y z ->
  C11_QA4_R a b c d w x y z =
    Val [a / n4 a b c d; b / n4 a b c d; c / n4 a b c d; d / n4 a b c d;
         w / n4 w x y z; x / n4 w x y z; y / n4 w x y z; z / n4 w x y z].
Proof. unfold nz4, C11_QA4_R, n4. intros H1 H2. cbv zeta. repeat gate_pos. reflexivity. Qed.
Lemma QA3_value b c d x y z : nz3 b c d -> nz3 x y z ->
  C11_QA3_R b c d x y z =
    Val [0; b / n3 b c d; c / n3 b c d; d / n3 b c d; 0; x / n3 x y z; y / n3 x y z; z / n3 x y z].
Proof. unfold nz3, C11_QA3_R, n3. intros H1 H2. cbv zeta. repeat gate_pos. reflexivity. Qed.
Lemma QA4_1_value w x y z : nz4 w x y z ->
  C11_QA4_1_R w x y z = Val [w / n4 w x y z; x / n4 w x y z; y / n4 w x y z; z / n4 w x y z].
Proof. unfold nz4, C11_QA4_1_R, n4. intros H. cbv zeta. repeat gate_pos. reflexivity. Qed.

Lemma QA4_returns_unit a b c d w x y z l : C11_QA4_R a b c d w x y z = Val l -> length l = 8%nat /\ unit_rows l.
Proof. unfold C11_QA4_R. cbv zeta. repeat destr_dec; intros E; try discriminate E; injection E as <-;
  (split; [reflexivity|]); cbv [unit_rows]; repeat split; apply div4_unit; lra. Qed.
Lemma QA3_returns_unit b c d x y z l : C11_QA3_R b c d x y z = Val l -> length l = 8%nat /\ unit_rows l.
Proof. unfold C11_QA3_R. cbv zeta. repeat destr_dec; intros E; try discriminate E; injection E as <-;
  (split; [reflexivity|]); cbv [unit_rows]; repeat split; apply div3_unit; lra. Qed.
Lemma QA4_1_returns_unit w x y z l : C11_QA4_1_R w x y z = Val l -> length l = 4%nat /\ unit_rows l.
Proof. unfold C11_QA4_1_R. cbv zeta. repeat destr_dec; intros E; try discriminate E; injection E as <-;
  (split; [reflexivity|]); cbv [unit_rows]; repeat split; apply div4_unit; lra. Qed.

(* any zero row rejects the whole array *)
Lemma QA4_zero_row a b c d w x y z :
  (a = 0 /\ b = 0 /\ c = 0 /\ d = 0) \/ (w = 0 /\ x = 0 /\ y = 0 /\ z = 0) ->
  C11_QA4_R a b c d w x y z = Raise ValueError.
Proof.
  unfold C11_QA4_R. cbv zeta. intros [(->&->&->&->)|(->&->&->&->)].
  - gate_zero. destr_dec; reflexivity.
  - destr_dec; gate_zero; reflexivity.
Qed.
Lemma QA3_zero_row b c d x y z :
  (b = 0 /\ c = 0 /\ d = 0) \/ (x = 0 /\ y = 0 /\ z = 0) -> C11_QA3_R b c d x y z = Raise ValueError.
Proof.
  unfold C11_QA3_R. cbv zeta. intros [(->&->&->)|(->&->&->)].
  - gate_zero. destr_dec; reflexivity.
  - destr_dec; gate_zero; reflexivity.
Qed.
Lemma QA4_raises_VE a b c d w x y z ex : C11_QA4_R a b c d w x y z = Raise ex -> ex = ValueError.
Proof. unfold C11_QA4_R. cbv zeta. repeat destr_dec; only_VE. Qed.
Lemma QA3_raises_VE b c d x y z ex : C11_QA3_R b c d x y z = Raise ex -> ex = ValueError.
Proof. unfold C11_QA3_R. cbv zeta. repeat destr_dec; only_VE. Qed.

(* ========================================================================================= *)
(* Quaternion + Quaternion, Quaternion - Quaternion                                          *)
(* ========================================================================================= *)
Lemma add_returns_unit a b c d w x y z l : C11_add_R a b c d w x y z = Val l -> unit4l l.
Proof. unfold C11_add_R. cbv zeta. repeat destr_dec; leaf_unit. Qed.
Lemma sub_returns_unit a b c d w x y z l : C11_sub_R a b c d w x y z = Val l -> unit4l l.
Proof. unfold C11_sub_R. cbv zeta. repeat destr_dec; leaf_unit. Qed.
Lemma add_raises_VE a b c d w x y z ex : C11_add_R a b c d w x y z = Raise ex -> ex = ValueError.
Proof. unfold C11_add_R. cbv zeta. repeat destr_dec; only_VE. Qed.
Lemma sub_raises_VE a b c d w x y z ex : C11_sub_R a b c d w x y z = Raise ex -> ex = ValueError.
Proof. unfold C11_sub_R. cbv zeta. repeat destr_dec; only_VE. Qed.

(* the versor of (a,b,c,d) *)
Definition vers (a b c d : R) : list R := [a / n4 a b c d; b / n4 a b c d; c / n4 a b c d; d / n4 a b c d].
Definition qadd (p q : list R) : list R := [e p 0 + e q 0; e p 1 + e q 1; e p 2 + e q 2; e p 3 + e q 3].
Definition qsub (p q : list R) : list R := [e p 0 - e q 0; e p 1 - e q 1; e p 2 - e q 2; e p 3 - e q 3].

(* a non-vanishing sum (difference) of two versors is returned, normalised *)
Lemma add_nonvanishing a b c d w x y z : nz4 a b c d -> nz4 w x y z ->
  0 < qnorm2 (qadd (vers a b c d) (vers w x y z)) ->
  exists l, C11_add_R a b c d w x y z = Val l /\ unit4l l.
Proof.
  unfold nz4, vers, qadd, qnorm2, n4. cbv [e nth]. intros H1 H2 H3.
  unfold C11_add_R. cbv zeta. repeat gate_pos. eexists. split; [reflexivity|].
  cbv [unit4l unit_rows qnorm2 e nth length]. split; [reflexivity|]. apply div4_unit. lra.
Qed.
Lemma sub_nonvanishing a b c d w x y z : nz4 a b c d -> nz4 w x y z ->
  0 < qnorm2 (qsub (vers a b c d) (vers w x y z)) ->
  exists l, C11_sub_R a b c d w x y z = Val l /\ unit4l l.
Proof.
  unfold nz4, vers, qsub, qnorm2, n4. cbv [e nth]. intros H1 H2 H3.
  unfold C11_sub_R. cbv zeta. repeat gate_pos. eexists. split; [reflexivity|].
  cbv [unit4l unit_rows qnorm2 e nth length]. split; [reflexivity|]. apply div4_unit. lra.
Qed.
(* q - q (a vanishing difference) is rejected, not wrapped *)
Lemma sub_self_rejected w x y z : nz4 w x y z -> C11_sub_R w x y z w x y z = Raise ValueError.
Proof.
  unfold nz4, C11_sub_R. intros H. cbv zeta. repeat gate_pos.
  match goal with |- context [Req_EM_T 0 (sqrt ?e)] =>
    replace e with 0 by ring; rewrite sqrt_0; destruct (Req_EM_T 0 0); [reflexivity|lra] end.
Qed.
Lemma add_neg_rejected w x y z : nz4 w x y z -> C11_add_R w x y z (-w) (-x) (-y) (-z) = Raise ValueError.
Proof.
  unfold nz4, C11_add_R. intros H. cbv zeta. repeat gate_pos.
  replace ((- w) * (- w) + (- x) * (- x) + (- y) * (- y) + (- z) * (- z)) with (w*w + x*x + y*y + z*z) by ring.
  match goal with |- context [Req_EM_T 0 (sqrt ?e)] =>
    replace e with 0 by (unfold Rdiv; ring); rewrite sqrt_0; destruct (Req_EM_T 0 0); [reflexivity|lra] end.
Qed.

(* ========================================================================================= *)
(* random_attitudes: the map from three uniform draws to a quaternion                        *)
(* ========================================================================================= *)
Lemma random_unit u1 u2 u3 : 0 <= u1 <= 1 ->
  exists l, C11_random_R u1 u2 u3 = Val l /\ unit4l l.
Proof.
  intros [H0 H1]. unfold C11_random_R. cbv zeta. eexists. split; [reflexivity|].
  cbv [unit4l qnorm2 e nth length]. split; [reflexivity|].
  (* the vector before the final normalisation has a positive squared norm (in fact 1: s1^2 + s2^2 = 1 and
     sin^2 + cos^2 = 1); dividing by its norm then gives a unit vector *)
  pose proof (sqrt_sqrt u1 H0) as A. pose proof (sqrt_sqrt (1 - u1) ltac:(lra)) as B.
  pose proof (sin2_cos2 (2 * PI * u2)) as C2. pose proof (sin2_cos2 (2 * PI * u3)) as C3.
  unfold Rsqr in C2, C3.
  apply div4_unit.
  match goal with |- sqrt ?e <> 0 => assert (Hpos : 0 < e); [|pose proof (sqrt_lt_R0 _ Hpos); lra] end.
  set (s2 := sqrt u1) in *. set (s1 := sqrt (1 - u1)) in *.
  set (c2 := cos (2 * PI * u2)) in *. set (sn2 := sin (2 * PI * u2)) in *.
  set (c3 := cos (2 * PI * u3)) in *. set (sn3 := sin (2 * PI * u3)) in *.
  match goal with |- 0 < ?e =>
    replace e with ((s2 * s2) * (sn3 * sn3 + c3 * c3) + (s1 * s1) * (sn2 * sn2 + c2 * c2)) by ring end.
  rewrite A, B, C2, C3. lra.
Qed.

(* ========================================================================================= *)
(* QuaternionArray([p]).rotate_by(q)                                                         *)
(* ========================================================================================= *)
Lemma versor_sq a b c d : nz4 a b c d ->
  (a / n4 a b c d)*(a / n4 a b c d) + (b / n4 a b c d)*(b / n4 a b c d) +
  (c / n4 a b c d)*(c / n4 a b c d) + (d / n4 a b c d)*(d / n4 a b c d) = 1.
Proof. intros H. unfold n4. apply div4_unit. pose proof (n4_pos _ _ _ _ H). unfold n4 in *. lra. Qed.

Lemma rotate_by_unit a b c d w x y z : nz4 a b c d -> nz4 w x y z ->
  exists l, C11_rotate_by_R a b c d w x y z = Val l /\ unit4l l /\
            l = qmul (vers w x y z) (vers a b c d).
Proof.
  intros Hp Hq. pose proof (versor_sq _ _ _ _ Hp) as Up. pose proof (versor_sq _ _ _ _ Hq) as Uq.
  unfold C11_rotate_by_R. cbv zeta. unfold nz4 in Hp, Hq. gate_pos.
  fold (n4 a b c d) in *. fold (n4 w x y z) in *.
  set (a' := a / n4 a b c d) in *. set (b' := b / n4 a b c d) in *. set (c' := c / n4 a b c d) in *.
  set (d' := d / n4 a b c d) in *. set (w' := w / n4 w x y z) in *. set (x' := x / n4 w x y z) in *.
  set (y' := y / n4 w x y z) in *. set (z' := z / n4 w x y z) in *.
  orient_unit. norm1. eexists. split; [reflexivity|].
  unfold vers. fold a' b' c' d' w' x' y' z'. cbv [unit4l qmul qnorm2 e nth length].
  split; [split; [reflexivity|uring]|]. list_eq; ring.
Qed.

(* ========================================================================================= *)
(* Quaternion(dcm=M): whatever comes back is a unit quaternion, only ValueError is raised    *)
(* ========================================================================================= *)
(* walk a generated decision tree without expanding its lets: every let becomes a local definition, every
   decision a case split (through if_elim, which is much cheaper than destruct on these large terms);
   `leaf` closes  <leaf outcome> = o -> <claim about o> *)
Lemma if_elim {A} {P Q : Prop} (c : {P}+{Q}) (a b : A) (G : A -> Prop) :
  (P -> G a) -> (Q -> G b) -> G (if c then a else b).
Proof. destruct c; auto. Qed.
Ltac walk leaf :=
  lazymatch goal with
  | |- (let x := ?v in @?b x) = ?r -> ?G =>
      let y := fresh "t" in pose (y := v); change (b y = r -> G); cbv beta; walk leaf
  | |- (if ?c then ?a else ?b) = ?r -> ?G =>
      refine (if_elim c a b (fun o => o = r -> G) _ _); intro; walk leaf
  | |- _ => leaf
  end.
Ltac expose_leaf :=
  repeat match goal with |- context [?x * ?x] => is_var x; unfold x end;
  repeat match goal with |- context [_ / ?n] => is_var n; unfold n in * end.
(* what every quaternion constructor guarantees about its outcome *)
Definition unit_or_VE (o : outcome R) : Prop :=
  match o with Val l => unit4l l | Raise ex => ex = ValueError end.
Ltac leaf_post :=
  let E := fresh "E" in intros E; rewrite <- E; cbv [unit_or_VE];
  first [ reflexivity
        | cbv [unit4l qnorm2 e nth length]; split; [reflexivity|]; expose_leaf;
          first [ apply div4_unit; lra | apply div3_unit; lra ] ].

(* non-vacuity *)
Example norm_nonvacuous : nz4 1 2 3 4 /\ nz3 1 2 3 /\ 0 <= 1/3 <= 1 /\
  0 < qnorm2 (qadd (vers 1 0 0 0) (vers 0 1 0 0)).
Proof.
  unfold nz4, nz3, vers, qadd, qnorm2, n4. cbv [e nth]. repeat split; try lra.
  replace (1*1+0*0+0*0+0*0) with 1 by ring. replace (0*0+1*1+0*0+0*0) with 1 by ring. rewrite sqrt_1. lra.
Qed.
