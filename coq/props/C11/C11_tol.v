(* C11_tol.v — property C11, the two statements whose proofs use the Interval library (see C11_gate_tol.v).
   Only statements + glue + Print Assumptions. *)
From Coq Require Import Reals List Lra.
From AhrsLib Require Import Base Rot.
From AhrsGen Require Import C11gen_R.
From AhrsProps Require Import C11_gate C11_gate_tol.
Import ListNotations.
Open Scope R_scope.

(* acceptance: every matrix within 1e-12 (entrywise) of some proper rotation R is accepted *)
Theorem C11_so3_gate_accepts : forall r0 r1 r2 r3 r4 r5 r6 r7 r8 m0 m1 m2 m3 m4 m5 m6 m7 m8,
  SO3 [r0;r1;r2;r3;r4;r5;r6;r7;r8] ->
  Rabs (m0 - r0) <= 1/1000000000000 -> Rabs (m1 - r1) <= 1/1000000000000 -> Rabs (m2 - r2) <= 1/1000000000000 ->
  Rabs (m3 - r3) <= 1/1000000000000 -> Rabs (m4 - r4) <= 1/1000000000000 -> Rabs (m5 - r5) <= 1/1000000000000 ->
  Rabs (m6 - r6) <= 1/1000000000000 -> Rabs (m7 - r7) <= 1/1000000000000 -> Rabs (m8 - r8) <= 1/1000000000000 ->
  C11_DCM_matrix_R m0 m1 m2 m3 m4 m5 m6 m7 m8 = Val [m0;m1;m2;m3;m4;m5;m6;m7;m8].
Proof.
  intros. apply (gate_accepts m0 m1 m2 m3 m4 m5 m6 m7 m8).
  apply (so3_gate_accepts_close r0 r1 r2 r3 r4 r5 r6 r7 r8); assumption.
Qed.
Print Assumptions C11_so3_gate_accepts.

(* shears R (I + eps E12), |eps| >= 1e-4, R any proper rotation: rejected *)
Theorem C11_so3_gate_rejects_shear : forall r0 r1 r2 r3 r4 r5 r6 r7 r8 eps,
  SO3 [r0;r1;r2;r3;r4;r5;r6;r7;r8] -> 1/10000 <= Rabs eps ->
  gate9 (mmul3 [r0;r1;r2;r3;r4;r5;r6;r7;r8] (shear12 eps)) = Raise ValueError.
Proof.
  intros r0 r1 r2 r3 r4 r5 r6 r7 r8 eps HS He. pose proof (shear_not_close eps _ _ _ _ _ _ _ _ _ HS He) as N.
  exact (gate_rejects _ _ _ _ _ _ _ _ _ N).
Qed.
Print Assumptions C11_so3_gate_rejects_shear.
