(* C07_refuted_rpy2q.v — witness, inside the regenerated model, of the known finding "rpy2q/generic-differs":
   orientation.rpy2q on an N-by-3 array divides by the norm of the WHOLE 4-by-N result, so each of N >= 2 rows has
   norm 1/sqrt(N).  Two rows of zero angles: the scalar call returns (1,0,0,0), the batch row (1/sqrt 2,0,0,0). *)
From Coq Require Import Reals List Lra.
From AhrsLib Require Import Base.
From AhrsGen Require Import C07gen_R.
From AhrsProps Require Import C07_tac.
Import ListNotations.
Open Scope R_scope.

Lemma rpy2q_s_at_0 : C07_rpy2q_s_R 0 0 0 = Val [1; 0; 0; 0].
Proof.
  unfold C07_rpy2q_s_R. cbv zeta. rewrite !Rmult_0_r, cos_0, sin_0.
  match goal with |- context [sqrt ?e] => replace e with 1 by ring end. rewrite sqrt_1. val_eq; field.
Qed.

Theorem C07_rpy2q_two_rows_refuted : exists k0 k1 k2 a0 a1 a2,
  C07_rpy2q_b2_R k0 k1 k2 a0 a1 a2 <> C07_rpy2q_s_R a0 a1 a2.
Proof.
  exists 0, 0, 0, 0, 0, 0. rewrite rpy2q_s_at_0.
  unfold C07_rpy2q_b2_R. cbv zeta. rewrite !Rmult_0_r, cos_0, sin_0.
  match goal with |- context [sqrt ?e] => replace e with 2 by ring end.
  intros E. injection E as E _ _ _.
  assert (H2 : sqrt 2 * sqrt 2 = 2) by (apply sqrt_sqrt; lra).
  assert (Hp : 0 < sqrt 2) by (apply sqrt_lt_R0; lra).
  apply Rmult_eq_compat_r with (r := sqrt 2) in E. unfold Rdiv in E. rewrite Rmult_assoc, Rinv_l in E by lra.
  assert (E' : sqrt 2 = 1) by lra. rewrite E' in H2. lra.
Qed.
Print Assumptions C07_rpy2q_two_rows_refuted.
