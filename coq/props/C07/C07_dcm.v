(* C07_dcm.v — matrix -> quaternion functions with a 3x3 branch and an N-by-3x3 branch: hughes (all matrices), chiaverini (away from
   half-turns). *)
From Coq Require Import Reals List Lra.
From AhrsLib Require Import Base.
From AhrsGen Require Import C07gen_R.
From AhrsProps Require Import C07_tac.
Import ListNotations.
Open Scope R_scope.

Lemma clip_pos t : -1 < t -> 0 < Rmin (Rmax t (-1)) 3 + 1.
Proof. intros H. unfold Rmin, Rmax. repeat destr_dec; lra. Qed.

(* not a half-turn (trace > -1): the scalar branch's all-zero fallback is not taken and both branches agree *)
Lemma chiaverini_twin_partial r00 r01 r02 r10 r11 r12 r20 r21 r22 : -1 < r00 + r11 + r22 ->
  C07_chiaverini_b1_R r00 r01 r02 r10 r11 r12 r20 r21 r22 = C07_chiaverini_s_R r00 r01 r02 r10 r11 r12 r20 r21 r22.
Proof.
  intros H. pose proof (clip_pos _ H) as Hc.
  unfold C07_chiaverini_b1_R, C07_chiaverini_s_R. cbv zeta. pos_sqrt_hyps. repeat dec1; same_val.
Qed.
Lemma chiaverini_twin2_partial k00 k01 k02 k10 k11 k12 k20 k21 k22 r00 r01 r02 r10 r11 r12 r20 r21 r22 : -1 < r00 + r11 + r22 ->
  C07_chiaverini_b2_R k00 k01 k02 k10 k11 k12 k20 k21 k22 r00 r01 r02 r10 r11 r12 r20 r21 r22 =
  C07_chiaverini_s_R r00 r01 r02 r10 r11 r12 r20 r21 r22.
Proof.
  intros H. pose proof (clip_pos _ H) as Hc.
  unfold C07_chiaverini_b2_R, C07_chiaverini_s_R. cbv zeta. pos_sqrt_hyps. repeat dec1; same_val.
Qed.

(* hughes: the N-by-3x3 branch mirrors the 3x3 branch for ALL matrices (pure-quaternion branch, sign rule, normalisation) *)
Lemma hughes_twin r00 r01 r02 r10 r11 r12 r20 r21 r22 :
  C07_hughes_b1_R r00 r01 r02 r10 r11 r12 r20 r21 r22 = C07_hughes_s_R r00 r01 r02 r10 r11 r12 r20 r21 r22.
Proof. unfold C07_hughes_b1_R, C07_hughes_s_R. cbv zeta. repeat dec1; same_val. Qed.
