(* C07_dcm placeholder *)
