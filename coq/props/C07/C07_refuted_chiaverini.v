(* C07_refuted_chiaverini placeholder *)
