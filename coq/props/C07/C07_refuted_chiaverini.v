(* C07_refuted_chiaverini.v — witness of the known finding "chiaverini/half-turn-nan": at an exact half-turn every sign
   factor is sign(0) = 0, so all four components are 0.  The 3x3 branch then falls back to the identity quaternion, the
   N-by-3x3 branch divides 0 by 0 (NaN in floats; 0 in the real model).  Witness diag(1,-1,-1). *)
From Coq Require Import Reals List Lra.
From AhrsLib Require Import Base.
From AhrsGen Require Import C07gen_R.
From AhrsProps Require Import C07_tac.
Import ListNotations.
Open Scope R_scope.

Lemma clip_m1 : Rmin (Rmax (1 + -1 + -1) (-1)) 3 = -1.
Proof. unfold Rmax. destruct (Rle_dec (1 + -1 + -1) (-1)); [|lra]. unfold Rmin. destruct (Rle_dec (-1) 3); lra. Qed.

Theorem C07_chiaverini_half_turn_refuted : exists r00 r01 r02 r10 r11 r12 r20 r21 r22 l1 l2,
  C07_chiaverini_s_R r00 r01 r02 r10 r11 r12 r20 r21 r22 = Val l1 /\
  C07_chiaverini_b1_R r00 r01 r02 r10 r11 r12 r20 r21 r22 = Val l2 /\ nth 0 l1 0 = 1 /\ nth 0 l2 0 = 0.
Proof.
  exists 1, 0, 0, 0, (-1), 0, 0, 0, (-1).
  assert (Z1 : 1 / 2 * sqrt (Rmin (Rmax (1 + -1 + -1) (-1)) 3 + 1) = 0)
    by (rewrite clip_m1; replace (-1 + 1) with 0 by ring; rewrite sqrt_0; ring).
  assert (S0 : Rsgn (0 - 0) = 0) by (replace (0 - 0) with 0 by ring; apply Rsgn_0).
  unfold C07_chiaverini_s_R, C07_chiaverini_b1_R. cbv zeta. rewrite Z1, S0. rewrite !Rmult_0_r, !Rmult_0_l.
  repeat match goal with |- context [Req_EM_T 0 0] => destruct (Req_EM_T 0 0) as [_|N]; [|exfalso; apply N; reflexivity] end.
  eexists. eexists. split; [reflexivity|]. split; [reflexivity|]. simpl. split.
  - match goal with |- context [sqrt ?e] => replace e with 1 by ring end. rewrite sqrt_1. field.
  - unfold Rdiv. ring.
Qed.
Print Assumptions C07_chiaverini_half_turn_refuted.
