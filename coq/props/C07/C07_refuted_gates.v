(* C07_refuted_gates.v — witness of the known finding "from_rpy/out-of-range-raises-vs-value": Quaternion(rpy=...) rejects
   angles outside [-2pi, 2pi] with ValueError, QuaternionArray(rpy=...) has no such check and returns a quaternion. *)
From Coq Require Import Reals List Lra.
From Interval Require Import Tactic.
From AhrsLib Require Import Base.
From AhrsGen Require Import C07gen_R.
From AhrsProps Require Import C07_tac.
Import ListNotations.
Open Scope R_scope.

Theorem C07_from_rpy_range_refuted : exists a0 a1 a2,
  C07_from_rpy_s_R a0 a1 a2 = Raise ValueError /\ is_val (C07_from_rpy_b1_R a0 a1 a2).
Proof.
  exists 7, 0, 0. assert (Hpi : 2 * PI < 7) by interval. assert (Hpi0 : 0 < PI) by exact PI_RGT_0. split.
  - unfold C07_from_rpy_s_R. cbv zeta. repeat (head_dec; try reflexivity; try (exfalso; lra)).
  - unfold C07_from_rpy_b1_R. cbv zeta. trig_hyps. abstract_trig.
    match goal with |- is_val (if ?c then _ else _) => destruct c as [|N] end; [exact I|].
    exfalso. unit_norm. lra.
Qed.
Print Assumptions C07_from_rpy_range_refuted.
