(* C07_refuted_gates placeholder *)
