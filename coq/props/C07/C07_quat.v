(* C07_quat placeholder *)
