(* C07_quat.v — Quaternion vs QuaternionArray twins, q2R and rpy2q 1-D vs 2-D: the regenerated array copy on a one-row
   (and two-row) batch equals the regenerated scalar copy, as outcomes (raising paths included), for all reals. *)
From Coq Require Import Reals List Lra.
From AhrsLib Require Import Base.
From AhrsGen Require Import C07gen_R.
From AhrsProps Require Import C07_tac.
Import ListNotations.
Open Scope R_scope.

Definition nz4 (w x y z : R) : Prop := 0 < w*w + x*x + y*y + z*z.
Definition in_range (a : R) : Prop := - 2 * PI <= a <= 2 * PI.

Lemma conj_twin w x y z : C07_conj_b1_R w x y z = C07_conj_s_R w x y z.
Proof. unfold C07_conj_b1_R, C07_conj_s_R. twin_q. Qed.
Lemma conj_S_twin w x y z : C07_conj_S_b1_R w x y z = C07_conj_S_s_R w x y z.
Proof. unfold C07_conj_S_b1_R, C07_conj_S_s_R. twin_q. Qed.
Lemma conj_twin2 k_w k_x k_y k_z w x y z : nz4 k_w k_x k_y k_z ->
  C07_conj_b2_R k_w k_x k_y k_z w x y z = C07_conj_s_R w x y z.
Proof. unfold nz4. intros Hk. unfold C07_conj_b2_R, C07_conj_s_R. twin_q. Qed.

Lemma to_angles_twin w x y z : C07_to_angles_b1_R w x y z = C07_to_angles_s_R w x y z.
Proof. unfold C07_to_angles_b1_R, C07_to_angles_s_R. twin_q. Qed.
Lemma to_angles_S_twin w x y z : C07_to_angles_S_b1_R w x y z = C07_to_angles_S_s_R w x y z.
Proof. unfold C07_to_angles_S_b1_R, C07_to_angles_S_s_R. twin_q. Qed.
Lemma to_angles_twin2 k_w k_x k_y k_z w x y z : nz4 k_w k_x k_y k_z ->
  C07_to_angles_b2_R k_w k_x k_y k_z w x y z = C07_to_angles_s_R w x y z.
Proof. unfold nz4. intros Hk. unfold C07_to_angles_b2_R, C07_to_angles_s_R. twin_q. Qed.

Lemma to_DCM_twin w x y z : C07_to_DCM_b1_R w x y z = C07_to_DCM_s_R w x y z.
Proof. unfold C07_to_DCM_b1_R, C07_to_DCM_s_R. twin_q. Qed.
Lemma to_DCM_S_twin w x y z : C07_to_DCM_S_b1_R w x y z = C07_to_DCM_S_s_R w x y z.
Proof. unfold C07_to_DCM_S_b1_R, C07_to_DCM_S_s_R. twin_q. Qed.
Lemma to_DCM_twin2 k_w k_x k_y k_z w x y z : nz4 k_w k_x k_y k_z ->
  C07_to_DCM_b2_R k_w k_x k_y k_z w x y z = C07_to_DCM_s_R w x y z.
Proof. unfold nz4. intros Hk. unfold C07_to_DCM_b2_R, C07_to_DCM_s_R. twin_q. Qed.

Lemma q2R_v1_twin w x y z : C07_q2R_v1_b1_R w x y z = C07_q2R_v1_s_R w x y z.
Proof. unfold C07_q2R_v1_b1_R, C07_q2R_v1_s_R. twin_q. Qed.
Lemma q2R_v2_twin w x y z : C07_q2R_v2_b1_R w x y z = C07_q2R_v2_s_R w x y z.
Proof. unfold C07_q2R_v2_b1_R, C07_q2R_v2_s_R. twin_q. Qed.
Lemma q2R_v1_twin2 k_w k_x k_y k_z w x y z : C07_q2R_v1_b2_R k_w k_x k_y k_z w x y z = C07_q2R_v1_s_R w x y z.
Proof. unfold C07_q2R_v1_b2_R, C07_q2R_v1_s_R. twin_q. Qed.

(* construction from roll-pitch-yaw: equal on the scalar path's accepted range (the array path has no range check) *)
Lemma from_rpy_twin a0 a1 a2 : in_range a0 -> in_range a1 -> in_range a2 ->
  C07_from_rpy_b1_R a0 a1 a2 = C07_from_rpy_s_R a0 a1 a2.
Proof. unfold in_range. intros H0 H1 H2. unfold C07_from_rpy_b1_R, C07_from_rpy_s_R. twin_t. Qed.
Lemma rpy2q_twin a0 a1 a2 : C07_rpy2q_b1_R a0 a1 a2 = C07_rpy2q_s_R a0 a1 a2.
Proof. unfold C07_rpy2q_b1_R, C07_rpy2q_s_R. twin_t. Qed.
