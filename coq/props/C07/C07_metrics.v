(* C07_metrics.v — metric functions, ndim==1 branch vs batch branch.  PARTIAL: the scalar branches of qdist/qeip/qcip/qad
   return 0 through an `allclose` shortcut the batch branches lack (known finding); outside the shortcut they agree. *)
From Coq Require Import Reals List Lra Psatz.
From AhrsLib Require Import Base.
From AhrsGen Require Import C07gen_R.
From AhrsProps Require Import C07_tac.
Import ListNotations.
Open Scope R_scope.

(* the batch branch of qcip clips |q1.q2| to [-1,1] (a floating-point guard); over the reals the clip is the identity, by
   Cauchy-Schwarz on the two normalised quaternions (also when a norm is 0: the row is then 0) *)
Lemma cs4 u1 u2 u3 u4 v1 v2 v3 v4 :
  u1*u1 + u2*u2 + u3*u3 + u4*u4 <= 1 -> v1*v1 + v2*v2 + v3*v3 + v4*v4 <= 1 ->
  Rabs (u1*v1 + u2*v2 + u3*v3 + u4*v4) <= 1.
Proof.
  intros Hu Hv. set (D := u1*v1 + u2*v2 + u3*v3 + u4*v4).
  assert (L : D * D <= (u1*u1 + u2*u2 + u3*u3 + u4*u4) * (v1*v1 + v2*v2 + v3*v3 + v4*v4)).
  { unfold D.
    assert (E : (u1*u1 + u2*u2 + u3*u3 + u4*u4) * (v1*v1 + v2*v2 + v3*v3 + v4*v4) - (u1*v1 + u2*v2 + u3*v3 + u4*v4) * (u1*v1 + u2*v2 + u3*v3 + u4*v4)
      = (u1*v2-u2*v1)*(u1*v2-u2*v1) + (u1*v3-u3*v1)*(u1*v3-u3*v1) + (u1*v4-u4*v1)*(u1*v4-u4*v1)
      + (u2*v3-u3*v2)*(u2*v3-u3*v2) + (u2*v4-u4*v2)*(u2*v4-u4*v2) + (u3*v4-u4*v3)*(u3*v4-u4*v3)) by ring.
    pose proof (Rle_0_sqr (u1*v2-u2*v1)). pose proof (Rle_0_sqr (u1*v3-u3*v1)). pose proof (Rle_0_sqr (u1*v4-u4*v1)).
    pose proof (Rle_0_sqr (u2*v3-u3*v2)). pose proof (Rle_0_sqr (u2*v4-u4*v2)). pose proof (Rle_0_sqr (u3*v4-u4*v3)).
    unfold Rsqr in *. lra. }
  assert (Su : 0 <= u1*u1 + u2*u2 + u3*u3 + u4*u4) by nra.
  assert (Sv : 0 <= v1*v1 + v2*v2 + v3*v3 + v4*v4) by nra.
  assert (L1 : D * D <= 1) by nra.
  unfold Rabs. destruct (Rcase_abs D); nra.
Qed.

Lemma normed_le1 a b c d :
  let n := sqrt (a*a + b*b + c*c + d*d) in a/n*(a/n) + b/n*(b/n) + c/n*(c/n) + d/n*(d/n) <= 1.
Proof.
  intros n. assert (S0 : 0 <= a*a + b*b + c*c + d*d) by nra.
  destruct (Rlt_dec 0 (a*a + b*b + c*c + d*d)) as [P|Z].
  - assert (Hn : n * n = a*a + b*b + c*c + d*d) by (apply sqrt_sqrt; lra).
    assert (Hp : 0 < n) by (apply sqrt_lt_R0; exact P).
    right. field_simplify_eq; [|lra]. ring [Hn].
  - assert (a = 0 /\ b = 0 /\ c = 0 /\ d = 0) as (-> & -> & -> & ->) by (repeat split; nra).
    unfold Rdiv. rewrite !Rmult_0_l. lra.
Qed.

Lemma clip_id x : -1 <= x <= 1 -> Rmin (Rmax x (-1)) 1 = x.
Proof. intros H. unfold Rmax. destruct (Rle_dec x (-1)); unfold Rmin; destruct (Rle_dec _ 1); lra. Qed.

Ltac unclip_dot :=
  repeat match goal with
  | |- context [Rmin (Rmax (Rabs ?x) (-1)) 1] =>
      rewrite (clip_id (Rabs x)) by (split; [pose proof (Rabs_pos x); lra | apply cs4; apply normed_le1])
  end.
(* Shape-directed: split on whatever decision is outermost on either side until both sides are leaves.  A leaf pair is then
   (i) the scalar shortcut `Val [0]` (right disjunct), (ii) syntactically / ring-equal values, or (iii) the two sides computed the
   same minimum with differently phrased comparisons (`if a < b then a else b` vs `if b <= a then b else a`, Python `min` vs a NumPy
   reduction): then the collected order facts either make the two leaves equal or are contradictory — both closed by lra with the
   norms as atoms.  Nothing depends on the number or the order of the decisions. *)
Ltac clear_gates := repeat match goal with H : context [Rabs _] |- _ => clear H end.
Ltac leaf_eq := first [ same_val | clear_gates; pose_sqrt_pos; val_eq; lra ].
Ltac twin_shortcut := cbv zeta; unclip_dot; repeat (head_dec; try (right; reflexivity)); left; leaf_eq.

Lemma qdist_twin_partial a b c d w x y z :
  C07_qdist_b1_R a b c d w x y z = C07_qdist_s_R a b c d w x y z \/ C07_qdist_s_R a b c d w x y z = Val [0].
Proof. unfold C07_qdist_b1_R, C07_qdist_s_R. twin_shortcut. Qed.
Lemma qeip_twin_partial a b c d w x y z :
  C07_qeip_b1_R a b c d w x y z = C07_qeip_s_R a b c d w x y z \/ C07_qeip_s_R a b c d w x y z = Val [0].
Proof. unfold C07_qeip_b1_R, C07_qeip_s_R. twin_shortcut. Qed.
Lemma qcip_twin_partial a b c d w x y z :
  C07_qcip_b1_R a b c d w x y z = C07_qcip_s_R a b c d w x y z \/ C07_qcip_s_R a b c d w x y z = Val [0].
Proof. unfold C07_qcip_b1_R, C07_qcip_s_R. twin_shortcut. Qed.
(* two-row batch of qeip: row 1 does not depend on row 0 *)
Lemma qeip_twin2_partial k_a k_b k_c k_d k_w k_x k_y k_z a b c d w x y z :
  C07_qeip_b2_R k_a k_b k_c k_d k_w k_x k_y k_z a b c d w x y z = C07_qeip_s_R a b c d w x y z
  \/ C07_qeip_s_R a b c d w x y z = Val [0].
Proof. unfold C07_qeip_b2_R, C07_qeip_s_R. twin_shortcut. Qed.
Lemma chordal_twin r00 r01 r02 r10 r11 r12 r20 r21 r22 s00 s01 s02 s10 s11 s12 s20 s21 s22 :
  C07_chordal_b1_R r00 r01 r02 r10 r11 r12 r20 r21 r22 s00 s01 s02 s10 s11 s12 s20 s21 s22 =
  C07_chordal_s_R r00 r01 r02 r10 r11 r12 r20 r21 r22 s00 s01 s02 s10 s11 s12 s20 s21 s22.
Proof. cbv delta [C07_chordal_b1_R C07_chordal_s_R]. cbv beta. reflexivity. Qed.

(* euclidean (angle-wise distance with the 2pi wrap) and rmse: 1-D branch vs N-row branch, one-row and two-row batches *)
Lemma euclidean_twin a0 a1 a2 b0 b1 b2 : C07_euclidean_b1_R a0 a1 a2 b0 b1 b2 = C07_euclidean_s_R a0 a1 a2 b0 b1 b2.
Proof. unfold C07_euclidean_b1_R, C07_euclidean_s_R. twin_q. Qed.
Lemma euclidean_twin2 k_a0 k_a1 k_a2 k_b0 k_b1 k_b2 a0 a1 a2 b0 b1 b2 :
  C07_euclidean_b2_R k_a0 k_a1 k_a2 k_b0 k_b1 k_b2 a0 a1 a2 b0 b1 b2 = C07_euclidean_s_R a0 a1 a2 b0 b1 b2.
Proof. unfold C07_euclidean_b2_R, C07_euclidean_s_R. twin_q. Qed.
Lemma rmse_twin a0 a1 a2 b0 b1 b2 : C07_rmse_b1_R a0 a1 a2 b0 b1 b2 = C07_rmse_s_R a0 a1 a2 b0 b1 b2.
Proof. unfold C07_rmse_b1_R, C07_rmse_s_R. twin_q. Qed.

(* qad: the batch branch clips 2 (q1.q2)^2 - 1 to [-1,1]; over the reals the clip is the identity (Cauchy-Schwarz again) *)
Lemma sq_le1 d : Rabs d <= 1 -> -1 <= 2 * d ^ 2 - 1 <= 1.
Proof. intros H. assert (d * d <= 1) by (unfold Rabs in H; destruct (Rcase_abs d); nra). split; nra. Qed.
Ltac unclip_qad :=
  repeat match goal with
  | |- context [Rmin (Rmax (2 * ?d ^ 2 - 1) (-1)) 1] =>
      rewrite (clip_id (2 * d ^ 2 - 1)) by (apply sq_le1; apply cs4; apply normed_le1)
  end.
Lemma qad_twin_partial a b c d w x y z :
  C07_qad_b1_R a b c d w x y z = C07_qad_s_R a b c d w x y z \/ C07_qad_s_R a b c d w x y z = Val [0].
Proof. unfold C07_qad_b1_R, C07_qad_s_R. cbv zeta. unclip_qad. repeat (head_dec; try (right; reflexivity)); left; leaf_eq. Qed.

(* rmse_matrices: sqrt(mean over 9) vs sqrt(mean of row means) *)
Lemma rmse_matrices_twin r00 r01 r02 r10 r11 r12 r20 r21 r22 s00 s01 s02 s10 s11 s12 s20 s21 s22 :
  C07_rmse_matrices_b1_R r00 r01 r02 r10 r11 r12 r20 r21 r22 s00 s01 s02 s10 s11 s12 s20 s21 s22 =
  C07_rmse_matrices_s_R r00 r01 r02 r10 r11 r12 r20 r21 r22 s00 s01 s02 s10 s11 s12 s20 s21 s22.
Proof. unfold C07_rmse_matrices_b1_R, C07_rmse_matrices_s_R. cbv zeta. val_eq. f_equal. field. Qed.
