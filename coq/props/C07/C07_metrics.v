(* C07_metrics.v — metric functions, ndim==1 branch vs batch branch.  PARTIAL: the scalar branches of qdist/qeip/qcip/qad
   return 0 through an `allclose` shortcut the batch branches lack (known finding); outside the shortcut they agree. *)
From Coq Require Import Reals List Lra.
From AhrsLib Require Import Base.
From AhrsGen Require Import C07gen_R.
From AhrsProps Require Import C07_tac.
Import ListNotations.
Open Scope R_scope.

Ltac twin_shortcut := cbv zeta; repeat (head_dec; try (right; reflexivity)); left; same_val.

Lemma qdist_twin_partial a b c d w x y z :
  C07_qdist_b1_R a b c d w x y z = C07_qdist_s_R a b c d w x y z \/ C07_qdist_s_R a b c d w x y z = Val [0].
Proof. unfold C07_qdist_b1_R, C07_qdist_s_R. twin_shortcut. Qed.
Lemma qeip_twin_partial a b c d w x y z :
  C07_qeip_b1_R a b c d w x y z = C07_qeip_s_R a b c d w x y z \/ C07_qeip_s_R a b c d w x y z = Val [0].
Proof. unfold C07_qeip_b1_R, C07_qeip_s_R. twin_shortcut. Qed.
Lemma qcip_twin_partial a b c d w x y z :
  C07_qcip_b1_R a b c d w x y z = C07_qcip_s_R a b c d w x y z \/ C07_qcip_s_R a b c d w x y z = Val [0].
Proof. unfold C07_qcip_b1_R, C07_qcip_s_R. twin_shortcut. Qed.
(* two-row batch of qeip: row 1 does not depend on row 0 *)
Lemma qeip_twin2_partial k_a k_b k_c k_d k_w k_x k_y k_z a b c d w x y z :
  C07_qeip_b2_R k_a k_b k_c k_d k_w k_x k_y k_z a b c d w x y z = C07_qeip_s_R a b c d w x y z
  \/ C07_qeip_s_R a b c d w x y z = Val [0].
Proof. unfold C07_qeip_b2_R, C07_qeip_s_R. twin_shortcut. Qed.
Lemma chordal_twin r00 r01 r02 r10 r11 r12 r20 r21 r22 s00 s01 s02 s10 s11 s12 s20 s21 s22 :
  C07_chordal_b1_R r00 r01 r02 r10 r11 r12 r20 r21 r22 s00 s01 s02 s10 s11 s12 s20 s21 s22 =
  C07_chordal_s_R r00 r01 r02 r10 r11 r12 r20 r21 r22 s00 s01 s02 s10 s11 s12 s20 s21 s22.
Proof. cbv delta [C07_chordal_b1_R C07_chordal_s_R]. cbv beta. reflexivity. Qed.
