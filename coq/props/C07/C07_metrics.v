(* C07_metrics placeholder *)
