(* C07 placeholder *)
