(* C07.v — property C07: array (vectorised) entry points equal the scalar entry points row by row.  Statements only.
   Every `_b1_R` is the regenerated ARRAY entry point called with a one-row array (row 0 returned), every `_b2_R` the
   same entry point called with a two-row array (row 1 returned; the k_* arguments are the other row), every `_s_R` the
   regenerated SCALAR entry point.  Equalities are equalities of outcomes: values and raised exceptions. *)
From Coq Require Import Reals List Lra.
From AhrsLib Require Import Base.
From AhrsGen Require Import C07gen_R.
From AhrsProps Require Import C07_tac C07_quat C07_dcm C07_metrics C07_est.
Import ListNotations.
Open Scope R_scope.

(* QuaternionArray vs Quaternion: conjugate, Euler angles, rotation matrix, both storage orders; ALL rows (zero rows raise
   ValueError on both paths; the versor gate of QuaternionArray.to_DCM never fires on a normalised row) *)
Theorem C07_quaternion_array_rows_equal_scalar : forall w x y z,
  C07_conj_b1_R w x y z = C07_conj_s_R w x y z /\ C07_conj_S_b1_R w x y z = C07_conj_S_s_R w x y z /\
  C07_to_angles_b1_R w x y z = C07_to_angles_s_R w x y z /\ C07_to_angles_S_b1_R w x y z = C07_to_angles_S_s_R w x y z /\
  C07_to_DCM_b1_R w x y z = C07_to_DCM_s_R w x y z /\ C07_to_DCM_S_b1_R w x y z = C07_to_DCM_S_s_R w x y z.
Proof.
  intros w x y z. split; [exact (conj_twin w x y z)|]. split; [exact (conj_S_twin w x y z)|].
  split; [exact (to_angles_twin w x y z)|]. split; [exact (to_angles_S_twin w x y z)|].
  split; [exact (to_DCM_twin w x y z)|exact (to_DCM_S_twin w x y z)].
Qed.
Print Assumptions C07_quaternion_array_rows_equal_scalar.

(* the same on a two-row batch: row 1 equals the scalar call whatever the (non-zero) other row is *)
Theorem C07_quaternion_array_two_rows : forall k_w k_x k_y k_z w x y z, 0 < k_w*k_w + k_x*k_x + k_y*k_y + k_z*k_z ->
  C07_conj_b2_R k_w k_x k_y k_z w x y z = C07_conj_s_R w x y z /\
  C07_to_angles_b2_R k_w k_x k_y k_z w x y z = C07_to_angles_s_R w x y z /\
  C07_to_DCM_b2_R k_w k_x k_y k_z w x y z = C07_to_DCM_s_R w x y z.
Proof.
  intros k_w k_x k_y k_z w x y z H. split; [exact (conj_twin2 k_w k_x k_y k_z w x y z H)|].
  split; [exact (to_angles_twin2 k_w k_x k_y k_z w x y z H)|exact (to_DCM_twin2 k_w k_x k_y k_z w x y z H)].
Qed.
Print Assumptions C07_quaternion_array_two_rows.
Example C07_two_rows_inhabited : 0 < 0*0 + 1*1 + 0*0 + 0*0.
Proof. lra. Qed.

(* free functions with a 1-D and a 2-D branch *)
Theorem C07_q2R_rpy2q_chordal_branches_agree : forall w x y z k_w k_x k_y k_z,
  C07_q2R_v1_b1_R w x y z = C07_q2R_v1_s_R w x y z /\ C07_q2R_v2_b1_R w x y z = C07_q2R_v2_s_R w x y z /\
  C07_q2R_v1_b2_R k_w k_x k_y k_z w x y z = C07_q2R_v1_s_R w x y z /\
  C07_rpy2q_b1_R w x y = C07_rpy2q_s_R w x y /\
  (forall r00 r01 r02 r10 r11 r12 r20 r21 r22 s00 s01 s02 s10 s11 s12 s20 s21 s22,
   C07_chordal_b1_R r00 r01 r02 r10 r11 r12 r20 r21 r22 s00 s01 s02 s10 s11 s12 s20 s21 s22 =
   C07_chordal_s_R r00 r01 r02 r10 r11 r12 r20 r21 r22 s00 s01 s02 s10 s11 s12 s20 s21 s22).
Proof.
  intros w x y z k_w k_x k_y k_z. split; [exact (q2R_v1_twin w x y z)|]. split; [exact (q2R_v2_twin w x y z)|].
  split; [exact (q2R_v1_twin2 k_w k_x k_y k_z w x y z)|]. split; [exact (rpy2q_twin w x y)|exact chordal_twin].
Qed.
Print Assumptions C07_q2R_rpy2q_chordal_branches_agree.

(* construction from roll-pitch-yaw, PARTIAL: on the range the scalar path accepts (outside it the scalar path raises
   and the array path does not: C07_from_rpy_range_refuted) *)
Theorem C07_from_rpy_partial : forall a0 a1 a2,
  - 2 * PI <= a0 <= 2 * PI -> - 2 * PI <= a1 <= 2 * PI -> - 2 * PI <= a2 <= 2 * PI ->
  C07_from_rpy_b1_R a0 a1 a2 = C07_from_rpy_s_R a0 a1 a2.
Proof. exact from_rpy_twin. Qed.
Print Assumptions C07_from_rpy_partial.
Example C07_from_rpy_inhabited : - 2 * PI <= 1 <= 2 * PI.
Proof. pose proof PI_RGT_0. pose proof PI2_3_2. unfold PI2 in *. split; lra. Qed.

(* hughes 3x3 branch vs N-by-3x3 branch: equal for ALL matrices (holds since the repair of the batch branch) *)
Theorem C07_hughes_branches_agree : forall r00 r01 r02 r10 r11 r12 r20 r21 r22,
  C07_hughes_b1_R r00 r01 r02 r10 r11 r12 r20 r21 r22 = C07_hughes_s_R r00 r01 r02 r10 r11 r12 r20 r21 r22.
Proof. exact hughes_twin. Qed.
Print Assumptions C07_hughes_branches_agree.

(* chiaverini 3x3 branch vs N-by-3x3 branch, PARTIAL: away from half-turns (trace > -1); at an exact half-turn the two
   branches differ: C07_chiaverini_half_turn_refuted *)
Theorem C07_chiaverini_partial : forall k00 k01 k02 k10 k11 k12 k20 k21 k22 r00 r01 r02 r10 r11 r12 r20 r21 r22,
  -1 < r00 + r11 + r22 ->
  C07_chiaverini_b1_R r00 r01 r02 r10 r11 r12 r20 r21 r22 = C07_chiaverini_s_R r00 r01 r02 r10 r11 r12 r20 r21 r22 /\
  C07_chiaverini_b2_R k00 k01 k02 k10 k11 k12 k20 k21 k22 r00 r01 r02 r10 r11 r12 r20 r21 r22 =
  C07_chiaverini_s_R r00 r01 r02 r10 r11 r12 r20 r21 r22.
Proof.
  intros. split; [apply chiaverini_twin_partial; assumption|apply chiaverini_twin2_partial; assumption].
Qed.
Print Assumptions C07_chiaverini_partial.
Example C07_chiaverini_inhabited : -1 < 1 + 1 + 1.
Proof. lra. Qed.

(* Tilt and SAAM: the vectorised copy equals estimate() for every non-zero sample, every representation traced, one-row
   and two-row batches *)
Theorem C07_tilt_saam_vectorised_equal_estimate : forall k_ax k_ay k_az k_mx k_my k_mz ax ay az mx my mz,
  0 < ax*ax + ay*ay + az*az -> 0 < mx*mx + my*my + mz*mz ->
  C07_tilt_quaternion_b1_R ax ay az mx my mz = C07_tilt_quaternion_s_R ax ay az mx my mz /\
  C07_tilt_angles_b1_R ax ay az mx my mz = C07_tilt_angles_s_R ax ay az mx my mz /\
  C07_tilt_angles_b2_R k_ax k_ay k_az k_mx k_my k_mz ax ay az mx my mz = C07_tilt_angles_s_R ax ay az mx my mz /\
  C07_tilt_nomag_b1_R ax ay az = C07_tilt_nomag_s_R ax ay az /\
  C07_saam_b1_R ax ay az mx my mz = C07_saam_s_R ax ay az mx my mz /\
  C07_saam_b2_R k_ax k_ay k_az k_mx k_my k_mz ax ay az mx my mz = C07_saam_s_R ax ay az mx my mz.
Proof.
  intros k_ax k_ay k_az k_mx k_my k_mz ax ay az mx my mz Ha Hm.
  split; [exact (tilt_quaternion_twin ax ay az mx my mz Ha Hm)|]. split; [exact (tilt_angles_twin ax ay az mx my mz Ha Hm)|].
  split; [exact (tilt_angles_twin2 k_ax k_ay k_az k_mx k_my k_mz ax ay az mx my mz Ha Hm)|].
  split; [exact (tilt_nomag_twin ax ay az Ha)|]. split; [exact (saam_twin ax ay az mx my mz Ha Hm)|].
  exact (saam_twin2 k_ax k_ay k_az k_mx k_my k_mz ax ay az mx my mz Ha Hm).
Qed.
Print Assumptions C07_tilt_saam_vectorised_equal_estimate.
Example C07_tilt_inhabited : 0 < 0*0 + 0*0 + 1*1.
Proof. lra. Qed.

(* loop-style estimator FAMC: a one-sample call equals a one-row batch (all samples, including the rejected ones) *)
Theorem C07_one_sample_equals_one_row_batch : forall ax ay az mx my mz,
  C07_famc_b1_R ax ay az mx my mz = C07_famc_s_R ax ay az mx my mz.
Proof. exact famc_twin. Qed.
Print Assumptions C07_one_sample_equals_one_row_batch.

(* metric functions, PARTIAL: the batch branch equals the ndim==1 branch unless the latter took its allclose shortcut
   (known finding: the shortcut returns exactly 0 for rotations closer than about 1e-5 rad, the batch branch does not) *)
Theorem C07_metrics_partial : forall a b c d w x y z,
  (C07_qdist_b1_R a b c d w x y z = C07_qdist_s_R a b c d w x y z \/ C07_qdist_s_R a b c d w x y z = Val [0]) /\
  (C07_qeip_b1_R a b c d w x y z = C07_qeip_s_R a b c d w x y z \/ C07_qeip_s_R a b c d w x y z = Val [0]) /\
  (C07_qcip_b1_R a b c d w x y z = C07_qcip_s_R a b c d w x y z \/ C07_qcip_s_R a b c d w x y z = Val [0]) /\
  (forall k_a k_b k_c k_d k_w k_x k_y k_z,
   C07_qeip_b2_R k_a k_b k_c k_d k_w k_x k_y k_z a b c d w x y z = C07_qeip_s_R a b c d w x y z
   \/ C07_qeip_s_R a b c d w x y z = Val [0]) /\
  (C07_qad_b1_R a b c d w x y z = C07_qad_s_R a b c d w x y z \/ C07_qad_s_R a b c d w x y z = Val [0]).
Proof.
  intros. split; [apply qdist_twin_partial|]. split; [apply qeip_twin_partial|]. split; [apply qcip_twin_partial|].
  split; [intros; apply qeip_twin2_partial|apply qad_twin_partial].
Qed.
Print Assumptions C07_metrics_partial.

(* euclidean (2pi-wrapped angle distance) and rmse: the 1-D branch equals the N-row branch (one-row and two-row batches) *)
Theorem C07_euclidean_rmse_branches_agree : forall k_a0 k_a1 k_a2 k_b0 k_b1 k_b2 a0 a1 a2 b0 b1 b2,
  C07_euclidean_b1_R a0 a1 a2 b0 b1 b2 = C07_euclidean_s_R a0 a1 a2 b0 b1 b2 /\
  C07_euclidean_b2_R k_a0 k_a1 k_a2 k_b0 k_b1 k_b2 a0 a1 a2 b0 b1 b2 = C07_euclidean_s_R a0 a1 a2 b0 b1 b2 /\
  C07_rmse_b1_R a0 a1 a2 b0 b1 b2 = C07_rmse_s_R a0 a1 a2 b0 b1 b2.
Proof.
  intros. split; [apply euclidean_twin|]. split; [apply euclidean_twin2|apply rmse_twin].
Qed.
Print Assumptions C07_euclidean_rmse_branches_agree.

(* rmse_matrices: one 3x3 pair (mean over 9 entries) equals the one-row batch (mean of the row means) *)
Theorem C07_rmse_matrices_branches_agree : forall r00 r01 r02 r10 r11 r12 r20 r21 r22 s00 s01 s02 s10 s11 s12 s20 s21 s22,
  C07_rmse_matrices_b1_R r00 r01 r02 r10 r11 r12 r20 r21 r22 s00 s01 s02 s10 s11 s12 s20 s21 s22 =
  C07_rmse_matrices_s_R r00 r01 r02 r10 r11 r12 r20 r21 r22 s00 s01 s02 s10 s11 s12 s20 s21 s22.
Proof. exact rmse_matrices_twin. Qed.
Print Assumptions C07_rmse_matrices_branches_agree.

(* lifting to all N >= 0 rows: an array entry point that treats the row axis by broadcasting or by a loop is the map of
   its row function (Gallina model `batch`); row-wise equality with the scalar entry point then gives batch = map scalar,
   and row i of the batch is the scalar call on row i *)
Theorem C07_batch_is_map_of_scalar : forall (Row Out : Type) (single brow : Row -> Out) (rows : list Row),
  (forall r, In r rows -> brow r = single r) ->
  batch brow rows = map single rows /\ length (batch brow rows) = length rows /\
  (forall i d, (i < length rows)%nat -> nth i (batch brow rows) (brow d) = single (nth i rows d)).
Proof.
  intros Row Out single brow rows H. split; [exact (batch_is_map_single single brow rows H)|].
  split; [exact (batch_length brow rows)|]. intros i d Hi. exact (batch_nth single brow rows i d H Hi).
Qed.
Print Assumptions C07_batch_is_map_of_scalar.

Theorem C07_to_DCM_all_rows : forall rows : list row4,
  batch (app4 C07_to_DCM_b1_R) rows = map (app4 C07_to_DCM_s_R) rows /\
  batch (app4 C07_conj_b1_R) rows = map (app4 C07_conj_s_R) rows /\
  batch (app4 C07_to_angles_b1_R) rows = map (app4 C07_to_angles_s_R) rows.
Proof.
  intros rows. split; [|split]; apply batch_is_map_single; intros [[[w x] y] z] _; simpl.
  - exact (to_DCM_twin w x y z). - exact (conj_twin w x y z). - exact (to_angles_twin w x y z).
Qed.
Print Assumptions C07_to_DCM_all_rows.

Theorem C07_tilt_saam_all_rows : forall rows : list row6,
  (forall r, In r rows -> let '(ax, ay, az, mx, my, mz) := r in 0 < ax*ax + ay*ay + az*az /\ 0 < mx*mx + my*my + mz*mz) ->
  batch (app6 C07_tilt_quaternion_b1_R) rows = map (app6 C07_tilt_quaternion_s_R) rows /\
  batch (app6 C07_saam_b1_R) rows = map (app6 C07_saam_s_R) rows.
Proof.
  intros rows G. split; apply batch_is_map_single; intros [[[[[ax ay] az] mx] my] mz] Hin;
  specialize (G _ Hin); simpl in G; destruct G as [Ha Hm]; simpl.
  - exact (tilt_quaternion_twin ax ay az mx my mz Ha Hm). - exact (saam_twin ax ay az mx my mz Ha Hm).
Qed.
Print Assumptions C07_tilt_saam_all_rows.
Example C07_all_rows_inhabited : forall r, In r [(0, 0, 1, 1, 0, 0); (1, 2, 3, 0, 1, 0)] ->
  let '(ax, ay, az, mx, my, mz) := r in 0 < ax*ax + ay*ay + az*az /\ 0 < mx*mx + my*my + mz*mz.
Proof. intros r [<-|[<-|[]]]; simpl; split; lra. Qed.
