(* C07_est placeholder *)
