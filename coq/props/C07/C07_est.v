(* C07_est.v — estimators: the vectorised copies of Tilt and SAAM equal estimate() row by row; the loop-style
   estimator FAMC on a one-row batch equal the one-sample call. *)
From Coq Require Import Reals List Lra.
From AhrsLib Require Import Base.
From AhrsGen Require Import C07gen_R.
From AhrsProps Require Import C07_tac.
Import ListNotations.
Open Scope R_scope.

Definition nz3 (x y z : R) : Prop := 0 < x*x + y*y + z*z.

Lemma saam_twin ax ay az mx my mz : nz3 ax ay az -> nz3 mx my mz ->
  C07_saam_b1_R ax ay az mx my mz = C07_saam_s_R ax ay az mx my mz.
Proof. unfold nz3. intros Ha Hm. unfold C07_saam_b1_R, C07_saam_s_R. twin_q. Qed.
Lemma saam_twin2 k_ax k_ay k_az k_mx k_my k_mz ax ay az mx my mz : nz3 ax ay az -> nz3 mx my mz ->
  C07_saam_b2_R k_ax k_ay k_az k_mx k_my k_mz ax ay az mx my mz = C07_saam_s_R ax ay az mx my mz.
Proof. unfold nz3. intros Ha Hm. unfold C07_saam_b2_R, C07_saam_s_R. twin_q. Qed.
Lemma tilt_nomag_twin ax ay az : nz3 ax ay az -> C07_tilt_nomag_b1_R ax ay az = C07_tilt_nomag_s_R ax ay az.
Proof. unfold nz3. intros Ha. unfold C07_tilt_nomag_b1_R, C07_tilt_nomag_s_R. first [twin_q | twin_tilt_unit]. Qed.
Lemma tilt_angles_twin ax ay az mx my mz : nz3 ax ay az -> nz3 mx my mz ->
  C07_tilt_angles_b1_R ax ay az mx my mz = C07_tilt_angles_s_R ax ay az mx my mz.
Proof. unfold nz3. intros Ha Hm. unfold C07_tilt_angles_b1_R, C07_tilt_angles_s_R. twin_a2. Qed.
Lemma tilt_angles_twin2 k_ax k_ay k_az k_mx k_my k_mz ax ay az mx my mz : nz3 ax ay az -> nz3 mx my mz ->
  C07_tilt_angles_b2_R k_ax k_ay k_az k_mx k_my k_mz ax ay az mx my mz = C07_tilt_angles_s_R ax ay az mx my mz.
Proof. unfold nz3. intros Ha Hm. unfold C07_tilt_angles_b2_R, C07_tilt_angles_s_R. twin_a2. Qed.
Lemma tilt_quaternion_twin ax ay az mx my mz : nz3 ax ay az -> nz3 mx my mz ->
  C07_tilt_quaternion_b1_R ax ay az mx my mz = C07_tilt_quaternion_s_R ax ay az mx my mz.
Proof. unfold nz3. intros Ha Hm. unfold C07_tilt_quaternion_b1_R, C07_tilt_quaternion_s_R. first [twin_tilt | twin_tilt_unit]. Qed.

(* loop-style estimator: the batch calls estimate() per row; a one-row batch is the one-sample call *)
Lemma famc_twin ax ay az mx my mz : C07_famc_b1_R ax ay az mx my mz = C07_famc_s_R ax ay az mx my mz.
Proof. cbv delta [C07_famc_b1_R C07_famc_s_R]. cbv beta. reflexivity. Qed.
