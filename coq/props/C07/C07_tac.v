(* C07_tac placeholder *)
