(* C07_tac.v — tactics and the map-lifting lemmas used by the twin proofs.  No generated code here. *)
From Coq Require Import Reals List Lra Lia.
From AhrsLib Require Import Base.
Import ListNotations.
Open Scope R_scope.

(* ---- lifting a row-wise equality to all N.  `batch brow rows` is the Gallina model of an array entry point
   whose NumPy code treats the row axis by broadcasting / by a Python loop: the map of its row function. *)
Definition batch {Row Out : Type} (brow : Row -> Out) (rows : list Row) : list Out := map brow rows.

Lemma batch_is_map_single {Row Out : Type} (single brow : Row -> Out) (rows : list Row) :
  (forall r, In r rows -> brow r = single r) -> batch brow rows = map single rows.
Proof.
  induction rows as [|r rs IH]; intros H; [reflexivity|].
  unfold batch in *. simpl. rewrite (H r (or_introl eq_refl)), IH; [reflexivity|].
  intros r' Hin. apply H. right; exact Hin.
Qed.

Lemma batch_nth {Row Out : Type} (single brow : Row -> Out) (rows : list Row) (i : nat) (d : Row) :
  (forall r, In r rows -> brow r = single r) -> (i < length rows)%nat ->
  nth i (batch brow rows) (brow d) = single (nth i rows d).
Proof. intros H Hi. unfold batch. rewrite map_nth. apply H. apply nth_In. exact Hi. Qed.

Lemma batch_length {Row Out : Type} (brow : Row -> Out) (rows : list Row) : length (batch brow rows) = length rows.
Proof. apply map_length. Qed.

Lemma batch_one {Row Out : Type} (single brow : Row -> Out) (r : Row) : brow r = single r -> batch brow [r] = [single r].
Proof. intros H. unfold batch. simpl. rewrite H. reflexivity. Qed.

(* rows of the different twins *)
Definition row4 := (R * R * R * R)%type.
Definition row3 := (R * R * R)%type.
Definition row6 := (R * R * R * R * R * R)%type.
Definition row8 := (R * R * R * R * R * R * R * R)%type.
Definition row9 := (R * R * R * R * R * R * R * R * R)%type.
Definition app4 {A} (f : R -> R -> R -> R -> A) (r : row4) : A := let '(a, b, c, d) := r in f a b c d.
Definition app3 {A} (f : R -> R -> R -> A) (r : row3) : A := let '(a, b, c) := r in f a b c.
Definition app6 {A} (f : R -> R -> R -> R -> R -> R -> A) (r : row6) : A := let '(a, b, c, d, e, g) := r in f a b c d e g.
Definition app8 {A} (f : R -> R -> R -> R -> R -> R -> R -> R -> A) (r : row8) : A :=
  let '(a, b, c, d, e, g, h, i) := r in f a b c d e g h i.
Definition app9 {A} (f : R -> R -> R -> R -> R -> R -> R -> R -> R -> A) (r : row9) : A :=
  let '(a, b, c, d, e, g, h, i, j) := r in f a b c d e g h i j.

(* ---- facts about sqrt made available to lra *)
Ltac pose_sqrt_pos :=
  repeat match goal with
  | |- context [sqrt ?e] =>
      lazymatch goal with H : 0 <= sqrt e |- _ => fail | _ => pose proof (sqrt_pos e) end
  | _ : context [sqrt ?e] |- _ =>
      lazymatch goal with H : 0 <= sqrt e |- _ => fail | _ => pose proof (sqrt_pos e) end
  end.

Lemma sqrt_pos_arg x : 0 < sqrt x -> 0 < x.
Proof.
  intros H. destruct (Rlt_dec 0 x) as [|N]; [assumption|].
  rewrite sqrt_neg_0 in H by lra. lra.
Qed.

(* a guard  0 < e  of the theorem gives  0 < sqrt e *)
Ltac pos_sqrt_hyps :=
  repeat match goal with
  | H : 0 < ?e |- _ =>
      lazymatch e with
      | sqrt _ => fail
      | _ => lazymatch goal with _ : 0 < sqrt e |- _ => fail | _ => pose proof (sqrt_lt_R0 e H) end
      end
  end.

(* name n := sqrt e when 0 < sqrt e or 0 <> sqrt e is known: gives n*n = e and 0 < n *)
Ltac name_pos_sqrt :=
  match goal with
  | H : 0 < sqrt ?e |- _ =>
      let n := fresh "n" in let Hn := fresh "Hn" in let Hp := fresh "Hp" in
      assert (Hn : sqrt e * sqrt e = e) by (apply sqrt_sqrt; apply Rlt_le; apply sqrt_pos_arg; exact H);
      assert (Hp : 0 < sqrt e) by exact H; clear H;
      set (n := sqrt e) in *
  | H : 0 <> sqrt ?e |- _ =>
      let H' := fresh in assert (H' : 0 < sqrt e) by (pose proof (sqrt_pos e); lra); clear H
  end.

(* cos t * cos t = 1 - sin t * sin t for every cosine in the goal *)
Lemma cos2_sin2 t : cos t * cos t = 1 - sin t * sin t.
Proof. pose proof (sin2_cos2 t) as H. unfold Rsqr in H. lra. Qed.
Ltac trig_hyps :=
  repeat match goal with
  | |- context [cos ?t] =>
      lazymatch goal with _ : cos t * cos t = 1 - sin t * sin t |- _ => fail | _ => pose proof (cos2_sin2 t) end
  end.

(* ring modulo every hypothesis of the form  a * a = _  (norms named above, cosines) *)
Ltac hringN :=
  first
  [ ring
  | match goal with H1 : ?a1 * ?a1 = _, H2 : ?a2 * ?a2 = _, H3 : ?a3 * ?a3 = _, H4 : ?a4 * ?a4 = _, H5 : ?a5 * ?a5 = _, H6 : ?a6 * ?a6 = _ |- _ =>
      ring [H1 H2 H3 H4 H5 H6] end
  | match goal with H1 : ?a1 * ?a1 = _, H2 : ?a2 * ?a2 = _, H3 : ?a3 * ?a3 = _, H4 : ?a4 * ?a4 = _, H5 : ?a5 * ?a5 = _ |- _ =>
      ring [H1 H2 H3 H4 H5] end
  | match goal with H1 : ?a1 * ?a1 = _, H2 : ?a2 * ?a2 = _, H3 : ?a3 * ?a3 = _, H4 : ?a4 * ?a4 = _ |- _ => ring [H1 H2 H3 H4] end
  | match goal with H1 : ?a1 * ?a1 = _, H2 : ?a2 * ?a2 = _, H3 : ?a3 * ?a3 = _ |- _ => ring [H1 H2 H3] end
  | match goal with H1 : ?a1 * ?a1 = _, H2 : ?a2 * ?a2 = _ |- _ => ring [H1 H2] end
  | match goal with H1 : ?a1 * ?a1 = _ |- _ => ring [H1] end ].

(* rewrite sqrt e to 1 (goal and hypotheses) whenever e = 1 follows *)
Ltac prove_unit := field_simplify_eq; [ hringN | try lra .. ].
Ltac rw_unit e :=
  let E := fresh in assert (E : e = 1) by prove_unit; rewrite E in *; clear E; rewrite sqrt_1 in *.
Ltac unit_norm :=
  repeat match goal with
  | |- context [sqrt ?e] => rw_unit e
  | _ : context [sqrt ?e] |- _ => rw_unit e
  end.
Ltac abs0 := try (replace (1 - 1) with 0 in * by ring); try rewrite Rabs_R0 in *.

(* decide the outcome gates one by one; contradictory combinations are closed by lra with sqrt facts *)
Ltac close_absurd := exfalso; pose_sqrt_pos; lra.
(* split on the OUTERMOST decision of either side (never on an inner one: that would multiply the cases) *)
Ltac head_dec :=
  match goal with
  | |- (if ?c then _ else _) = _ => destruct c
  | |- _ = (if ?c then _ else _) => destruct c
  | |- (if ?c then _ else _) = _ \/ _ => destruct c
  | |- _ = (if ?c then _ else _) \/ _ => destruct c
  | |- _ \/ (if ?c then _ else _) = _ => destruct c
  | |- _ \/ _ = (if ?c then _ else _) => destruct c
  end.
Ltac dec1 := head_dec; try close_absurd.

(* ---- make the arguments of transcendental applications syntactically equal when ring proves them equal *)
Ltac merge1 f :=
  repeat match goal with
  | |- context [f ?a] =>
      match goal with
      | |- context [f ?c] =>
          tryif constr_eq a c then fail else
          (let H := fresh in assert (H : f c = f a) by (f_equal; timeout 2 ring); rewrite H; clear H)
      end
  end.
Ltac merge2 f :=
  repeat match goal with
  | |- context [f ?a ?b] =>
      match goal with
      | |- context [f ?c ?d] =>
          tryif (constr_eq a c; constr_eq b d) then fail else
          (let H := fresh in assert (H : f c d = f a b) by (f_equal; timeout 2 ring); rewrite H; clear H)
      end
  end.
Ltac merge_trans :=
  repeat (progress (merge2 atan2; merge1 sin; merge1 cos; merge1 asin; merge1 acos; merge1 sqrt; merge1 atan)).

(* final step on  Val [..] = Val [..]  *)
Ltac same_val := first [ reflexivity | val_eq; first [ reflexivity | ring | (field; try lra) | (field_simplify_eq; [hringN | try lra ..]) ] ].

(* the whole twin proof: both regenerated definitions already unfolded in the goal *)
Ltac twin_core :=
  repeat dec1; try reflexivity;
  unit_norm; repeat name_pos_sqrt; unit_norm; abs0; try (exfalso; lra); same_val.
Ltac twin_q := cbv zeta; pos_sqrt_hyps; twin_core.
(* variant for twins whose two copies order a sum or a product differently inside sqrt / sin / cos / atan2 *)
Ltac twin_m := cbv zeta; pos_sqrt_hyps; trig_hyps; merge_trans; twin_core.
(* variant that merges after the decisions (cheaper: the merged terms are the leaves only) *)
Ltac twin_dm :=
  cbv zeta; pos_sqrt_hyps; repeat dec1; try reflexivity; merge_trans; try reflexivity;
  unit_norm; repeat name_pos_sqrt; unit_norm; abs0; try (exfalso; lra); same_val.
(* variant that only merges atan2 arguments (Tilt: the yaw is atan2(-by, bx) in one copy, atan2(my2, mx3) in the other) *)
Ltac twin_a2 :=
  cbv zeta; pos_sqrt_hyps; repeat dec1; try reflexivity; merge2 atan2; same_val.
(* name an innermost atan2 application (one whose arguments contain no atan2): shrinks the nested Tilt terms *)
Ltac no_atan2 t := lazymatch t with context [atan2 _ _] => fail | _ => idtac end.
Ltac set_inner_atan2 :=
  match goal with
  | |- context [atan2 ?a ?b] => no_atan2 a; no_atan2 b; let e := fresh "e" in set (e := atan2 a b) in *
  end.
(* Tilt quaternion: roll and pitch are the two innermost atan2 (identical in both copies); then merge the yaw *)
Ltac twin_tilt :=
  cbv zeta; pos_sqrt_hyps; repeat dec1; try reflexivity; set_inner_atan2; set_inner_atan2; merge2 atan2; same_val.
(* variant for trigonometric twins: the sines and cosines become variables c, s with c*c = 1 - s*s *)
Ltac abstract_trig :=
  repeat match goal with
  | |- context [cos ?t] => let c := fresh "c" in set (c := cos t) in *
  | |- context [sin ?t] => let s := fresh "s" in set (s := sin t) in *
  end.
(* half-angle arguments written as  x * c  or  x / c  (x an input, c a constant) are brought to the form  c * x  that the
   other copy uses, so that `abstract_trig` names the same atom on both sides *)
Ltac norm_trig_args :=
  repeat match goal with
  | |- context [cos (?x * ?c)] => is_var x; tryif is_var c then fail else replace (x * c) with (c * x) by ring
  | |- context [sin (?x * ?c)] => is_var x; tryif is_var c then fail else replace (x * c) with (c * x) by ring
  | |- context [cos (?x / ?c)] => is_var x; tryif is_var c then fail else replace (x / c) with (1 / c * x) by (field; lra)
  | |- context [sin (?x / ?c)] => is_var x; tryif is_var c then fail else replace (x / c) with (1 / c * x) by (field; lra)
  end.
Ltac twin_t := cbv zeta; pos_sqrt_hyps; norm_trig_args; trig_hyps; abstract_trig; twin_core.
(* Tilt when one copy builds its quaternion as v/|v| (e.g. through rpy2q) and the other returns the half-angle product v itself:
   |v| = 1 identically (cos^2 + sin^2 = 1 for each half angle), so the radicand is rewritten to 1 and the leaf x / 1 closed by field *)
Ltac twin_tilt_unit :=
  cbv zeta; pos_sqrt_hyps; repeat dec1; try reflexivity; try set_inner_atan2; try set_inner_atan2; merge2 atan2;
  trig_hyps; abstract_trig; unit_norm; same_val.
