(* C07_refuted_metrics placeholder *)
