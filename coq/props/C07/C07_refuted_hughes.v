(* C07_refuted_hughes placeholder *)
