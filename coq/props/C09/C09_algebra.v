(* C09_algebra.v — the regenerated Hamilton algebra equals the specification algebra of AhrsLib.Rot *)
From Coq Require Import Reals List Lra Psatz.
From AhrsLib Require Import Base Rot.
From AhrsGen Require Import C09gen_R.
Import ListNotations.
Open Scope R_scope.

Definition nz4 (w x y z : R) : Prop := 0 < w*w + x*x + y*y + z*z.

(* the constructor's zero test: 0 = sqrt(e) is impossible when e > 0 *)
Ltac gate_nz :=
  match goal with
  | |- context [Req_EM_T 0 (sqrt ?e)] =>
      let Hz := fresh "Hz" in
      destruct (Req_EM_T 0 (sqrt e)) as [Hz|Hz];
      [ exfalso; symmetry in Hz; apply sqrt_eq_0 in Hz; [lra|lra] | clear Hz ]
  end.
Ltac alg := intros; cbv zeta; repeat gate_nz; unfold_rot; val_eq; ring.

Lemma product_spec a b c d w x y z : nz4 a b c d -> C09_product_R a b c d w x y z = Val (qmul [a;b;c;d] [w;x;y;z]).
Proof. unfold nz4, C09_product_R. alg. Qed.
Lemma mul_spec a b c d w x y z : nz4 a b c d -> C09_mul_R a b c d w x y z = Val (qmul [a;b;c;d] [w;x;y;z]).
Proof. unfold nz4, C09_mul_R. alg. Qed.
Lemma matmul_spec a b c d w x y z : nz4 a b c d -> C09_matmul_R a b c d w x y z = Val (qmul [a;b;c;d] [w;x;y;z]).
Proof. unfold nz4, C09_matmul_R. alg. Qed.
Lemma q_prod_spec a b c d w x y z : C09_q_prod_R a b c d w x y z = Val (qmul [a;b;c;d] [w;x;y;z]).
Proof. unfold C09_q_prod_R. alg. Qed.
Lemma S_product_spec a b c d w x y z : nz4 a b c d -> C09_S_product_R a b c d w x y z = Val (qmul [a;b;c;d] [w;x;y;z]).
Proof. unfold nz4, C09_S_product_R. alg. Qed.

Lemma product_QS_spec a b c d w x y z : nz4 a b c d -> nz4 w x y z -> C09_product_QS_R a b c d w x y z = Val (qmul [a;b;c;d] [w;x;y;z]).
Proof. unfold nz4, C09_product_QS_R. alg. Qed.
Lemma mul_QS_spec a b c d w x y z : nz4 a b c d -> nz4 w x y z -> C09_mul_QS_R a b c d w x y z = Val (qmul [a;b;c;d] [w;x;y;z]).
Proof. unfold nz4, C09_mul_QS_R. alg. Qed.
Lemma matmul_QH_spec a b c d w x y z : nz4 a b c d -> nz4 w x y z -> C09_matmul_QH_R a b c d w x y z = Val (qmul [a;b;c;d] [w;x;y;z]).
Proof. unfold nz4, C09_matmul_QH_R. alg. Qed.

Lemma product_SS_spec a b c d w x y z : nz4 a b c d -> nz4 w x y z -> C09_product_SS_R a b c d w x y z = Val (qmul [a;b;c;d] [w;x;y;z]).
Proof. unfold nz4, C09_product_SS_R. alg. Qed.
Lemma mul_SS_spec a b c d w x y z : nz4 a b c d -> nz4 w x y z -> C09_mul_SS_R a b c d w x y z = Val (qmul [a;b;c;d] [w;x;y;z]).
Proof. unfold nz4, C09_mul_SS_R. alg. Qed.
Lemma matmul_SS_spec a b c d w x y z : nz4 a b c d -> nz4 w x y z -> C09_matmul_SS_R a b c d w x y z = Val (qmul [a;b;c;d] [w;x;y;z]).
Proof. unfold nz4, C09_matmul_SS_R. alg. Qed.
Lemma matmul_QS_spec a b c d w x y z : nz4 a b c d -> nz4 w x y z -> C09_matmul_QS_R a b c d w x y z = Val (qmul [a;b;c;d] [w;x;y;z]).
Proof. unfold nz4, C09_matmul_QS_R. alg. Qed.

(* normalize(): the ndarray view, .A, (w,x,y,z) and to_array() are all the same versor v/|v| *)
Lemma normalize_views_spec w x y z : nz4 w x y z ->
  let n := sqrt (w*w + x*x + y*y + z*z) in
  C09_normalize_views_R w x y z = Val [w/n; x/n; y/n; z/n;  w/n; x/n; y/n; z/n;  w/n; x/n; y/n; z/n;  w/n; x/n; y/n; z/n].
Proof.
  unfold nz4. intros H. cbv zeta. unfold C09_normalize_views_R. cbv zeta. repeat gate_nz.
  assert (Hn : sqrt (w * w + x * x + y * y + z * z) <> 0) by (apply sqrt_pos_ne0; exact H).
  val_eq; first [reflexivity | field; exact Hn].
Qed.

Lemma conj_spec w x y z : nz4 w x y z -> C09_conj_R w x y z = Val (qconj [w;x;y;z]).
Proof. unfold nz4, C09_conj_R. alg. Qed.
Lemma q_conj_spec w x y z : C09_q_conj_R w x y z = Val (qconj [w;x;y;z]).
Proof. unfold C09_q_conj_R. alg. Qed.
Lemma q_conj_rows_spec a b c d w x y z : C09_q_conj_rows_R a b c d w x y z = Val (qconj [a;b;c;d] ++ qconj [w;x;y;z]).
Proof. unfold C09_q_conj_rows_R. intros; cbv zeta. cbv [app]. unfold_rot. val_eq; ring. Qed.
(* scalar-last: the conjugate is returned in the quaternion's own storage order [x;y;z;w] *)
Lemma conj_S_spec w x y z : nz4 w x y z -> C09_conj_S_R w x y z = Val [-x; -y; -z; w].
Proof. unfold nz4, C09_conj_S_R. alg. Qed.

Lemma accessors_S w x y z : nz4 w x y z -> C09_S_wxyz_R w x y z = Val [w;x;y;z; x;y;z].
Proof. unfold nz4, C09_S_wxyz_R. alg. Qed.
Lemma accessors_H w x y z : nz4 w x y z -> C09_H_wxyz_R w x y z = Val [w;x;y;z; x;y;z].
Proof. unfold nz4, C09_H_wxyz_R. alg. Qed.

(* left / right product matrices, as 16-element row-major lists *)
Definition Lmat (p : list R) : list R :=
  [e p 0; - e p 1; - e p 2; - e p 3;  e p 1; e p 0; - e p 3; e p 2;  e p 2; e p 3; e p 0; - e p 1;  e p 3; - e p 2; e p 1; e p 0].
Definition Rmat (p : list R) : list R :=
  [e p 0; - e p 1; - e p 2; - e p 3;  e p 1; e p 0; e p 3; - e p 2;  e p 2; - e p 3; e p 0; e p 1;  e p 3; e p 2; - e p 1; e p 0].
Definition m4v (M v : list R) : list R :=
  [e M 0*e v 0 + e M 1*e v 1 + e M 2*e v 2 + e M 3*e v 3;   e M 4*e v 0 + e M 5*e v 1 + e M 6*e v 2 + e M 7*e v 3;
   e M 8*e v 0 + e M 9*e v 1 + e M 10*e v 2 + e M 11*e v 3; e M 12*e v 0 + e M 13*e v 1 + e M 14*e v 2 + e M 15*e v 3].
Lemma mult_L_spec w x y z : nz4 w x y z -> C09_mult_L_R w x y z = Val (Lmat [w;x;y;z]).
Proof. unfold nz4, C09_mult_L_R. intros; cbv zeta; repeat gate_nz. cbv [Lmat e List.nth]. val_eq; ring. Qed.
Lemma mult_R_spec w x y z : nz4 w x y z -> C09_mult_R_R w x y z = Val (Rmat [w;x;y;z]).
Proof. unfold nz4, C09_mult_R_R. intros; cbv zeta; repeat gate_nz. cbv [Rmat e List.nth]. val_eq; ring. Qed.
Lemma Lmat_is_left_product p q : m4v (Lmat p) q = qmul p q.
Proof. cbv [m4v Lmat qmul e List.nth]. list_eq; ring. Qed.
Lemma Rmat_is_right_product p q : m4v (Rmat q) p = qmul p q.
Proof. cbv [m4v Rmat qmul e List.nth]. list_eq; ring. Qed.
(* the free functions normalise their argument first *)
Lemma q_mult_L_spec w x y z : w*w+x*x+y*y+z*z = 1 -> C09_q_mult_L_R w x y z = Val (Lmat [w;x;y;z]).
Proof. unfold C09_q_mult_L_R. intros; orient_unit; cbv zeta; norm1. cbv [Lmat e List.nth]. val_eq; uring. Qed.
Lemma q_mult_R_spec w x y z : w*w+x*x+y*y+z*z = 1 -> C09_q_mult_R_R w x y z = Val (Rmat [w;x;y;z]).
Proof. unfold C09_q_mult_R_R. intros; orient_unit; cbv zeta; norm1. cbv [Rmat e List.nth]. val_eq; uring. Qed.

(* specification-level laws *)
Lemma qmul_assoc p q r : qmul (qmul p q) r = qmul p (qmul q r).
Proof. unfold_rot. list_eq; ring. Qed.
Lemma qconj_qmul p q : qconj (qmul p q) = qmul (qconj q) (qconj p).
Proof. unfold_rot. list_eq; ring. Qed.
Lemma qmul_conj_r w x y z : qmul [w;x;y;z] (qconj [w;x;y;z]) = [w*w+x*x+y*y+z*z; 0; 0; 0].
Proof. unfold_rot. list_eq; ring. Qed.
Lemma qmul_conj_l w x y z : qmul (qconj [w;x;y;z]) [w;x;y;z] = [w*w+x*x+y*y+z*z; 0; 0; 0].
Proof. unfold_rot. list_eq; ring. Qed.

(* inverse: exact versors (norm exactly 1) *)
Lemma inverse_versor_spec w x y z : w*w+x*x+y*y+z*z = 1 ->
  C09_inverse_R w x y z = Val (qconj [w;x;y;z]) /\ C09_inverse_versor_R w x y z = Val (qconj [w;x;y;z]).
Proof.
  intros H. split.
  - unfold C09_inverse_R. orient_unit. cbv zeta. norm1. repeat gate_01.
    destruct (Rle_dec (Rabs (1 - 1)) (1001 * / 100000000)) as [_|nn].
    + unfold_rot. val_eq; ring.
    + exfalso. apply nn. replace (1 - 1) with 0 by ring. rewrite Rabs_R0. lra.
  - unfold C09_inverse_versor_R. orient_unit. cbv zeta. norm1. repeat gate_01.
    match goal with |- context [Rle_dec (Rabs ?e) ?c] =>
      destruct (Rle_dec (Rabs e) c) as [_|nn]; [| exfalso; apply nn; replace e with 0 by (norm1; uring); rewrite Rabs_R0; lra] end.
    unfold_rot. val_eq; uring.
Qed.

