(* C09_refuted.v — witness, inside the regenerated model, of the known finding "inverse/non-versor".
   Compiled separately: if the defect is repaired this file stops compiling and the check says so. *)
From Coq Require Import Reals List Lra.
From AhrsLib Require Import Base Rot.
From AhrsGen Require Import C09gen_R.
Import ListNotations.
Open Scope R_scope.

(* inverse of a non-versor: the code divides the conjugate by the norm, not by its square.
   Witness q = (2,0,0,0): inverse returns (1,0,0,0), and q * (1,0,0,0) = (2,0,0,0) <> 1. *)
Lemma inverse_at_2 : C09_inverse_R 2 0 0 0 = Val [1; 0; 0; 0].
Proof.
  unfold C09_inverse_R. cbv zeta.
  replace (2 * 2 + 0 * 0 + 0 * 0 + 0 * 0) with (2 * 2) by ring. rewrite sqrt_sq_abs, Rabs_right by lra.
  destruct (Req_EM_T 0 2); [lra|].
  destruct (Rle_dec (Rabs (2 - 1)) (1001 / 100000000)) as [H|_].
  - exfalso. replace (2 - 1) with 1 in H by ring. rewrite Rabs_R1 in H. lra.
  - val_eq; field.
Qed.

(* inverse, full statement REFUTED on the unchanged code: a non-zero quaternion whose "inverse" does not
   multiply with it to the identity (known finding: division by the norm instead of its square) *)
Theorem C09_inverse_nonversor_refuted : exists w x y z inv, 0 < w*w + x*x + y*y + z*z /\
  C09_inverse_R w x y z = Val inv /\ qmul [w;x;y;z] inv <> qone.
Proof.
  exists 2, 0, 0, 0, [1;0;0;0]. split; [lra|]. split; [exact inverse_at_2|].
  unfold_rot. intros E. injection E as E _ _ _. lra.
Qed.
Print Assumptions C09_inverse_nonversor_refuted.

