(* C09.v — property C09: quaternion arithmetic obeys the Hamilton algebra laws. Statements only. *)
From Coq Require Import Reals List Lra.
From AhrsLib Require Import Base Rot.
From AhrsGen Require Import C09gen_R.
From AhrsProps Require Import C09_algebra.
Import ListNotations.
Open Scope R_scope.

(* the operators *, @, the product method, the free function, and a scalar-last stored left operand all compute
   the Hamilton product, for ALL quaternions (no norm hypothesis beyond the constructor's non-zero test) *)
Theorem C09_product_entry_points_agree : forall a b c d w x y z, 0 < a*a + b*b + c*c + d*d ->
  C09_product_R a b c d w x y z = Val (qmul [a;b;c;d] [w;x;y;z]) /\
  C09_mul_R a b c d w x y z = Val (qmul [a;b;c;d] [w;x;y;z]) /\
  C09_matmul_R a b c d w x y z = Val (qmul [a;b;c;d] [w;x;y;z]) /\
  C09_q_prod_R a b c d w x y z = Val (qmul [a;b;c;d] [w;x;y;z]) /\
  C09_S_product_R a b c d w x y z = Val (qmul [a;b;c;d] [w;x;y;z]).
Proof.
  intros a b c d w x y z H.
  split; [exact (product_spec a b c d w x y z H)|]. split; [exact (mul_spec a b c d w x y z H)|].
  split; [exact (matmul_spec a b c d w x y z H)|]. split; [exact (q_prod_spec a b c d w x y z)|exact (S_product_spec a b c d w x y z H)].
Qed.
Print Assumptions C09_product_entry_points_agree.

(* the right operand may be a Quaternion object of either storage order *)
Theorem C09_product_operand_storage_order : forall a b c d w x y z, 0 < a*a + b*b + c*c + d*d -> 0 < w*w + x*x + y*y + z*z ->
  C09_product_QS_R a b c d w x y z = Val (qmul [a;b;c;d] [w;x;y;z]) /\
  C09_mul_QS_R a b c d w x y z = Val (qmul [a;b;c;d] [w;x;y;z]) /\
  C09_matmul_QH_R a b c d w x y z = Val (qmul [a;b;c;d] [w;x;y;z]) /\
  C09_matmul_QS_R a b c d w x y z = Val (qmul [a;b;c;d] [w;x;y;z]) /\
  C09_product_SS_R a b c d w x y z = Val (qmul [a;b;c;d] [w;x;y;z]) /\
  C09_mul_SS_R a b c d w x y z = Val (qmul [a;b;c;d] [w;x;y;z]) /\
  C09_matmul_SS_R a b c d w x y z = Val (qmul [a;b;c;d] [w;x;y;z]).
Proof.
  intros a b c d w x y z Hp Hq. split; [exact (product_QS_spec a b c d w x y z Hp Hq)|].
  split; [exact (mul_QS_spec a b c d w x y z Hp Hq)|]. split; [exact (matmul_QH_spec a b c d w x y z Hp Hq)|].
  split; [exact (matmul_QS_spec a b c d w x y z Hp Hq)|]. split; [exact (product_SS_spec a b c d w x y z Hp Hq)|].
  split; [exact (mul_SS_spec a b c d w x y z Hp Hq)|exact (matmul_SS_spec a b c d w x y z Hp Hq)].
Qed.
Print Assumptions C09_product_operand_storage_order.

(* after normalize() on a non-normalised quaternion every view of the object (ndarray buffer, .A, w/x/y/z,
   to_array) is the same versor: the object has ONE state *)
Theorem C09_normalize_one_state : forall w x y z, 0 < w*w + x*x + y*y + z*z ->
  let n := sqrt (w*w + x*x + y*y + z*z) in
  C09_normalize_views_R w x y z = Val [w/n; x/n; y/n; z/n;  w/n; x/n; y/n; z/n;  w/n; x/n; y/n; z/n;  w/n; x/n; y/n; z/n].
Proof. exact normalize_views_spec. Qed.
Print Assumptions C09_normalize_one_state.

(* hence associativity, norm multiplicativity and (pq)* = q* p* of the implemented product *)
Theorem C09_algebra_laws : forall p q r : list R,
  qmul (qmul p q) r = qmul p (qmul q r) /\ qnorm2 (qmul p q) = qnorm2 p * qnorm2 q /\ qconj (qmul p q) = qmul (qconj q) (qconj p).
Proof. intros p q r. split; [exact (qmul_assoc p q r)|]. split; [exact (qnorm2_mul p q)|exact (qconj_qmul p q)]. Qed.
Print Assumptions C09_algebra_laws.

Theorem C09_conjugate : forall w x y z, 0 < w*w + x*x + y*y + z*z ->
  C09_conj_R w x y z = Val (qconj [w;x;y;z]) /\ C09_q_conj_R w x y z = Val (qconj [w;x;y;z]) /\
  C09_conj_S_R w x y z = Val [-x; -y; -z; w] /\
  (forall a b c d, C09_q_conj_rows_R a b c d w x y z = Val (qconj [a;b;c;d] ++ qconj [w;x;y;z])).
Proof.
  intros w x y z H. split; [exact (conj_spec w x y z H)|]. split; [exact (q_conj_spec w x y z)|].
  split; [exact (conj_S_spec w x y z H)|]. intros a b c d. exact (q_conj_rows_spec a b c d w x y z).
Qed.
Print Assumptions C09_conjugate.

(* left and right product matrices reproduce the product *)
Theorem C09_product_matrices : forall a b c d w x y z, 0 < a*a + b*b + c*c + d*d -> 0 < w*w + x*x + y*y + z*z ->
  C09_mult_L_R a b c d = Val (Lmat [a;b;c;d]) /\ C09_mult_R_R w x y z = Val (Rmat [w;x;y;z]) /\
  m4v (Lmat [a;b;c;d]) [w;x;y;z] = qmul [a;b;c;d] [w;x;y;z] /\ m4v (Rmat [w;x;y;z]) [a;b;c;d] = qmul [a;b;c;d] [w;x;y;z].
Proof.
  intros a b c d w x y z Hp Hq. split; [exact (mult_L_spec a b c d Hp)|]. split; [exact (mult_R_spec w x y z Hq)|].
  split; [exact (Lmat_is_left_product _ _)|exact (Rmat_is_right_product _ _)].
Qed.
Print Assumptions C09_product_matrices.

Theorem C09_free_product_matrices_on_versors : forall w x y z, w*w + x*x + y*y + z*z = 1 ->
  C09_q_mult_L_R w x y z = Val (Lmat [w;x;y;z]) /\ C09_q_mult_R_R w x y z = Val (Rmat [w;x;y;z]).
Proof. intros w x y z H. split; [exact (q_mult_L_spec w x y z H)|exact (q_mult_R_spec w x y z H)]. Qed.
Print Assumptions C09_free_product_matrices_on_versors.

(* a quaternion stored scalar-last exposes the same w, x, y, z and vector part *)
Theorem C09_scalar_last_accessors : forall w x y z, 0 < w*w + x*x + y*y + z*z ->
  C09_S_wxyz_R w x y z = C09_H_wxyz_R w x y z /\ C09_H_wxyz_R w x y z = Val [w;x;y;z; x;y;z].
Proof. intros w x y z H. rewrite (accessors_S w x y z H), (accessors_H w x y z H). split; reflexivity. Qed.
Print Assumptions C09_scalar_last_accessors.

(* inverse, PARTIAL: two-sided inverse for versors (both the raw and the normalising constructor) *)
Theorem C09_inverse_versor_partial : forall w x y z, w*w + x*x + y*y + z*z = 1 ->
  C09_inverse_R w x y z = Val (qconj [w;x;y;z]) /\ C09_inverse_versor_R w x y z = Val (qconj [w;x;y;z]) /\
  qmul [w;x;y;z] (qconj [w;x;y;z]) = qone /\ qmul (qconj [w;x;y;z]) [w;x;y;z] = qone.
Proof.
  intros w x y z H. destruct (inverse_versor_spec w x y z H) as [A B].
  split; [exact A|]. split; [exact B|]. rewrite qmul_conj_r, qmul_conj_l, H. split; reflexivity.
Qed.
Print Assumptions C09_inverse_versor_partial.

Example C09_nonvacuous : 0 < 1*1 + 2*2 + 3*3 + 4*4 /\ qmul [1;2;3;4] [5;6;7;8] = [-60; 12; 30; 24].
Proof. split; [lra|]. unfold_rot. list_eq; ring. Qed.
