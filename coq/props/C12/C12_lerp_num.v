(* C12_lerp_num.v — numeric corollary of the LERP-branch bound for the shipped threshold 0.9995 (the only file of C12 that uses
   `interval`; kept out of the cone of C12.v so that the independent checker stays fast). *)
From Coq Require Import Reals List Lra Psatz.
From Interval Require Import Tactic.
From AhrsLib Require Import Base Rot.
From AhrsGen Require Import C12gen_R.
From AhrsProps Require Import C12_math C12_gen C12_lerp C12_lerp_gen.
Import ListNotations.
Open Scope R_scope.

(* with the default threshold the subtended angle is below 0.0317 rad, so the bound is below 4e-12 *)
Lemma small_angle D : 1999 / 2000 < D < 1 -> 0 < acos D < 317 / 10000.
Proof.
  intros H. destruct (acos_bound_lt D ltac:(lra)) as [A B]. split; [exact A|].
  destruct (Rlt_dec (acos D) (317 / 10000)) as [L|L]; [exact L|]. exfalso.
  assert (cos (acos D) <= cos (317 / 10000)) by (apply cos_decr_1; try lra; pose proof PI2_3_2; lra).
  rewrite cos_acos in H0 by lra. assert (cos (317 / 10000) < 1999 / 2000) by interval. lra.
Qed.
Lemma gen_lerp_default a b c d w x y z t : unit4 a b c d -> unit4 w x y z ->
  1999 / 2000 < Rabs (qdot [a;b;c;d] [w;x;y;z]) < 1 -> 0 <= t <= 1 ->
  exists r, C12_slerp_R a b c d w x y z t = Val r /\
            1 - 4 / 1000000000000 <= qdot r (arc [a;b;c;d] (nearer [a;b;c;d] [w;x;y;z]) (Rabs (qdot [a;b;c;d] [w;x;y;z])) t) <= 1.
Proof.
  intros Hp Hq HD Ht. destruct (gen_default_threshold a b c d w x y z t) as [-> _].
  destruct (gen_lerp_near_geodesic a b c d w x y z thr0 Hp Hq ltac:(unfold thr0; lra) ltac:(unfold thr0; lra) t Ht) as (r & E & L & U).
  exists r. split; [exact E|]. split; [|exact U]. eapply Rle_trans; [|exact L].
  pose proof (small_angle _ HD) as [T0 T1]. set (th := acos _) in *.
  assert (th ^ 6 <= (317 / 10000) ^ 6) by (apply pow_incr; lra).
  assert ((317 / 10000) ^ 6 / 288 <= 4 / 1000000000000) by interval. lra.
Qed.
