(* C12_inst_a.v — small fixed-N instances of the in-place list code, REGENERATED from /repo (symbolic valid rows, a concrete
   NaN mask written as real NaN floats into the traced QuaternionArray(rows, versors=False)), proved equal to the same instance
   of the hand model coq/model/C12_lists.v instantiated with real quaternions and the regenerated slerp. *)
From Coq Require Import Reals List Lra Psatz Arith Lia.
From AhrsLib Require Import Base Rot.
From AhrsModel Require Import C12_lists.
From AhrsGen Require Import C12gen_R.
From AhrsProps Require Import C12_math C12_gen C12_lists_thm C12_lists_R.
Import ListNotations.
Open Scope R_scope.

Theorem inst_sn_010 r0w r0x r0y r0z r2w r2x r2y r2z : nz4 r0w r0x r0y r0z -> nz4 r2w r2x r2y r2z ->
  C12_sn_010_R r0w r0x r0y r0z r2w r2x r2y r2z =
  Val (flat (slerp_nanR [Some (r0w, r0x, r0y, r0z); None; Some (r2w, r2x, r2y, r2z)])).
Proof. unfold C12_sn_010_R, slerp_nanR. rewrite eval_sn_010. inst_eq. Qed.

Theorem inst_sn_0010 r0w r0x r0y r0z r1w r1x r1y r1z r3w r3x r3y r3z :
  nz4 r0w r0x r0y r0z -> nz4 r1w r1x r1y r1z -> nz4 r3w r3x r3y r3z ->
  C12_sn_0010_R r0w r0x r0y r0z r1w r1x r1y r1z r3w r3x r3y r3z =
  Val (flat (slerp_nanR [Some (r0w, r0x, r0y, r0z); Some (r1w, r1x, r1y, r1z); None; Some (r3w, r3x, r3y, r3z)])).
Proof. unfold C12_sn_0010_R, slerp_nanR. rewrite eval_sn_0010. inst_eq. Qed.
