(* C12_lerp.v — the LERP branch (p.q > threshold): how far the normalised chord point is from the constant-speed
   geodesic point, and monotonic advance.  Pure mathematics about the specification terms of C12_math.v. *)
From Coq Require Import Reals List Lra Psatz.
From AhrsLib Require Import Base Rot.
From AhrsProps Require Import C12_math.
Import ListNotations.
Open Scope R_scope.

Lemma qdot_comm p q : qdot p q = qdot q p.
Proof. unfold_q. ring. Qed.
Lemma qdot_scale_l k v w : qdot (qscale k v) w = k * qdot v w.
Proof. unfold_q. ring. Qed.
Lemma qdot_qlin_any a b p q w : qdot (qlin a b p q) w = a * qdot p w + b * qdot q w.
Proof. unfold_q. ring. Qed.

(* x - x^3/6 <= sin x <= x on [0, 1] *)
Lemma INR_fact7 : INR (fact 7) = 5040. Proof. rewrite INR_IZR_INZ. apply f_equal. vm_compute. reflexivity. Qed.
Lemma INR_fact5 : INR (fact 5) = 120. Proof. rewrite INR_IZR_INZ. apply f_equal. vm_compute. reflexivity. Qed.
Lemma INR_fact3 : INR (fact 3) = 6. Proof. rewrite INR_IZR_INZ. apply f_equal. vm_compute. reflexivity. Qed.
Lemma INR_fact1 : INR (fact 1) = 1. Proof. rewrite INR_IZR_INZ. apply f_equal. vm_compute. reflexivity. Qed.
Lemma sin_lb_poly x : sin_lb x = x - x * x * x / 6 + x * x * x * x * x * (1 / 120 - x * x / 5040).
Proof.
  unfold sin_lb, sin_approx. cbv [sum_f_R0 sin_term].
  change (2 * 0 + 1)%nat with 1%nat. change (2 * 1 + 1)%nat with 3%nat. change (2 * 2 + 1)%nat with 5%nat.
  change (2 * 3 + 1)%nat with 7%nat. rewrite INR_fact1, INR_fact3, INR_fact5, INR_fact7. simpl pow. field.
Qed.
Lemma sin_lower x : 0 <= x <= 2 -> x - x * x * x / 6 <= sin x.
Proof.
  intros H. assert (HPI : x <= PI) by (pose proof PI2_3_2; pose proof PI2_1; lra).
  destruct (SIN x (proj1 H) HPI) as [L _]. eapply Rle_trans; [|exact L]. rewrite sin_lb_poly.
  assert (0 <= x * x * x * x * x * (1 / 120 - x * x / 5040)); [|lra].
  apply Rmult_le_pos; [|nra]. repeat apply Rmult_le_pos; lra.
Qed.
Lemma sin_upper x : 0 <= x -> sin x <= x.
Proof. intros [H|<-]; [left; apply sin_lt_x; exact H|rewrite sin_0; lra]. Qed.

Section Lerp.
  Variables p q : list R.
  Hypothesis Hp : qnorm2 p = 1.
  Hypothesis Hq : qnorm2 q = 1.
  Let D := qdot p q.
  Hypothesis HD : 0 < D < 1.
  Let th := acos D.

  Lemma th_range : 0 < th < PI / 2.
  Proof.
    unfold th. destruct (acos_bound_lt D ltac:(lra)) as [A B]. split; [exact A|].
    destruct (Rlt_dec (acos D) (PI / 2)) as [L|L]; [exact L|]. exfalso.
    assert (cos (acos D) <= 0) by (apply cos_le_0; lra). rewrite cos_acos in H by lra. lra.
  Qed.

  (* the cosine of the angle between the LERP point and the true geodesic point *)
  Lemma lerp_dot_arc t : qdot (lerpn p q t) (arc p q D t) =
    ((1 - t) * cos (th * t) + t * cos (th * (1 - t))) / sqrt (qnorm2 (qlin (1 - t) t p q)).
  Proof.
    unfold lerpn, th, D. cbv zeta. rewrite qdot_scale_l, qdot_qlin_any.
    rewrite (arc_dot_p p q Hp t). rewrite (qdot_comm q), (arc_dot_q p q Hq t) by (fold D; lra).
    unfold Rdiv. ring.
  Qed.

  Theorem lerp_near_geodesic t : 0 <= t <= 1 ->
    1 - th ^ 6 / 288 <= qdot (lerpn p q t) (arc p q D t) <= 1.
  Proof.
    intros Ht. rewrite lerp_dot_arc. pose proof th_range as [T0 T1].
    assert (P4 : PI / 2 <= 2) by (pose proof PI_4; lra).
    set (A := th * (1 - t)). set (B := th * t).
    assert (HA : 0 <= A <= th) by (unfold A; nra). assert (HB : 0 <= B <= th) by (unfold B; nra).
    assert (HAB : D = cos A * cos B - sin A * sin B).
    { rewrite <- cos_plus. unfold A, B. replace (th * (1 - t) + th * t) with th by ring. unfold th. rewrite cos_acos; lra. }
    pose proof (sin2_cos2 A) as SA. pose proof (sin2_cos2 B) as SB. unfold Rsqr in SA, SB.
    assert (CA : 0 <= cos A) by (apply cos_ge_0; lra). assert (CB : 0 <= cos B) by (apply cos_ge_0; lra).
    set (C := (1 - t) * cos B + t * cos A).
    set (n := t * sin A - (1 - t) * sin B).
    set (N2 := qnorm2 (qlin (1 - t) t p q)).
    assert (EN : N2 = C * C + n * n).
    { unfold N2. rewrite (chord_norm2 p q Hp Hq). fold D. rewrite HAB. unfold C, n.
      assert (sin A * sin A = 1 - cos A * cos A) as EA by lra. assert (sin B * sin B = 1 - cos B * cos B) as EB by lra.
      ring [EA EB]. }
    assert (N2lo : 1 / 2 <= N2).
    { unfold N2. rewrite (chord_norm2 p q Hp Hq). fold D.
      assert (K : 4 * t * (1 - t) <= 1) by (pose proof (Rle_0_sqr (2 * t - 1)) as K; unfold Rsqr in K; lra).
      replace ((1 - t) * (1 - t) + 2 * (1 - t) * t * D + t * t) with (1 - (4 * t * (1 - t)) * ((1 - D) / 2)) by field.
      assert (0 <= 4 * t * (1 - t)) by nra. nra. }
    (* |n| <= th^3/24, from x - x^3/6 <= sin x <= x *)
    assert (LA : A - A * A * A / 6 <= sin A) by (apply sin_lower; lra).
    assert (LB : B - B * B * B / 6 <= sin B) by (apply sin_lower; lra).
    assert (UA : sin A <= A) by (apply sin_upper; lra). assert (UB : sin B <= B) by (apply sin_upper; lra).
    set (h3 := th * th * th).
    assert (Hh3 : 0 < h3) by (unfold h3; apply Rmult_lt_0_compat; [apply Rmult_lt_0_compat|]; lra).
    assert (K4 : t * (1 - t) <= 1 / 4) by (pose proof (Rle_0_sqr (2 * t - 1)) as K; unfold Rsqr in K; lra).
    assert (K0 : 0 <= t * (1 - t)) by nra.
    assert (Nup : n <= h3 / 24).
    { apply Rle_trans with (t * A - (1 - t) * (B - B * B * B / 6)); [unfold n; nra|].
      replace (t * A - (1 - t) * (B - B * B * B / 6)) with ((t * (1 - t)) * (t * t) * h3 / 6) by (unfold A, B, h3; field).
      assert (0 <= t * t <= 1) by nra. assert ((t * (1 - t)) * (t * t) <= 1 / 4) by nra. nra. }
    assert (Nlo : - (h3 / 24) <= n).
    { apply Rle_trans with (t * (A - A * A * A / 6) - (1 - t) * B); [|unfold n; nra].
      replace (t * (A - A * A * A / 6) - (1 - t) * B) with (- ((t * (1 - t)) * ((1 - t) * (1 - t)) * h3 / 6)) by (unfold A, B, h3; field).
      assert (0 <= (1 - t) * (1 - t) <= 1) by nra. assert ((t * (1 - t)) * ((1 - t) * (1 - t)) <= 1 / 4) by nra. nra. }
    assert (Nsq : n * n <= h3 * h3 / 576) by nra.
    replace (th ^ 6) with (h3 * h3) by (unfold h3; simpl; ring).
    fold C. assert (C0 : 0 <= C) by (unfold C; apply Rplus_le_le_0_compat; apply Rmult_le_pos; lra).
    assert (S0 : 0 < sqrt N2) by (apply sqrt_lt_R0; lra).
    assert (SS : sqrt N2 * sqrt N2 = N2) by (apply sqrt_sqrt; lra).
    set (s := sqrt N2) in *.
    assert (Cs : C <= s) by nra.
    split.
    - apply Rmult_le_reg_r with s; [exact S0|]. replace (C / s * s) with C by (field; lra).
      (* C*s >= C*C = s*s - n*n  and  n*n <= (h3*h3/288) * s*s *)
      assert (E1 : s * s - n * n <= C * s) by nra.
      assert (E2 : n * n <= h3 * h3 / 288 * (s * s)) by nra.
      apply Rmult_le_reg_r with s; [exact S0|]. nra.
    - apply Rmult_le_reg_r with s; [exact S0|]. replace (C / s * s) with C by (field; lra). lra.
  Qed.

  (* monotone advance: the angle from p grows strictly with the weight (its cosine p.r(t) strictly decreases) *)
  Lemma lerp_dot_p t : qdot p (lerpn p q t) = ((1 - t) + t * D) / sqrt (qnorm2 (qlin (1 - t) t p q)).
  Proof. unfold lerpn. cbv zeta. rewrite qdot_comm, qdot_scale_l, qdot_comm, qdot_qlin_l, Hp. fold D. unfold Rdiv. ring. Qed.
  Theorem lerp_monotone t1 t2 : 0 <= t1 -> t1 < t2 -> t2 <= 1 -> qdot p (lerpn p q t2) < qdot p (lerpn p q t1).
  Proof.
    intros H0 H12 H1. rewrite !lerp_dot_p, !(chord_norm2 p q Hp Hq). fold D.
    set (N1 := (1 - t1) * (1 - t1) + 2 * (1 - t1) * t1 * D + t1 * t1).
    set (N2 := (1 - t2) * (1 - t2) + 2 * (1 - t2) * t2 * D + t2 * t2).
    set (A1 := 1 - t1 + t1 * D). set (A2 := 1 - t2 + t2 * D).
    assert (E1 : N1 = A1 * A1 + t1 * t1 * (1 - D * D)) by (unfold N1, A1; ring).
    assert (E2 : N2 = A2 * A2 + t2 * t2 * (1 - D * D)) by (unfold N2, A2; ring).
    assert (PA1 : 0 < A1) by (unfold A1; nra). assert (PA2 : 0 < A2) by (unfold A2; nra).
    assert (PD : 0 < 1 - D * D) by nra.
    assert (PN1 : 0 < N1) by nra. assert (PN2 : 0 < N2) by nra.
    pose proof (sqrt_lt_R0 N1 PN1) as S1. pose proof (sqrt_lt_R0 N2 PN2) as S2.
    pose proof (sqrt_sqrt N1 (Rlt_le _ _ PN1)) as Q1. pose proof (sqrt_sqrt N2 (Rlt_le _ _ PN2)) as Q2.
    set (s1 := sqrt N1) in *. set (s2 := sqrt N2) in *.
    (* A2/s2 < A1/s1  <=  A2*s1 < A1*s2  <=  A2^2 N1 < A1^2 N2  <=  A2 t1 < A1 t2 *)
    assert (X : A2 * t1 < A1 * t2) by (unfold A1, A2; nra).
    assert (Y : (A2 * s1) * (A2 * s1) < (A1 * s2) * (A1 * s2)).
    { replace ((A2 * s1) * (A2 * s1)) with (A2 * A2 * N1) by (rewrite <- Q1; ring).
      replace ((A1 * s2) * (A1 * s2)) with (A1 * A1 * N2) by (rewrite <- Q2; ring).
      rewrite E1, E2.
      assert ((A2 * t1) * (A2 * t1) < (A1 * t2) * (A1 * t2)) by (apply Rmult_le_0_lt_compat; nra). nra. }
    assert (Z : A2 * s1 < A1 * s2).
    { destruct (Rlt_dec (A2 * s1) (A1 * s2)) as [L|L]; [exact L|]. exfalso.
      assert (0 <= A1 * s2) by (apply Rmult_le_pos; lra). assert (A1 * s2 <= A2 * s1) by lra. nra. }
    unfold Rdiv. apply Rmult_lt_reg_r with (s1 * s2); [apply Rmult_lt_0_compat; lra|].
    replace (A2 * / s2 * (s1 * s2)) with (A2 * s1) by (field; lra).
    replace (A1 * / s1 * (s1 * s2)) with (A1 * s2) by (field; lra). exact Z.
  Qed.
End Lerp.
