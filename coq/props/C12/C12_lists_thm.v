(* C12_lists_thm.v — theorems, by induction, about the hand models of coq/model/C12_lists.v:
   get_nan_intervals = the maximal runs; remove_jumps = parity of the jumps so far; slerp_nan = interpolants
   at k/(L+1) inside every interior run, for every length of the array and every position/length of the runs.
   No real numbers here: the row type, its negation, the jump test and the interpolation are parameters. *)
From Coq Require Import List Arith Bool Lia.
From AhrsModel Require Import C12_lists.
Import ListNotations.

(* ======================================================================================
   A. index lists
   ====================================================================================== *)
Lemma in_positions m i : In i (positions m) <-> nth i m false = true.
Proof.
  unfold positions. rewrite filter_In, in_seq. split; [tauto|]. intros H. split; [|exact H].
  destruct (Nat.lt_ge_cases i (length m)); [lia|]. rewrite nth_overflow in H by lia. discriminate.
Qed.

(* strictly increasing, bounded below by lo *)
Fixpoint inc_from (lo : nat) (l : list nat) : Prop :=
  match l with [] => True | a :: r => lo <= a /\ inc_from (S a) r end.
Lemma inc_from_weaken lo lo' l : lo <= lo' -> inc_from lo' l -> inc_from lo l.
Proof. destruct l; simpl; [tauto|]. intros; split; [lia|tauto]. Qed.
Lemma inc_from_ge lo l : inc_from lo l -> forall x, In x l -> lo <= x.
Proof.
  revert lo. induction l as [|a r IH]; simpl; [tauto|]. intros lo [H1 H2] x [<-|Hx]; [lia|].
  specialize (IH _ H2 x Hx). lia.
Qed.
Lemma filter_seq_inc f n lo : inc_from lo (filter f (seq lo n)).
Proof.
  revert lo. induction n as [|n IH]; intros lo; simpl; [exact I|].
  destruct (f lo); simpl.
  - split; [lia|apply IH].
  - apply inc_from_weaken with (S lo); [lia|apply IH].
Qed.
Lemma positions_inc m : inc_from 0 (positions m).
Proof. apply filter_seq_inc. Qed.
Lemma inc_from_map_S lo l : inc_from lo l -> inc_from (S lo) (map S l).
Proof. revert lo. induction l as [|a r IH]; simpl; [tauto|]. intros lo [H1 H2]. split; [lia|apply IH; exact H2]. Qed.

(* ======================================================================================
   B. chunks of an increasing index list are exactly its maximal runs of consecutive indices
   ====================================================================================== *)
Definition run (l : list nat) (s e : nat) : Prop :=
  s <= e /\ (forall i, s <= i <= e -> In i l) /\ (forall j, S j = s -> ~ In j l) /\ ~ In (S e) l.

Lemma chunks_nil l : chunks l = [] -> l = [].
Proof.
  destruct l as [|a r]; [reflexivity|]. simpl. destruct (chunks r) as [|[s e] tl]; [discriminate|].
  destruct (s =? S a); discriminate.
Qed.
Lemma chunks_hd a r : exists e tl, chunks (a :: r) = (a, e) :: tl.
Proof.
  simpl. destruct (chunks r) as [|[s e] tl]; [repeat eexists|]. destruct (s =? S a); repeat eexists.
Qed.

Lemma chunks_spec l : forall lo, inc_from lo l ->
  inc_from lo (map fst (chunks l)) /\ forall s e, In (s, e) (chunks l) <-> run l s e.
Proof.
  induction l as [|a r IH]; intros lo Hinc.
  - simpl. split; [exact I|]. intros s e. split; [tauto|]. intros (H1 & H2 & _). apply (H2 s). lia.
  - destruct Hinc as [Hlo Hr]. destruct (IH _ Hr) as [IHinc IHspec]. clear IH.
    pose proof (inc_from_ge _ _ Hr) as Hge.
    simpl. destruct (chunks r) as [|[b e0] tl] eqn:E.
    + apply chunks_nil in E. subst r. simpl. split; [split; [lia|exact I]|].
      intros s e. unfold run. simpl. split.
      * intros [H|[]]. injection H as <- <-. repeat split; try lia.
      * intros (H1 & H2 & H3 & H4). left.
        assert (s = a) by (destruct (H2 s ltac:(lia)) as [Hx|[]]; lia).
        assert (e = a) by (destruct (H2 e ltac:(lia)) as [Hx|[]]; lia). subst. reflexivity.
    + (* r is non-empty and its first chunk starts at its head b *)
      destruct r as [|b' r']; [discriminate E|].
      destruct (chunks_hd b' r') as (e1 & tl1 & E1). rewrite E1 in E. injection E as -> -> ->.
      simpl in IHinc. destruct IHinc as [Hab Htl].
      assert (Hb : S a <= b) by lia.
      assert (Hr' : forall x, In x r' -> S b <= x) by (destruct Hr as [_ Hr]; apply (inc_from_ge _ _ Hr)).
      assert (Hstart : forall s e, In (s, e) tl -> S b <= s).
      { intros s e H. apply (inc_from_ge _ _ Htl). change s with (fst (s, e)). apply in_map. exact H. }
      assert (Hhead : run (b :: r') b e0) by (apply IHspec; left; reflexivity).
      destruct (b =? S a) eqn:Eb.
      * apply Nat.eqb_eq in Eb. subst b. simpl. split; [split; [lia|apply inc_from_weaken with (S (S a)); [lia|exact Htl]]|].
        intros s e. split.
        -- intros [H|H].
           ++ injection H as <- <-. destruct Hhead as (G1 & G2 & G3 & G4). unfold run. repeat split.
              ** lia.
              ** intros i Hi. destruct (Nat.eq_dec i a) as [->|]; [left; reflexivity|]. right. apply G2. lia.
              ** intros j Hj [H|H]; [lia|]. specialize (Hge _ H). lia.
              ** intros [H|H]; [lia|]. apply G4. exact H.
           ++ pose proof (Hstart _ _ H). assert (R0 : run (S a :: r') s e) by (apply IHspec; right; exact H).
              destruct R0 as (G1 & G2 & G3 & G4). unfold run. repeat split.
              ** lia.
              ** intros i Hi. right. apply G2. exact Hi.
              ** intros j Hj [Hx|Hx]; [lia|]. apply (G3 j Hj). exact Hx.
              ** intros [Hx|Hx]; [lia|]. apply G4. exact Hx.
        -- intros (G1 & G2 & G3 & G4).
           assert (Hs : In s (a :: S a :: r')) by (apply G2; lia). destruct Hs as [<-|Hs].
           ++ (* s = a: the run continues through S a, so it is the extended head chunk *)
              assert (S a <= e).
              { destruct (Nat.eq_dec e a) as [->|]; [|lia]. exfalso. apply G4. right. left. reflexivity. }
              assert (R0 : run (S a :: r') (S a) e).
              { unfold run. repeat split.
                - lia.
                - intros i Hi. destruct (G2 i ltac:(lia)) as [Hx|Hx]; [lia|exact Hx].
                - intros j Hj Hx. specialize (Hge _ Hx). lia.
                - intros Hx. apply G4. right. exact Hx. }
              apply IHspec in R0. destruct R0 as [R0|R0]; [injection R0 as <-; left; reflexivity|].
              specialize (Hstart _ _ R0). lia.
           ++ specialize (Hge _ Hs).
              assert (R0 : run (S a :: r') s e).
              { unfold run. repeat split.
                - lia.
                - intros i Hi. destruct (G2 i Hi) as [Hx|Hx]; [lia|exact Hx].
                - intros j Hj Hx. apply (G3 j Hj). right. exact Hx.
                - intros Hx. apply G4. right. exact Hx. }
              apply IHspec in R0. destruct R0 as [R0|R0]; [|right; exact R0].
              injection R0 as <- <-. exfalso. apply (G3 a eq_refl). left. reflexivity.
      * apply Nat.eqb_neq in Eb. assert (Hna : ~ In (S a) (b :: r')).
        { intros [Hx|Hx]; [lia|]. specialize (Hr' _ Hx). lia. }
        simpl. split; [split; [lia|split; [lia|exact Htl]]|].
        intros s e. split.
        -- intros [H|H].
           ++ injection H as <- <-. unfold run. repeat split.
              ** lia.
              ** intros i Hi. left. lia.
              ** intros j Hj [Hx|Hx]; [lia|]. specialize (Hge _ Hx). lia.
              ** intros [Hx|Hx]; [lia|]. apply Hna. exact Hx.
           ++ assert (R0 : run (b :: r') s e) by (apply IHspec; exact H).
              destruct R0 as (G1 & G2 & G3 & G4). unfold run. repeat split.
              ** lia.
              ** intros i Hi. right. apply G2. exact Hi.
              ** intros j Hj [Hx|Hx]; [|apply (G3 j Hj); exact Hx]. subst j. apply Hna. rewrite Hj. apply G2. lia.
              ** intros [Hx|Hx]; [|apply G4; exact Hx].
                 assert (In s (b :: r')) by (apply G2; lia). specialize (Hge _ H0). lia.
        -- intros (G1 & G2 & G3 & G4).
           assert (Hs : In s (a :: b :: r')) by (apply G2; lia). destruct Hs as [<-|Hs].
           ++ left. destruct (Nat.eq_dec e a) as [->|]; [reflexivity|]. exfalso.
              destruct (G2 (S a) ltac:(lia)) as [Hx|Hx]; [lia|]. apply Hna. exact Hx.
           ++ right. specialize (Hge _ Hs). apply IHspec. unfold run. repeat split.
              ** lia.
              ** intros i Hi. destruct (G2 i Hi) as [Hx|Hx]; [lia|exact Hx].
              ** intros j Hj Hx. apply (G3 j Hj). right. exact Hx.
              ** intros Hx. apply G4. right. exact Hx.
Qed.

(* ======================================================================================
   C. get_nan_intervals on a NaN mask
   ====================================================================================== *)
Definition maxrun (m : list bool) (s e : nat) : Prop :=
  s <= e /\ (forall i, s <= i <= e -> nth i m false = true) /\ (forall j, S j = s -> nth j m false = false)
  /\ nth (S e) m false = false.

Lemma not_true_false b : b <> true <-> b = false.
Proof. destruct b; split; intros; try discriminate; try reflexivity. exfalso. apply H. reflexivity. Qed.

Theorem nan_intervals_are_maximal_runs m s e : In (s, e) (get_nan_intervals m) <-> maxrun m s e.
Proof.
  unfold get_nan_intervals. destruct (chunks_spec (positions m) 0 (positions_inc m)) as [_ H]. rewrite H.
  unfold run, maxrun. split; intros (H1 & H2 & H3 & H4); repeat split; try assumption.
  - intros i Hi. apply in_positions. apply H2. exact Hi.
  - intros j Hj. apply not_true_false. intros Hx. apply (H3 j Hj). apply in_positions. exact Hx.
  - apply not_true_false. intros Hx. apply H4. apply in_positions. exact Hx.
  - intros i Hi. apply in_positions. apply H2. exact Hi.
  - intros j Hj Hx. apply in_positions in Hx. rewrite (H3 j Hj) in Hx. discriminate.
  - intros Hx. apply in_positions in Hx. rewrite H4 in Hx. discriminate.
Qed.

Theorem nan_intervals_increasing m : inc_from 0 (map fst (get_nan_intervals m)).
Proof. unfold get_nan_intervals. apply (chunks_spec (positions m) 0 (positions_inc m)). Qed.

(* the zero-run case: no NaN row, no interval *)
Theorem nan_intervals_no_nan m : (forall i, nth i m false = false) -> get_nan_intervals m = [].
Proof.
  intros H. destruct (get_nan_intervals m) as [|[s e] tl] eqn:E; [reflexivity|]. exfalso.
  assert (R0 : maxrun m s e) by (apply nan_intervals_are_maximal_runs; rewrite E; left; reflexivity).
  destruct R0 as (H1 & H2 & _). specialize (H2 s ltac:(lia)). rewrite H in H2. discriminate.
Qed.

(* two maximal runs that share an index coincide; every NaN index lies in one *)
Lemma maxrun_unique m s e s' e' i : maxrun m s e -> maxrun m s' e' -> s <= i <= e -> s' <= i <= e' -> s = s' /\ e = e'.
Proof.
  intros (A1 & A2 & A3 & A4) (B1 & B2 & B3 & B4) Hi Hi'. split.
  - destruct (Nat.lt_trichotomy s s') as [H|[H|H]]; [|exact H|].
    + destruct s' as [|j]; [lia|]. specialize (B3 j eq_refl). rewrite (A2 j) in B3 by lia. discriminate.
    + destruct s as [|j]; [lia|]. specialize (A3 j eq_refl). rewrite (B2 j) in A3 by lia. discriminate.
  - destruct (Nat.lt_trichotomy e e') as [H|[H|H]]; [|exact H|].
    + rewrite (B2 (S e)) in A4 by lia. discriminate.
    + rewrite (A2 (S e')) in B4 by lia. discriminate.
Qed.

(* ======================================================================================
   D. remove_jumps / q_correct
   ====================================================================================== *)
Section Rows.
  Variable A : Type.
  Variable negx : A -> A.
  Variable jump : A -> A -> bool.
  Variable interp : A -> A -> nat -> nat -> A.
  Hypothesis negx_invol : forall a, negx (negx a) = a.

  Notation row := (option A).
  Ltac llia := lia.
  Notation neg_row := (neg_row negx).
  Definition sgn (s : bool) (r : row) : row := if s then neg_row r else r.

  Lemma neg_row_invol r : neg_row (neg_row r) = r.
  Proof. destruct r; simpl; [rewrite negx_invol|]; reflexivity. Qed.
  Lemma sgn_sgn s1 s2 r : sgn s1 (sgn s2 r) = sgn (xorb s1 s2) r.
  Proof. destruct s1, s2; simpl; try reflexivity. apply neg_row_invol. Qed.

  Lemma nth_neg_slice arr : forall pos a b i,
    nth i (neg_slice negx pos arr a b) None = sgn ((a <=? pos + i) && (pos + i <? b)) (nth i arr None).
  Proof.
    induction arr as [|x r IH]; intros pos a b i; simpl.
    - destruct i; destruct (_ && _); reflexivity.
    - destruct i; simpl.
      + rewrite Nat.add_0_r. reflexivity.
      + rewrite IH. replace (S pos + i) with (pos + S i) by lia. reflexivity.
  Qed.
  Lemma neg_slice_length arr : forall pos a b, length (neg_slice negx pos arr a b) = length arr.
  Proof. induction arr; intros; simpl; [reflexivity|]. rewrite IHarr. reflexivity. Qed.

  Definition inside (j : nat * nat) (i : nat) : bool := (fst j <=? i) && (i <? snd j).
  Definition cnt_in (pairs : list (nat * nat)) (i : nat) : nat := length (filter (fun j => inside j i) pairs).
  Definition cnt_le (l : list nat) (i : nat) : nat := length (filter (fun j => j <=? i) l).

  Lemma nth_fold_neg pairs : forall arr i,
    nth i (fold_left (fun arr (j : nat * nat) => neg_slice negx 0 arr (fst j) (snd j)) pairs arr) None
    = sgn (Nat.odd (cnt_in pairs i)) (nth i arr None).
  Proof.
    induction pairs as [|j tl IH]; intros arr i; simpl; [reflexivity|].
    rewrite IH, nth_neg_slice, sgn_sgn. f_equal. unfold cnt_in. simpl. unfold inside at 2. simpl.
    destruct ((fst j <=? i) && (i <? snd j)); simpl.
    - rewrite Nat.odd_succ, <- Nat.negb_odd. destruct (Nat.odd _); reflexivity.
    - destruct (Nat.odd _); reflexivity.
  Qed.
  Lemma fold_neg_length pairs : forall arr,
    length (fold_left (fun arr (j : nat * nat) => neg_slice negx 0 arr (fst j) (snd j)) pairs arr) = length arr.
  Proof. induction pairs; intros; simpl; [reflexivity|]. rewrite IHpairs, neg_slice_length. reflexivity. Qed.

  (* pairing consecutive jump indices: row i lies in an odd number of slices iff an odd number of jumps is <= i *)
  Lemma pair_up_parity N i : i < N -> forall l,
    (forall lo, inc_from lo l -> (forall x, In x l -> x <= N) -> Nat.odd (cnt_in (pair_up N l) i) = Nat.odd (cnt_le l i)) /\
    (forall a lo, inc_from lo (a :: l) -> (forall x, In x (a :: l) -> x <= N) ->
                  Nat.odd (cnt_in (pair_up N (a :: l)) i) = Nat.odd (cnt_le (a :: l) i)).
  Proof.
    intros Hi. induction l as [|b l IH].
    - split; [reflexivity|]. intros a lo _ Hb. unfold cnt_in, cnt_le, inside. simpl.
      destruct (a <=? i); simpl; [|reflexivity]. destruct (Nat.ltb_spec i N); [reflexivity|lia].
    - destruct IH as [IH1 IH2]. split; [intros lo; apply IH2|].
      intros a lo [Ha [Hb Hl]] Hbound. change (pair_up N (a :: b :: l)) with ((a, b) :: pair_up N l).
      assert (E : Nat.odd (cnt_in (pair_up N l) i) = Nat.odd (cnt_le l i)).
      { apply (IH1 (S b) Hl). intros x Hx. apply Hbound. right. right. exact Hx. }
      unfold cnt_in, cnt_le in *. simpl. unfold inside at 1. simpl.
      destruct (Nat.leb_spec a i), (Nat.leb_spec b i), (Nat.ltb_spec i b); simpl; try lia;
        rewrite ?Nat.odd_succ, <- ?Nat.negb_odd, ?Nat.odd_succ, <- ?Nat.negb_odd, E, ?Bool.negb_involutive; reflexivity.
  Qed.

  Lemma jump_flags_length rows : length (jump_flags jump rows) = pred (length rows).
  Proof.
    induction rows as [|a r IH]; [reflexivity|]. destruct r as [|b r']; [reflexivity|].
    change (jump_flags jump (a :: b :: r')) with (jump_row jump a b :: jump_flags jump (b :: r')).
    simpl length in *. rewrite IH. reflexivity.
  Qed.
  Lemma nth_jump_flags rows : forall i,
    nth i (jump_flags jump rows) false = jump_row jump (nth i rows None) (nth (S i) rows None).
  Proof.
    induction rows as [|a r IH]; intros i.
    - simpl. destruct i; reflexivity.
    - destruct r as [|b r'].
      + simpl. destruct i; simpl; [destruct a; reflexivity|destruct i; reflexivity].
      + change (jump_flags jump (a :: b :: r')) with (jump_row jump a b :: jump_flags jump (b :: r')).
        destruct i; [reflexivity|]. change (nth (S i) (a :: b :: r') None) with (nth i (b :: r') None).
        change (nth (S (S i)) (a :: b :: r') None) with (nth (S i) (b :: r') None). simpl nth at 1. apply IH.
  Qed.

  (* the sign pattern: (-1)^(number of jumps at or before row i) *)
  Definition flipped (rows : list row) (i : nat) : bool := Nat.odd (cnt_le (jump_indices jump rows) i).

  Theorem remove_jumps_spec rows i : i < length rows ->
    nth i (remove_jumps negx jump rows) None = sgn (flipped rows i) (nth i rows None).
  Proof.
    intros Hi. unfold remove_jumps. rewrite nth_fold_neg. f_equal. unfold flipped.
    apply (proj1 (pair_up_parity (length rows) i Hi (jump_indices jump rows)) 1).
    - unfold jump_indices. apply inc_from_map_S. apply positions_inc.
    - intros x Hx. unfold jump_indices in Hx. apply in_map_iff in Hx. destruct Hx as (k & <- & Hk).
      apply in_positions in Hk. destruct (Nat.lt_ge_cases k (length (jump_flags jump rows))) as [H|H].
      + rewrite jump_flags_length in H. lia.
      + rewrite nth_overflow in Hk by lia. discriminate.
  Qed.
  Theorem remove_jumps_length rows : length (remove_jumps negx jump rows) = length rows.
  Proof. unfold remove_jumps. apply fold_neg_length. Qed.

  (* the sign changes exactly at the jumps *)
  Lemma cnt_le_succ l : forall lo i, inc_from lo l ->
    cnt_le l (S i) = cnt_le l i + (if in_dec Nat.eq_dec (S i) l then 1 else 0).
  Proof.
    induction l as [|a r IH]; intros lo i Hinc; [reflexivity|]. destruct Hinc as [Ha Hr].
    unfold cnt_le in *. simpl filter. pose proof (inc_from_ge _ _ Hr) as Hge.
    destruct (in_dec Nat.eq_dec (S i) (a :: r)) as [Hin|Hin];
      destruct (Nat.leb_spec a (S i)), (Nat.leb_spec a i); simpl length; try lia.
    - rewrite (IH _ i Hr). destruct (in_dec Nat.eq_dec (S i) r) as [H1|H1]; [lia|].
      destruct Hin as [Hx|Hx]; [lia|contradiction].
    - rewrite (IH _ i Hr). destruct (in_dec Nat.eq_dec (S i) r) as [H1|H1]; [specialize (Hge _ H1); lia|lia].
    - destruct Hin as [Hx|Hx]; [lia|]. specialize (Hge _ Hx). lia.
    - rewrite (IH _ i Hr). destruct (in_dec Nat.eq_dec (S i) r) as [H1|H1]; [exfalso; apply Hin; right; exact H1|lia].
    - exfalso. apply Hin. left. lia.
    - rewrite (IH _ i Hr). destruct (in_dec Nat.eq_dec (S i) r) as [H1|H1]; [exfalso; apply Hin; right; exact H1|lia].
  Qed.
  Lemma flipped_succ rows i : flipped rows (S i) = xorb (flipped rows i) (nth i (jump_flags jump rows) false).
  Proof.
    unfold flipped. rewrite (cnt_le_succ _ 1 i) by (unfold jump_indices; apply inc_from_map_S, positions_inc).
    destruct (in_dec Nat.eq_dec (S i) (jump_indices jump rows)) as [H|H].
    - unfold jump_indices in H. apply in_map_iff in H. destruct H as (k & Ek & Hk). injection Ek as ->.
      apply in_positions in Hk. rewrite Hk. rewrite Nat.add_1_r, Nat.odd_succ, <- Nat.negb_odd.
      destruct (Nat.odd _); reflexivity.
    - assert (nth i (jump_flags jump rows) false = false) as ->.
      { apply not_true_false. intros Hx. apply H. unfold jump_indices. apply in_map. apply in_positions. exact Hx. }
      rewrite Nat.add_0_r. destruct (Nat.odd _); reflexivity.
  Qed.
  Lemma flipped_0 rows : flipped rows 0 = false.
  Proof.
    unfold flipped. replace (cnt_le (jump_indices jump rows) 0) with 0; [reflexivity|].
    unfold cnt_le, jump_indices. induction (positions (jump_flags jump rows)); simpl; [reflexivity|exact IHl].
  Qed.

  (* no jump remains, provided the jump test does not see a common sign and every jumping pair is close after one flip *)
  Hypothesis jump_neg_both : forall a b, jump (negx a) (negx b) = jump a b.
  Theorem remove_jumps_no_jump rows :
    (forall i a b, nth i rows None = Some a -> nth (S i) rows None = Some b -> jump a b = true -> jump a (negx b) = false) ->
    forall i, nth i (jump_flags jump (remove_jumps negx jump rows)) false = false.
  Proof.
    intros Hyp i. rewrite nth_jump_flags.
    destruct (Nat.lt_ge_cases (S i) (length rows)) as [Hi|Hi].
    - rewrite !remove_jumps_spec by llia. rewrite flipped_succ, nth_jump_flags.
      destruct (nth i rows None) as [a|] eqn:Ea; [|destruct (flipped rows i); reflexivity].
      destruct (nth (S i) rows None) as [b|] eqn:Eb.
      2:{ simpl. destruct (flipped rows i); simpl; reflexivity. }
      simpl jump_row at 2. destruct (jump a b) eqn:J.
      + specialize (Hyp i a b Ea Eb J). destruct (flipped rows i); simpl.
        * rewrite <- (negx_invol b) at 1. rewrite jump_neg_both. rewrite <- (jump_neg_both a (negx b)) in Hyp.
          rewrite negx_invol in Hyp. rewrite <- jump_neg_both, negx_invol. exact Hyp.
        * exact Hyp.
      + destruct (flipped rows i); simpl; [rewrite jump_neg_both|]; exact J.
    - assert (E : nth (S i) (remove_jumps negx jump rows) None = None) by (apply nth_overflow; rewrite remove_jumps_length; llia). rewrite E.
      destruct (nth i _ None); reflexivity.
  Qed.

  (* ======================================================================================
     E. slerp_nan
     ====================================================================================== *)
  Lemma upd_length (arr : list row) : forall s vals, length (upd arr s vals) = length arr.
  Proof.
    induction arr as [|x r IH]; intros s vals; simpl; [reflexivity|].
    destruct s; [destruct vals|]; simpl; rewrite ?IH; reflexivity.
  Qed.
  Lemma nth_upd (arr : list row) : forall s vals i,
    nth i (upd arr s vals) None =
    if (s <=? i) && (i <? s + length vals) && (i <? length arr) then nth (i - s) vals None else nth i arr None.
  Proof.
    induction arr as [|x r IH]; intros s vals i.
    - simpl. rewrite Bool.andb_false_r. destruct i; reflexivity.
    - destruct s as [|s'].
      + destruct vals as [|v vs].
        * simpl. destruct i; reflexivity.
        * simpl upd. destruct i; [reflexivity|]. simpl nth at 1. rewrite IH. simpl.
          rewrite Nat.sub_0_r. reflexivity.
      + simpl upd. destruct i; [reflexivity|]. simpl nth at 1. rewrite IH. simpl. reflexivity.
  Qed.
  Lemma nth_map_seq (B : Type) (f : nat -> B) d : forall L s k, k < L -> nth k (map f (seq s L)) d = f (s + k).
  Proof.
    induction L as [|L IH]; intros s k H; [lia|]. simpl. destruct k; [rewrite Nat.add_0_r; reflexivity|].
    rewrite IH by lia. f_equal. lia.
  Qed.
  Lemma nth_interpolants a b L k : k < L -> nth k (interpolants interp a b L) None = Some (interp a b (S k) (S L)).
  Proof. intros H. unfold interpolants. rewrite nth_map_seq by exact H. reflexivity. Qed.
  Lemma interpolants_length a b L : length (interpolants interp a b L) = L.
  Proof. unfold interpolants. rewrite map_length, seq_length. reflexivity. Qed.

  Lemma fold_fill_none src ivs : fold_left (fill_one interp src) ivs None = None.
  Proof. induction ivs; simpl; [reflexivity|exact IHivs]. Qed.

  (* what row i of the result is: untouched, or written by one of the intervals that contain it *)
  Definition written (src : list row) (ivs : list (nat * nat)) (i : nat) (v : row) : Prop :=
    exists s' e a b, In (S s', e) ivs /\ S s' <= i <= e /\ nth s' src None = Some a /\ nth (S e) src None = Some b /\
                     v = Some (interp a b (i - s') (S (e - s'))).
  Lemma fold_fill src ivs : forall arr out, length arr = length src ->
    fold_left (fill_one interp src) ivs (Some arr) = Some out ->
    length out = length src /\
    forall i, (nth i out None = nth i arr None /\ forall iv, In iv ivs -> ~ (fst iv <= i <= snd iv)) \/
              written src ivs i (nth i out None).
  Proof.
    induction ivs as [|[s e] tl IH]; intros arr out Hlen Hf.
    - simpl in Hf. injection Hf as <-. split; [exact Hlen|]. intros i. left. split; [reflexivity|]. intros iv [].
    - simpl fold_left in Hf.
      destruct s as [|s']; [rewrite fold_fill_none in Hf; discriminate|].
      destruct (nth s' src None) as [a|] eqn:Ea; [|rewrite fold_fill_none in Hf; discriminate].
      destruct (nth (S e) src None) as [b|] eqn:Eb; [|rewrite fold_fill_none in Hf; discriminate].
      assert (He : S e < length src).
      { destruct (Nat.lt_ge_cases (S e) (length src)); [assumption|]. rewrite nth_overflow in Eb by llia. discriminate. }
      apply IH in Hf; [|rewrite upd_length; exact Hlen]. destruct Hf as [Hl Hf]. split; [exact Hl|].
      intros i. destruct (Hf i) as [[H1 H2]|H1].
      + rewrite nth_upd, interpolants_length in H1.
        destruct (Nat.leb_spec (S s') i), (Nat.ltb_spec i (S s' + (e - s'))), (Nat.ltb_spec i (length arr));
          cbn [andb] in H1;
          try (left; split; [exact H1|]; intros iv [<-|Hin]; [simpl; llia|apply H2; exact Hin]).
        right. exists s', e, a, b. split; [left; reflexivity|]. split; [llia|]. split; [exact Ea|]. split; [exact Eb|].
        rewrite H1, nth_interpolants by llia. f_equal. f_equal. llia.
      + right. destruct H1 as (s1 & e1 & a1 & b1 & Hin & R). exists s1, e1, a1, b1. split; [right; exact Hin|exact R].
  Qed.
  Lemma fold_fill_defined src ivs : forall arr,
    (forall s e, In (s, e) ivs -> exists s' a b, s = S s' /\ nth s' src None = Some a /\ nth (S e) src None = Some b) ->
    exists out, fold_left (fill_one interp src) ivs (Some arr) = Some out.
  Proof.
    induction ivs as [|[s e] tl IH]; intros arr H; [simpl; eexists; reflexivity|].
    destruct (H s e (or_introl eq_refl)) as (s' & a & b & -> & Ea & Eb).
    simpl. rewrite Ea, Eb. apply IH.
    intros s1 e1 Hin. apply H. right. exact Hin.
  Qed.

  Lemma nth_nan_mask (src : list row) i : nth i (nan_mask src) false = true <-> nth i src (None : row) = None /\ i < length src.
  Proof.
    unfold nan_mask. destruct (Nat.lt_ge_cases i (length src)) as [H|H].
    - rewrite nth_indep with (d' := isnan (None : row)) by (rewrite map_length; exact H). rewrite map_nth.
      destruct (nth i src None); simpl; split; try tauto; try discriminate. intros [? _]; discriminate.
    - rewrite nth_overflow by (rewrite map_length; llia). split; [discriminate|lia].
  Qed.
  Lemma nth_nan_mask_valid (src : list row) i v : nth i src None = Some v -> nth i (nan_mask src) false = false.
  Proof.
    intros H. apply not_true_false. intros Hx. apply nth_nan_mask in Hx. destruct Hx as [Hx _]. rewrite H in Hx. discriminate.
  Qed.

  (* ---- the specification of the gap filling ---- *)
  Theorem fill_nan_spec src out : fill_nan interp src = Some out ->
    length out = length src /\
    (forall i v, nth i src None = Some v -> nth i out None = Some v) /\
    (forall s' e a b, maxrun (nan_mask src) (S s') e -> nth s' src None = Some a -> nth (S e) src None = Some b ->
                      forall k, 1 <= k <= e - s' -> nth (s' + k) out None = Some (interp a b k (S (e - s')))).
  Proof.
    unfold fill_nan. intros Hf. apply fold_fill in Hf; [|reflexivity]. destruct Hf as [Hl Hf]. split; [exact Hl|]. split.
    - intros i v Hv. destruct (Hf i) as [[H1 _]|(s' & e & a & b & Hin & Hi & _)]; [rewrite H1; exact Hv|]. exfalso.
      apply nan_intervals_are_maximal_runs in Hin. destruct Hin as (_ & H2 & _).
      specialize (H2 i Hi). rewrite (nth_nan_mask_valid _ _ _ Hv) in H2. discriminate H2.
    - intros s' e a b Hrun Ea Eb k Hk.
      assert (Hi : S s' <= s' + k <= e) by llia.
      destruct (Hf (s' + k)) as [[_ H2]|(s1 & e1 & a1 & b1 & Hin & Hi1 & Ea1 & Eb1 & ->)].
      + exfalso. apply (H2 (S s', e)); [apply nan_intervals_are_maximal_runs; exact Hrun|simpl; lia].
      + apply nan_intervals_are_maximal_runs in Hin.
        destruct (maxrun_unique _ _ _ _ _ _ Hin Hrun Hi1 Hi) as [E1 E2]. injection E1 as ->. subst e1.
        rewrite Ea in Ea1. rewrite Eb in Eb1. injection Ea1 as <-. injection Eb1 as <-. f_equal. f_equal. llia.
  Qed.

  (* defined for every array whose first and last rows are valid: every position and length of interior runs *)
  Theorem fill_nan_defined src v0 v1 : nth 0 src None = Some v0 -> nth (pred (length src)) src None = Some v1 ->
    exists out, fill_nan interp src = Some out.
  Proof.
    intros H0 H1. unfold fill_nan. apply fold_fill_defined. intros s e Hin.
    apply nan_intervals_are_maximal_runs in Hin. destruct Hin as (G1 & G2 & G3 & G4).
    destruct s as [|s'].
    - specialize (G2 0 ltac:(llia)). rewrite (nth_nan_mask_valid _ _ _ H0) in G2. discriminate.
    - assert (He : nth e (nan_mask src) false = true) by (apply G2; llia). apply nth_nan_mask in He. destruct He as [He Hlt].
      assert (S e < length src).
      { destruct (Nat.eq_dec e (pred (length src))) as [->|]; [rewrite H1 in He; discriminate|lia]. }
      specialize (G3 s' eq_refl).
      destruct (nth s' src None) as [a|] eqn:Ea.
      2:{ exfalso. assert (nth s' (nan_mask src) false = true) by (apply nth_nan_mask; split; [exact Ea|lia]). congruence. }
      destruct (nth (S e) src None) as [b|] eqn:Eb.
      2:{ exfalso. assert (nth (S e) (nan_mask src) false = true) by (apply nth_nan_mask; split; [exact Eb|lia]). congruence. }
      exists s', a, b. repeat split; assumption || reflexivity.
  Qed.

  (* slerp_nan = fill after jump removal *)
  Theorem slerp_nan_spec rows out : slerp_nan negx jump interp rows = Some out ->
    length out = length rows /\
    (forall i v, i < length rows -> nth i rows None = Some v -> nth i out None = sgn (flipped rows i) (Some v)) /\
    (forall s' e a b, maxrun (nan_mask rows) (S s') e -> nth s' rows None = Some a -> nth (S e) rows None = Some b ->
       forall k, 1 <= k <= e - s' ->
       exists a' b', sgn (flipped rows s') (Some a) = Some a' /\ sgn (flipped rows (S e)) (Some b) = Some b' /\
                     nth (s' + k) out None = Some (interp a' b' k (S (e - s')))).
  Proof.
    unfold slerp_nan. intros Hf. apply fill_nan_spec in Hf. destruct Hf as (Hl & Hv & Hr).
    rewrite remove_jumps_length in Hl. split; [exact Hl|]. split.
    - intros i v Hi Hv0. pose proof (remove_jumps_spec rows i Hi) as E. rewrite Hv0 in E.
      destruct (flipped rows i); simpl in *; apply Hv; exact E.
    - intros s' e a b Hrun Ea Eb k Hk.
      assert (Hlt : S e < length rows).
      { destruct (Nat.lt_ge_cases (S e) (length rows)); [assumption|]. rewrite nth_overflow in Eb by llia. discriminate. }
      pose proof (remove_jumps_spec rows s' ltac:(llia)) as E1. rewrite Ea in E1.
      pose proof (remove_jumps_spec rows (S e) Hlt) as E2. rewrite Eb in E2.
      assert (Hmask : nan_mask (remove_jumps negx jump rows) = nan_mask rows).
      { apply nth_ext with (d := false) (d' := false); [unfold nan_mask; rewrite !map_length; apply remove_jumps_length|].
        intros i Hi. unfold nan_mask in Hi. rewrite map_length, remove_jumps_length in Hi.
        unfold nan_mask. rewrite !nth_indep with (d := false) (d' := isnan (None : row)) by (rewrite map_length, ?remove_jumps_length; exact Hi).
        rewrite !map_nth, remove_jumps_spec by exact Hi. destruct (flipped rows i), (nth i rows None); reflexivity. }
      destruct (flipped rows s') eqn:F1, (flipped rows (S e)) eqn:F2; simpl in E1, E2; simpl;
        do 2 eexists; (split; [reflexivity|]); (split; [reflexivity|]);
        apply (Hr s' e _ _); try assumption; rewrite Hmask; exact Hrun.
  Qed.
End Rows.
