(* C12_instances.v — property C12, statements only (second statement file, compiled in parallel with C12.v). *)
From Coq Require Import Reals List Lra Arith.
From AhrsLib Require Import Base Rot.
From AhrsModel Require Import C12_lists.
From AhrsGen Require Import C12gen_R.
From AhrsProps Require Import C12_math C12_gen C12_lists_thm C12_lists_R C12_lerp C12_lerp_gen C12_lerp_num C12_inst_a C12_inst_b C12_inst_c.
Import ListNotations.
Open Scope R_scope.

(* ---- regenerated instances of the in-place list code = the hand model (tie 1 for part of the bookkeeping) ---------------
   QuaternionArray(rows, versors=False) with symbolic non-zero rows and a CONCRETE NaN mask (real NaN floats written into the
   traced array); remove_jumps / q_correct / slerp_nan(inplace=False) / the default in-place slerp_nan() read back through
   .array and through np.asarray(Q).  flat = the rows as one list of numbers.  Further instances (remove_jumps N = 4,
   slerp_nan copy mode on masks [0,1,1,0] and [0,1,0,1,0]) are proved in the thorough tier: C12_inst_d.v. *)
Theorem C12_instances_remove_jumps : forall r0w r0x r0y r0z r1w r1x r1y r1z r2w r2x r2y r2z,
  nz4 r0w r0x r0y r0z -> nz4 r1w r1x r1y r1z -> nz4 r2w r2x r2y r2z ->
  C12_rj3_R r0w r0x r0y r0z r1w r1x r1y r1z r2w r2x r2y r2z =
    Val (flat_rows (remove_jumpsR [Some (r0w, r0x, r0y, r0z); Some (r1w, r1x, r1y, r1z); Some (r2w, r2x, r2y, r2z)])) /\
  C12_qc3_R r0w r0x r0y r0z r1w r1x r1y r1z r2w r2x r2y r2z =
    Val (flat_rows (remove_jumpsR [Some (r0w, r0x, r0y, r0z); Some (r1w, r1x, r1y, r1z); Some (r2w, r2x, r2y, r2z)])).
Proof. intros r0w r0x r0y r0z r1w r1x r1y r1z r2w r2x r2y r2z H0 H1 H2. exact (inst_rj3 _ _ _ _ _ _ _ _ _ _ _ _ H0 H1 H2). Qed.
Print Assumptions C12_instances_remove_jumps.

Theorem C12_instances_slerp_nan : forall r0w r0x r0y r0z r1w r1x r1y r1z r3w r3x r3y r3z,
  nz4 r0w r0x r0y r0z -> nz4 r1w r1x r1y r1z -> nz4 r3w r3x r3y r3z ->
  (* N = 3, mask [valid, NaN, valid] *)
  C12_sn_010_R r0w r0x r0y r0z r3w r3x r3y r3z =
    Val (flat (slerp_nanR [Some (r0w, r0x, r0y, r0z); None; Some (r3w, r3x, r3y, r3z)])) /\
  (* N = 4, mask [valid, NaN, NaN, valid]: the default in-place mode seen through .array and through np.asarray(Q) *)
  C12_sni_0110_R r0w r0x r0y r0z r3w r3x r3y r3z =
    Val (flat (slerp_nanR [Some (r0w, r0x, r0y, r0z); None; None; Some (r3w, r3x, r3y, r3z)]) ++
         flat (slerp_nanR [Some (r0w, r0x, r0y, r0z); None; None; Some (r3w, r3x, r3y, r3z)])) /\
  (* N = 4, mask [valid, valid, NaN, valid]: a possible jump before the gap flips the rows after it *)
  C12_sn_0010_R r0w r0x r0y r0z r1w r1x r1y r1z r3w r3x r3y r3z =
    Val (flat (slerp_nanR [Some (r0w, r0x, r0y, r0z); Some (r1w, r1x, r1y, r1z); None; Some (r3w, r3x, r3y, r3z)])).
Proof.
  intros r0w r0x r0y r0z r1w r1x r1y r1z r3w r3x r3y r3z H0 H1 H3.
  split; [exact (inst_sn_010 _ _ _ _ _ _ _ _ H0 H3)|].
  split; [exact (inst_sni_0110 _ _ _ _ _ _ _ _ H0 H3)|exact (inst_sn_0010 _ _ _ _ _ _ _ _ _ _ _ _ H0 H1 H3)].
Qed.
Print Assumptions C12_instances_slerp_nan.

(* ---- LERP branch, numeric corollary (uses `interval`) ---- *)
(* with the shipped threshold 0.9995 the subtended angle is below 0.0317 rad: 1 - cos(deviation) <= 4e-12 (deviation < 3e-6 rad) *)
Theorem C12_lerp_default_bound : forall a b c d w x y z t, unit4 a b c d -> unit4 w x y z ->
  1999 / 2000 < Rabs (qdot [a;b;c;d] [w;x;y;z]) < 1 -> 0 <= t <= 1 ->
  exists r, C12_slerp_R a b c d w x y z t = Val r /\
            1 - 4 / 1000000000000 <= qdot r (arc [a;b;c;d] (nearer [a;b;c;d] [w;x;y;z]) (Rabs (qdot [a;b;c;d] [w;x;y;z])) t) <= 1.
Proof. intros a b c d w x y z t Hp Hq HD H. exact (gen_lerp_default a b c d w x y z t Hp Hq HD H). Qed.
Print Assumptions C12_lerp_default_bound.
