(* C12_lerp_gen.v — the LERP-branch theorems of C12_lerp.v transported to the regenerated slerp. *)
From Coq Require Import Reals List Lra Psatz.
From AhrsLib Require Import Base Rot.
From AhrsGen Require Import C12gen_R.
From AhrsProps Require Import C12_math C12_gen C12_lerp.
Import ListNotations.
Open Scope R_scope.

Section LerpGen.
  Variables a b c d w x y z thr : R.
  Hypothesis Hp : unit4 a b c d.
  Hypothesis Hq : unit4 w x y z.
  Hypothesis Hthr : 0 <= thr < 1.
  Let p := [a;b;c;d].
  Let q := [w;x;y;z].
  Let D := Rabs (qdot p q).
  Hypothesis HD : thr < D < 1.

  Lemma on_lerp_path t : slerpM thr p q t = lerpn p (nearer p q) t /\ qdot p (nearer p q) = D /\ qnorm2 (nearer p q) = 1 /\ qnorm2 p = 1.
  Proof.
    destruct (slerpM_nearer thr a b c d w x y z Hq t) as (E & E2 & _ & E3). fold p q in E, E2, E3. fold D in E, E2.
    split; [|split; [exact E2|split; [exact E3|unfold p; unfold_q; exact Hp]]].
    rewrite E. unfold slerp_core. destruct (Rlt_dec thr D); [reflexivity|lra].
  Qed.

  Lemma gen_lerp_near_geodesic t : 0 <= t <= 1 ->
    exists r, C12_slerp_thr_R a b c d w x y z t thr = Val r /\
              1 - (acos D) ^ 6 / 288 <= qdot r (arc p (nearer p q) D t) <= 1.
  Proof.
    intros Ht. rewrite slerp_thr_is_slerpM. eexists. split; [reflexivity|]. fold p q.
    destruct (on_lerp_path t) as (E & E2 & E3 & E4). rewrite E. rewrite <- E2.
    apply lerp_near_geodesic; [exact E4|exact E3|rewrite E2; lra|exact Ht].
  Qed.

  Lemma gen_lerp_monotone t1 t2 : 0 <= t1 -> t1 < t2 -> t2 <= 1 ->
    exists r1 r2, C12_slerp_thr_R a b c d w x y z t1 thr = Val r1 /\ C12_slerp_thr_R a b c d w x y z t2 thr = Val r2 /\
                  qdot p r2 < qdot p r1.
  Proof.
    intros H0 H12 H1. rewrite !slerp_thr_is_slerpM. do 2 eexists. split; [reflexivity|]. split; [reflexivity|]. fold p q.
    destruct (on_lerp_path t1) as (E1 & E2 & E3 & E4). destruct (on_lerp_path t2) as (E1' & _). rewrite E1, E1'.
    apply lerp_monotone; [exact E4|exact E3|rewrite E2; lra|exact H0|exact H12|exact H1].
  Qed.
End LerpGen.
