(* C12_gen.v — the regenerated slerp functions ARE the specification terms of C12_math.v (no hypotheses),
   hence every theorem of C12_math.v holds of the code. *)
From Coq Require Import Reals List Lra Psatz.
From AhrsLib Require Import Base Rot.
From AhrsGen Require Import C12gen_R.
From AhrsProps Require Import C12_math.
Import ListNotations.
Open Scope R_scope.

(* make two occurrences f e1, f e2 with ring-equal arguments syntactically equal (so that a harmless reordering
   inside the source does not change the atoms `ring` sees) *)
Ltac unify_fn f :=
  repeat match goal with |- context [f ?e1] => let u := fresh "u" in set (u := f e1) end;
  repeat match goal with
  | u1 := f ?e1, u2 := f ?e2 |- _ =>
      let H := fresh in assert (H : u2 = u1) by (unfold u1, u2; f_equal; ring); rewrite H; clear H; clear u2
  end.
Ltac unify_atoms := unify_fn acos; unify_fn Rabs; unify_fn sin; unify_fn cos; unify_fn sqrt; unify_fn Rinv.
Ltac split_paths := repeat (destr_dec; try (exfalso; lra)).
Ltac gen_eq_spec :=
  intros; cbv zeta; cbv [slerpM slerp_core slerpI_M lerpn arc arc_s0 arc_s1 qone app]; cbv zeta; unfold_q;
  split_paths; cbv [app]; val_eq; unfold Rdiv; unify_atoms; ring.

Definition thr0 : R := 1999 / 2000.

Lemma slerp_is_slerpM a b c d w x y z t :
  C12_slerp_R a b c d w x y z t = Val (slerpM thr0 [a;b;c;d] [w;x;y;z] t).
Proof. unfold C12_slerp_R, thr0. gen_eq_spec. Qed.
Lemma oslerp_is_slerpM a b c d w x y z t :
  C12_oslerp_R a b c d w x y z t = Val (slerpM thr0 [a;b;c;d] [w;x;y;z] t).
Proof. unfold C12_oslerp_R, thr0. gen_eq_spec. Qed.
Lemma slerp2_is_slerpM a b c d w x y z s t :
  C12_slerp2_R a b c d w x y z s t = Val (slerpM thr0 [a;b;c;d] [w;x;y;z] s ++ slerpM thr0 [a;b;c;d] [w;x;y;z] t).
Proof. unfold C12_slerp2_R, thr0. gen_eq_spec. Qed.
Lemma slerp_thr_is_slerpM a b c d w x y z t thr :
  C12_slerp_thr_R a b c d w x y z t thr = Val (slerpM thr [a;b;c;d] [w;x;y;z] t).
Proof. unfold C12_slerp_thr_R. gen_eq_spec. Qed.
Lemma slerp_I_is_slerpI_M w x y z t thr :
  C12_slerp_I_R w x y z t thr = Val (slerpI_M thr [w;x;y;z] t).
Proof. unfold C12_slerp_I_R. gen_eq_spec. Qed.

Lemma thr0_lt_1 : thr0 < 1. Proof. unfold thr0. lra. Qed.

(* ---- transport ------------------------------------------------------------------------ *)
Definition unit4 (a b c d : R) : Prop := a*a + b*b + c*c + d*d = 1.

Section Transport.
  Variables a b c d w x y z : R.
  Hypothesis Hp : unit4 a b c d.
  Hypothesis Hq : unit4 w x y z.
  Let p := [a;b;c;d].
  Let q := [w;x;y;z].

  Lemma gen_unit thr t : thr < 1 ->
    exists r, C12_slerp_thr_R a b c d w x y z t thr = Val r /\ length r = 4%nat /\ qnorm2 r = 1.
  Proof. intros H. rewrite slerp_thr_is_slerpM. eexists. split; [reflexivity|]. apply slerpM_unit; assumption. Qed.

  Lemma gen_endpoints thr : thr < 1 ->
    C12_slerp_thr_R a b c d w x y z 0 thr = Val p /\ C12_slerp_thr_R a b c d w x y z 1 thr = Val (nearer p q).
  Proof.
    intros H. rewrite !slerp_thr_is_slerpM. split; f_equal.
    - apply slerpM_start; assumption.
    - apply slerpM_end; assumption.
  Qed.

  Lemma gen_speed thr t : thr < 1 -> Rabs (qdot p q) <= thr ->
    exists r, C12_slerp_thr_R a b c d w x y z t thr = Val r /\
              qdot p r = cos (acos (Rabs (qdot p q)) * t) /\ qdot r (nearer p q) = cos (acos (Rabs (qdot p q)) * (1 - t)).
  Proof.
    intros H HD. rewrite slerp_thr_is_slerpM. eexists. split; [reflexivity|]. apply slerpM_speed; assumption.
  Qed.

  Lemma gen_two_weights s t : Rabs (qdot p q) <= thr0 ->
    exists r1 r2, C12_slerp2_R a b c d w x y z s t = Val (r1 ++ r2) /\
                  C12_slerp_R a b c d w x y z s = Val r1 /\ C12_slerp_R a b c d w x y z t = Val r2 /\
                  qdot r1 r2 = cos (acos (Rabs (qdot p q)) * (t - s)).
  Proof.
    intros HD. rewrite slerp2_is_slerpM, !slerp_is_slerpM. do 2 eexists. repeat split.
    apply slerpM_two_weights; try assumption. apply thr0_lt_1.
  Qed.

  Lemma gen_minor_arc thr t : thr < 1 -> 0 <= t <= 1 ->
    exists s0 s1, 0 <= s0 /\ 0 <= s1 /\ C12_slerp_thr_R a b c d w x y z t thr = Val (qlin s0 s1 p (nearer p q)).
  Proof.
    intros H Ht. destruct (slerpM_minor_arc thr H a b c d w x y z Hp Hq t Ht) as (s0 & s1 & A & B & E).
    exists s0, s1. rewrite slerp_thr_is_slerpM. repeat split; try assumption. f_equal. exact E.
  Qed.
End Transport.

Lemma gen_default_threshold a b c d w x y z t :
  C12_slerp_R a b c d w x y z t = C12_slerp_thr_R a b c d w x y z t thr0 /\
  C12_oslerp_R a b c d w x y z t = C12_slerp_R a b c d w x y z t.
Proof. rewrite slerp_is_slerpM, oslerp_is_slerpM, slerp_thr_is_slerpM. split; reflexivity. Qed.

Lemma gen_antipode a b c d w x y z t thr : qdot [a;b;c;d] [w;x;y;z] <> 0 ->
  C12_slerp_thr_R a b c d (-w) (-x) (-y) (-z) t thr = C12_slerp_thr_R a b c d w x y z t thr /\
  forall r, C12_slerp_thr_R a b c d w x y z t thr = Val r ->
            C12_slerp_thr_R (-a) (-b) (-c) (-d) w x y z t thr = Val (qneg r) /\
            C12_slerp_thr_R (-a) (-b) (-c) (-d) (-w) (-x) (-y) (-z) t thr = Val (qneg r).
Proof.
  intros H. rewrite !slerp_thr_is_slerpM.
  assert (Eq : slerpM thr [a;b;c;d] [-w;-x;-y;-z] t = slerpM thr [a;b;c;d] [w;x;y;z] t)
    by (change [-w;-x;-y;-z] with (qneg [w;x;y;z]); apply slerpM_neg_q; exact H).
  split; [f_equal; exact Eq|].
  intros r E. injection E as <-. split; f_equal.
  - change [-a;-b;-c;-d] with (qneg [a;b;c;d]). apply slerpM_neg_p; exact H.
  - change [-a;-b;-c;-d] with (qneg [a;b;c;d]). rewrite slerpM_neg_p.
    + rewrite Eq. reflexivity.
    + change [-w;-x;-y;-z] with (qneg [w;x;y;z]). rewrite qdot_neg_r. lra.
Qed.

(* the guard p.q <> 0 cannot be dropped: on the tie the code goes to q resp. -q, two different rotation paths *)
Lemma gen_tie_differs :
  C12_slerp_R 1 0 0 0 (-0) (-1) (-0) (-0) (1/2) <> C12_slerp_R 1 0 0 0 0 1 0 0 (1/2).
Proof.
  rewrite !slerp_is_slerpM. change [-0;-1;-0;-0] with (qneg [0;1;0;0]).
  intros E. injection E as E. revert E. unfold thr0. apply slerpM_tie_differs.
Qed.

(* AQUA slerp_I *)
Lemma gen_slerp_I w x y z t thr : unit4 w x y z -> -1 < w -> thr < 1 -> 0 <= t <= 1 ->
  exists r, C12_slerp_I_R w x y z t thr = Val r /\ length r = 4%nat /\ qnorm2 r = 1 /\
            (w <= thr -> e r 0 = cos (acos w * t) /\ exists s0 s1, 0 <= s0 /\ 0 <= s1 /\ r = qlin s0 s1 qone [w;x;y;z]).
Proof.
  intros Hq Hw Hthr Ht. rewrite slerp_I_is_slerpI_M. eexists. split; [reflexivity|].
  destruct (slerpI_unit thr Hthr w x y z Hq Hw t Ht) as [L U]. split; [exact L|]. split; [exact U|].
  intros H. apply slerpI_speed; assumption.
Qed.
Lemma gen_slerp_I_endpoints w x y z thr : unit4 w x y z -> -1 < w -> thr < 1 ->
  C12_slerp_I_R w x y z 0 thr = Val qone /\ C12_slerp_I_R w x y z 1 thr = Val [w;x;y;z].
Proof.
  intros Hq Hw Hthr. rewrite !slerp_I_is_slerpI_M.
  destruct (slerpI_endpoints thr Hthr w x y z Hq Hw) as [A B]. split; f_equal; assumption.
Qed.

(* non-vacuity: a unit pair on the SLERP path (p.q = 3/5) and one on the sign-flip path *)
Example slerp_guard_inhabited :
  unit4 1 0 0 0 /\ unit4 (3/5) (4/5) 0 0 /\ Rabs (qdot [1;0;0;0] [3/5;4/5;0;0]) <= thr0 /\
  unit4 (-3/5) 0 (4/5) 0 /\ qdot [1;0;0;0] [-3/5;0;4/5;0] < 0.
Proof.
  unfold unit4, thr0. unfold_q. repeat split; try lra.
  replace (1 * (3/5) + 0 * (4/5) + 0 * 0 + 0 * 0) with (3/5) by field. rewrite Rabs_right; lra.
Qed.
