(* C12_inst_b.v — small fixed-N instances of the in-place list code, REGENERATED from /repo (symbolic valid rows, a concrete
   NaN mask written as real NaN floats into the traced QuaternionArray(rows, versors=False)), proved equal to the same instance
   of the hand model coq/model/C12_lists.v instantiated with real quaternions and the regenerated slerp. *)
From Coq Require Import Reals List Lra Psatz Arith Lia.
From AhrsLib Require Import Base Rot.
From AhrsModel Require Import C12_lists.
From AhrsGen Require Import C12gen_R.
From AhrsProps Require Import C12_math C12_gen C12_lists_thm C12_lists_R.
Import ListNotations.
Open Scope R_scope.

Theorem inst_sni_0110 r0w r0x r0y r0z r3w r3x r3y r3z : nz4 r0w r0x r0y r0z -> nz4 r3w r3x r3y r3z ->
  C12_sni_0110_R r0w r0x r0y r0z r3w r3x r3y r3z =
  Val (flat (slerp_nanR [Some (r0w, r0x, r0y, r0z); None; None; Some (r3w, r3x, r3y, r3z)]) ++
       flat (slerp_nanR [Some (r0w, r0x, r0y, r0z); None; None; Some (r3w, r3x, r3y, r3z)])).
Proof. unfold C12_sni_0110_R, slerp_nanR. rewrite eval_sn_0110. inst_eq. Qed.
