(* C12_lists_R.v — the list models instantiated with real quaternions and the REGENERATED slerp:
   rows are 4-tuples of reals, negation is component-wise, the jump test is |b - a| > 1 (as the code computes it:
   the Euclidean norm of the row difference), and the interpolation is C12_slerp_R of the two rows at weight k/n. *)
From Coq Require Import Reals List Lra Psatz Arith Lia.
From AhrsLib Require Import Base Rot.
From AhrsModel Require Import C12_lists.
From AhrsGen Require Import C12gen_R.
From AhrsProps Require Import C12_math C12_gen C12_lists_thm.
Import ListNotations.
Open Scope R_scope.

Definition quat : Type := (R * R * R * R)%type.
Definition ql (q : quat) : list R := let '(w, x, y, z) := q in [w; x; y; z].
Definition lq (l : list R) : quat := (e l 0, e l 1, e l 2, e l 3).
Definition negq (q : quat) : quat := let '(w, x, y, z) := q in (- w, - x, - y, - z).
Definition dist2 (a b : quat) : R :=
  let '(a0, a1, a2, a3) := a in let '(b0, b1, b2, b3) := b in
  (b0 - a0) * (b0 - a0) + (b1 - a1) * (b1 - a1) + (b2 - a2) * (b2 - a2) + (b3 - a3) * (b3 - a3).
Definition jumpq (a b : quat) : bool := if Rlt_dec 1 (sqrt (dist2 a b)) then true else false.
Definition unitq4 (q : quat) : Prop := let '(w, x, y, z) := q in unit4 w x y z.
(* slerp(a, b, [k/n]) through the regenerated function *)
Definition interpq (a b : quat) (k n : nat) : quat :=
  let '(a0, a1, a2, a3) := a in let '(b0, b1, b2, b3) := b in
  match C12_slerp_R a0 a1 a2 a3 b0 b1 b2 b3 (INR k / INR n) with Val r => lq r | Raise _ => a end.

Lemma negq_invol a : negq (negq a) = a.
Proof. destruct a as [[[w x] y] z]. unfold negq. repeat f_equal; ring. Qed.
Lemma jumpq_neg_both a b : jumpq (negq a) (negq b) = jumpq a b.
Proof.
  destruct a as [[[a0 a1] a2] a3], b as [[[b0 b1] b2] b3]. unfold jumpq, negq, dist2.
  replace ((- b0 - - a0) * (- b0 - - a0) + (- b1 - - a1) * (- b1 - - a1) + (- b2 - - a2) * (- b2 - - a2) + (- b3 - - a3) * (- b3 - - a3))
    with ((b0 - a0) * (b0 - a0) + (b1 - a1) * (b1 - a1) + (b2 - a2) * (b2 - a2) + (b3 - a3) * (b3 - a3)) by ring.
  reflexivity.
Qed.
Lemma unitq4_neg a : unitq4 a -> unitq4 (negq a).
Proof. destruct a as [[[w x] y] z]. unfold unitq4, negq, unit4. intros H. rewrite <- H. ring. Qed.

(* for unit rows |b - a|^2 = 2 - 2 a.b: the jump test fires iff a.b < 1/2, and a jumping pair is close after one flip
   as soon as a.b <= -1/2, i.e. the two rows are within 60 degrees (on S^3) of being antipodal *)
Lemma dist2_unit a b : unitq4 a -> unitq4 b -> dist2 a b = 2 - 2 * qdot (ql a) (ql b).
Proof.
  destruct a as [[[a0 a1] a2] a3], b as [[[b0 b1] b2] b3]. unfold unitq4, unit4, dist2, ql. unfold_q. intros Ha Hb.
  replace ((b0 - a0) * (b0 - a0) + (b1 - a1) * (b1 - a1) + (b2 - a2) * (b2 - a2) + (b3 - a3) * (b3 - a3))
    with ((a0*a0 + a1*a1 + a2*a2 + a3*a3) + (b0*b0 + b1*b1 + b2*b2 + b3*b3) - 2 * (a0*b0 + a1*b1 + a2*b2 + a3*b3)) by ring.
  rewrite Ha, Hb. ring.
Qed.
Lemma jumpq_iff a b : jumpq a b = true <-> 1 < dist2 a b.
Proof.
  unfold jumpq. destruct (Rlt_dec 1 (sqrt (dist2 a b))) as [H|H]; split; intros G; try reflexivity; try discriminate.
  - destruct (Rle_dec (dist2 a b) 1) as [L|L]; [|lra]. exfalso.
    assert (sqrt (dist2 a b) <= sqrt 1) by (apply sqrt_le_1_alt; exact L). rewrite sqrt_1 in H0. lra.
  - exfalso. apply H. rewrite <- sqrt_1. apply sqrt_lt_1_alt. lra.
Qed.
Lemma antipodal_close a b : unitq4 a -> unitq4 b -> qdot (ql a) (ql b) <= -1/2 -> jumpq a (negq b) = false.
Proof.
  intros Ha Hb H. destruct (jumpq a (negq b)) eqn:J; [|reflexivity]. exfalso.
  apply jumpq_iff in J. rewrite dist2_unit in J by (try apply unitq4_neg; assumption).
  destruct b as [[[b0 b1] b2] b3]. destruct a as [[[a0 a1] a2] a3]. unfold negq, ql in *. revert J H. unfold_q. intros. lra.
Qed.

(* every interpolant is a unit quaternion on the geodesic of its two neighbours *)
Lemma interpq_unit a b k n : unitq4 a -> unitq4 b -> unitq4 (interpq a b k n).
Proof.
  destruct a as [[[a0 a1] a2] a3], b as [[[b0 b1] b2] b3]. unfold unitq4, interpq. intros Ha Hb.
  rewrite slerp_is_slerpM. destruct (slerpM_unit thr0 thr0_lt_1 a0 a1 a2 a3 b0 b1 b2 b3 Ha Hb (INR k / INR n)) as [L U].
  exact U.
Qed.
Lemma interpq_geodesic a b k n : unitq4 a -> unitq4 b -> Rabs (qdot (ql a) (ql b)) <= thr0 ->
  qdot (ql a) (ql (interpq a b k n)) = cos (acos (Rabs (qdot (ql a) (ql b))) * (INR k / INR n)).
Proof.
  destruct a as [[[a0 a1] a2] a3], b as [[[b0 b1] b2] b3]. unfold unitq4, interpq, ql. intros Ha Hb HD.
  rewrite slerp_is_slerpM.
  destruct (slerpM_speed thr0 thr0_lt_1 a0 a1 a2 a3 b0 b1 b2 b3 Ha Hb (INR k / INR n) HD) as [S1 _].
  rewrite <- S1. unfold lq. unfold_q. reflexivity.
Qed.

Definition slerp_nanR := slerp_nan negq jumpq interpq.
Definition remove_jumpsR := remove_jumps negq jumpq.

Example lists_nonvacuous :
  get_nan_intervals [false; true; false; true; true; true; false; false; true; true] = [(1, 1); (3, 5); (8, 9)]%nat /\
  get_nan_intervals [false; false; false] = [] /\
  maxrun [false; true; true; false] 1 2.
Proof.
  split; [reflexivity|]. split; [reflexivity|]. unfold maxrun. repeat split; try lia.
  - intros i Hi. assert (i = 1 \/ i = 2)%nat as [-> | ->] by lia; reflexivity.
  - intros j Hj. injection Hj as ->. reflexivity.
Qed.

(* the weights of a gap of ANY length L: exactly L interpolants, the (k+1)-th at weight (k+1)/(L+1), strictly inside (0,1) *)
Lemma fill_weights (a b : quat) (L k : nat) : (k < L)%nat ->
  length (interpolants interpq a b L) = L /\ nth k (interpolants interpq a b L) None = Some (interpq a b (S k) (S L)) /\
  0 < INR (S k) / INR (S L) < 1.
Proof.
  intros H. split; [apply interpolants_length|]. split; [apply nth_interpolants; exact H|].
  assert (0 < INR (S k)) by (apply lt_0_INR; lia). assert (INR (S k) < INR (S L)) by (apply lt_INR; lia).
  split; [apply Rdiv_lt_0_compat; lra|]. apply Rmult_lt_reg_r with (INR (S L)); [lra|].
  unfold Rdiv. rewrite Rmult_assoc, Rinv_l by lra. lra.
Qed.

(* ======================================================================================
   small fixed-N instances: the model evaluated on concrete shapes, and the tactic that compares a REGENERATED
   instance of the in-place list code (C12_inst_*.v) with it
   ====================================================================================== *)
(* ---- the model evaluated on the concrete shapes, for any row type -------------------------------------------- *)
Section Eval.
  Variable A : Type.
  Variable negx : A -> A.
  Variable jump : A -> A -> bool.
  Variable interp : A -> A -> nat -> nat -> A.
  Notation RJ := (remove_jumps negx jump).
  Notation SN := (slerp_nan negx jump interp).

  Lemma eval_rj3 a b c : RJ [Some a; Some b; Some c] =
    if jump a b then (if jump b c then [Some a; Some (negx b); Some c] else [Some a; Some (negx b); Some (negx c)])
    else (if jump b c then [Some a; Some b; Some (negx c)] else [Some a; Some b; Some c]).
  Proof. unfold remove_jumps, jump_indices. simpl jump_flags. destruct (jump a b), (jump b c); reflexivity. Qed.

  Lemma eval_sn_010 a c : SN [Some a; None; Some c] = Some [Some a; Some (interp a c 1 2); Some c].
  Proof. reflexivity. Qed.
  Lemma eval_sn_0110 a d : SN [Some a; None; None; Some d] = Some [Some a; Some (interp a d 1 3); Some (interp a d 2 3); Some d].
  Proof. reflexivity. Qed.
  Lemma eval_sn_0010 a b d : SN [Some a; Some b; None; Some d] =
    if jump a b then Some [Some a; Some (negx b); Some (interp (negx b) (negx d) 1 2); Some (negx d)]
    else Some [Some a; Some b; Some (interp b d 1 2); Some d].
  Proof. unfold slerp_nan, remove_jumps, jump_indices. simpl jump_flags. destruct (jump a b); reflexivity. Qed.
  Lemma eval_sn_01010 a c e : SN [Some a; None; Some c; None; Some e] =
    Some [Some a; Some (interp a c 1 2); Some c; Some (interp c e 1 2); Some e].
  Proof. reflexivity. Qed.
End Eval.

Section Eval4.
  Variable A : Type.
  Variable negx : A -> A.
  Variable jump : A -> A -> bool.
  Lemma eval_rj4 a b c d : remove_jumps negx jump [Some a; Some b; Some c; Some d] =
    let s1 := jump a b in let s2 := xorb s1 (jump b c) in let s3 := xorb s2 (jump c d) in
    [Some a; Some (if s1 then negx b else b); Some (if s2 then negx c else c); Some (if s3 then negx d else d)].
  Proof. unfold remove_jumps, jump_indices. simpl jump_flags. destruct (jump a b), (jump b c), (jump c d); reflexivity. Qed.
End Eval4.

(* ---- flattening the model's answer to the list of numbers the traced call returns ---------------------------- *)
Definition flat_rows (l : list (option quat)) : list R :=
  flat_map (fun r => match r with Some q => ql q | None => [] end) l.
Definition flat (o : option (list (option quat))) : list R := match o with Some l => flat_rows l | None => [] end.
Definition nz4 (a b c d : R) : Prop := 0 < a*a + b*b + c*c + d*d.

(* the constructor's non-zero gate *)
Ltac gate_pos :=
  repeat match goal with
  | |- context [Rlt_dec 0 (sqrt ?e)] =>
      let H := fresh in
      destruct (Rlt_dec 0 (sqrt e)) as [H|H]; [clear H | exfalso; apply H; apply sqrt_lt_R0; unfold nz4 in *; lra]
  end.
Ltac model_open :=
  cbv [flat flat_rows flat_map app ql lq interpq negq jumpq dist2 xorb];
  rewrite ?slerp_is_slerpM; cbv [thr0 slerpM slerp_core lerpn arc arc_s0 arc_s1 lq]; cbv zeta; unfold_q; simpl INR.
Ltac consts := try replace (1 + 1 + 1) with 3 by ring; try replace (1 + 1) with 2 by ring.
Ltac inst_eq :=
  intros; cbv zeta; gate_pos; model_open; consts; unify_fn sqrt; split_paths; cbv [app];
  unfold Rdiv; unify_atoms; val_eq; ring.

