(* C12_lists_R.v — the list models instantiated with real quaternions and the REGENERATED slerp:
   rows are 4-tuples of reals, negation is component-wise, the jump test is |b - a| > 1 (as the code computes it:
   the Euclidean norm of the row difference), and the interpolation is C12_slerp_R of the two rows at weight k/n. *)
From Coq Require Import Reals List Lra Psatz Arith Lia.
From AhrsLib Require Import Base Rot.
From AhrsModel Require Import C12_lists.
From AhrsGen Require Import C12gen_R.
From AhrsProps Require Import C12_math C12_gen C12_lists_thm.
Import ListNotations.
Open Scope R_scope.

Definition quat : Type := (R * R * R * R)%type.
Definition ql (q : quat) : list R := let '(w, x, y, z) := q in [w; x; y; z].
Definition lq (l : list R) : quat := (e l 0, e l 1, e l 2, e l 3).
Definition negq (q : quat) : quat := let '(w, x, y, z) := q in (- w, - x, - y, - z).
Definition dist2 (a b : quat) : R :=
  let '(a0, a1, a2, a3) := a in let '(b0, b1, b2, b3) := b in
  (b0 - a0) * (b0 - a0) + (b1 - a1) * (b1 - a1) + (b2 - a2) * (b2 - a2) + (b3 - a3) * (b3 - a3).
Definition jumpq (a b : quat) : bool := if Rlt_dec 1 (sqrt (dist2 a b)) then true else false.
Definition unitq4 (q : quat) : Prop := let '(w, x, y, z) := q in unit4 w x y z.
(* slerp(a, b, [k/n]) through the regenerated function *)
Definition interpq (a b : quat) (k n : nat) : quat :=
  let '(a0, a1, a2, a3) := a in let '(b0, b1, b2, b3) := b in
  match C12_slerp_R a0 a1 a2 a3 b0 b1 b2 b3 (INR k / INR n) with Val r => lq r | Raise _ => a end.

Lemma negq_invol a : negq (negq a) = a.
Proof. destruct a as [[[w x] y] z]. unfold negq. repeat f_equal; ring. Qed.
Lemma jumpq_neg_both a b : jumpq (negq a) (negq b) = jumpq a b.
Proof.
  destruct a as [[[a0 a1] a2] a3], b as [[[b0 b1] b2] b3]. unfold jumpq, negq, dist2.
  replace ((- b0 - - a0) * (- b0 - - a0) + (- b1 - - a1) * (- b1 - - a1) + (- b2 - - a2) * (- b2 - - a2) + (- b3 - - a3) * (- b3 - - a3))
    with ((b0 - a0) * (b0 - a0) + (b1 - a1) * (b1 - a1) + (b2 - a2) * (b2 - a2) + (b3 - a3) * (b3 - a3)) by ring.
  reflexivity.
Qed.
Lemma unitq4_neg a : unitq4 a -> unitq4 (negq a).
Proof. destruct a as [[[w x] y] z]. unfold unitq4, negq, unit4. intros H. rewrite <- H. ring. Qed.

(* for unit rows |b - a|^2 = 2 - 2 a.b: the jump test fires iff a.b < 1/2, and a jumping pair is close after one flip
   as soon as a.b <= -1/2, i.e. the two rows are within 60 degrees (on S^3) of being antipodal *)
Lemma dist2_unit a b : unitq4 a -> unitq4 b -> dist2 a b = 2 - 2 * qdot (ql a) (ql b).
Proof.
  destruct a as [[[a0 a1] a2] a3], b as [[[b0 b1] b2] b3]. unfold unitq4, unit4, dist2, ql. unfold_q. intros Ha Hb.
  replace ((b0 - a0) * (b0 - a0) + (b1 - a1) * (b1 - a1) + (b2 - a2) * (b2 - a2) + (b3 - a3) * (b3 - a3))
    with ((a0*a0 + a1*a1 + a2*a2 + a3*a3) + (b0*b0 + b1*b1 + b2*b2 + b3*b3) - 2 * (a0*b0 + a1*b1 + a2*b2 + a3*b3)) by ring.
  rewrite Ha, Hb. ring.
Qed.
Lemma jumpq_iff a b : jumpq a b = true <-> 1 < dist2 a b.
Proof.
  unfold jumpq. destruct (Rlt_dec 1 (sqrt (dist2 a b))) as [H|H]; split; intros G; try reflexivity; try discriminate.
  - destruct (Rle_dec (dist2 a b) 1) as [L|L]; [|lra]. exfalso.
    assert (sqrt (dist2 a b) <= sqrt 1) by (apply sqrt_le_1_alt; exact L). rewrite sqrt_1 in H0. lra.
  - exfalso. apply H. rewrite <- sqrt_1. apply sqrt_lt_1_alt. lra.
Qed.
Lemma antipodal_close a b : unitq4 a -> unitq4 b -> qdot (ql a) (ql b) <= -1/2 -> jumpq a (negq b) = false.
Proof.
  intros Ha Hb H. destruct (jumpq a (negq b)) eqn:J; [|reflexivity]. exfalso.
  apply jumpq_iff in J. rewrite dist2_unit in J by (try apply unitq4_neg; assumption).
  destruct b as [[[b0 b1] b2] b3]. destruct a as [[[a0 a1] a2] a3]. unfold negq, ql in *. revert J H. unfold_q. intros. lra.
Qed.

(* every interpolant is a unit quaternion on the geodesic of its two neighbours *)
Lemma interpq_unit a b k n : unitq4 a -> unitq4 b -> unitq4 (interpq a b k n).
Proof.
  destruct a as [[[a0 a1] a2] a3], b as [[[b0 b1] b2] b3]. unfold unitq4, interpq. intros Ha Hb.
  rewrite slerp_is_slerpM. destruct (slerpM_unit thr0 thr0_lt_1 a0 a1 a2 a3 b0 b1 b2 b3 Ha Hb (INR k / INR n)) as [L U].
  exact U.
Qed.
Lemma interpq_geodesic a b k n : unitq4 a -> unitq4 b -> Rabs (qdot (ql a) (ql b)) <= thr0 ->
  qdot (ql a) (ql (interpq a b k n)) = cos (acos (Rabs (qdot (ql a) (ql b))) * (INR k / INR n)).
Proof.
  destruct a as [[[a0 a1] a2] a3], b as [[[b0 b1] b2] b3]. unfold unitq4, interpq, ql. intros Ha Hb HD.
  rewrite slerp_is_slerpM.
  destruct (slerpM_speed thr0 thr0_lt_1 a0 a1 a2 a3 b0 b1 b2 b3 Ha Hb (INR k / INR n) HD) as [S1 _].
  rewrite <- S1. unfold lq. unfold_q. reflexivity.
Qed.

Definition slerp_nanR := slerp_nan negq jumpq interpq.
Definition remove_jumpsR := remove_jumps negq jumpq.

Example lists_nonvacuous :
  get_nan_intervals [false; true; false; true; true; true; false; false; true; true] = [(1, 1); (3, 5); (8, 9)]%nat /\
  get_nan_intervals [false; false; false] = [] /\
  maxrun [false; true; true; false] 1 2.
Proof.
  split; [reflexivity|]. split; [reflexivity|]. unfold maxrun. repeat split; try lia.
  - intros i Hi. assert (i = 1 \/ i = 2)%nat as [-> | ->] by lia; reflexivity.
  - intros j Hj. injection Hj as ->. reflexivity.
Qed.
