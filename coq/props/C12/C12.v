(* C12.v — property C12: SLERP follows the shortest geodesic at constant speed; NaN gaps are filled along it.
   Statements only.  p = (a,b,c,d), q = (w,x,y,z); qdot, qlin (s0*p + s1*q), nearer (the antipode of q nearer to p)
   are defined in C12_math.v; C12_*_R are regenerated from /repo on every run. *)
From Coq Require Import Reals List Lra Arith.
From AhrsLib Require Import Base Rot.
From AhrsModel Require Import C12_lists.
From AhrsGen Require Import C12gen_R.
From AhrsProps Require Import C12_math C12_gen C12_lists_thm C12_lists_R C12_lerp C12_lerp_gen.
Import ListNotations.
Open Scope R_scope.

(* ---- SLERP proper ------------------------------------------------------------------------ *)
(* every interpolant is a unit quaternion: all four paths (sign flip x LERP/SLERP), every threshold < 1, every real weight *)
Theorem C12_slerp_unit : forall a b c d w x y z t thr, unit4 a b c d -> unit4 w x y z -> thr < 1 ->
  exists r, C12_slerp_thr_R a b c d w x y z t thr = Val r /\ length r = 4%nat /\ qnorm2 r = 1.
Proof. intros a b c d w x y z t thr Hp Hq H. exact (gen_unit a b c d w x y z Hp Hq thr t H). Qed.
Print Assumptions C12_slerp_unit.

(* starts at the first endpoint, ends at the second or its antipode, whichever is nearer *)
Theorem C12_slerp_endpoints : forall a b c d w x y z thr, unit4 a b c d -> unit4 w x y z -> thr < 1 ->
  C12_slerp_thr_R a b c d w x y z 0 thr = Val [a;b;c;d] /\
  C12_slerp_thr_R a b c d w x y z 1 thr = Val (nearer [a;b;c;d] [w;x;y;z]).
Proof. intros a b c d w x y z thr Hp Hq H. exact (gen_endpoints a b c d w x y z Hp Hq thr H). Qed.
Print Assumptions C12_slerp_endpoints.

(* constant angular speed on the SLERP paths (|p.q| <= thr): the angle from p is t*theta0 and the angle to the nearer
   antipode of q is (1-t)*theta0, theta0 = acos|p.q| *)
Theorem C12_slerp_constant_speed : forall a b c d w x y z t thr, unit4 a b c d -> unit4 w x y z -> thr < 1 ->
  Rabs (qdot [a;b;c;d] [w;x;y;z]) <= thr ->
  exists r, C12_slerp_thr_R a b c d w x y z t thr = Val r /\
            qdot [a;b;c;d] r = cos (acos (Rabs (qdot [a;b;c;d] [w;x;y;z])) * t) /\
            qdot r (nearer [a;b;c;d] [w;x;y;z]) = cos (acos (Rabs (qdot [a;b;c;d] [w;x;y;z])) * (1 - t)).
Proof. intros a b c d w x y z t thr Hp Hq H HD. exact (gen_speed a b c d w x y z Hp Hq thr t H HD). Qed.
Print Assumptions C12_slerp_constant_speed.

(* two interpolants of ONE call are (t-s)*theta0 apart, and a two-weight call returns the rows of the one-weight calls *)
Theorem C12_slerp_two_weights : forall a b c d w x y z s t, unit4 a b c d -> unit4 w x y z ->
  Rabs (qdot [a;b;c;d] [w;x;y;z]) <= 1999/2000 ->
  exists r1 r2, C12_slerp2_R a b c d w x y z s t = Val (r1 ++ r2) /\
                C12_slerp_R a b c d w x y z s = Val r1 /\ C12_slerp_R a b c d w x y z t = Val r2 /\
                qdot r1 r2 = cos (acos (Rabs (qdot [a;b;c;d] [w;x;y;z])) * (t - s)).
Proof. intros a b c d w x y z s t Hp Hq HD. exact (gen_two_weights a b c d w x y z Hp Hq s t HD). Qed.
Print Assumptions C12_slerp_two_weights.

(* minor arc: for weights in [0,1] the interpolant is a non-negative combination of p and the nearer antipode of q
   (with unit norm and the angle law above this is the minor great arc), on every path *)
Theorem C12_slerp_on_minor_arc : forall a b c d w x y z t thr, unit4 a b c d -> unit4 w x y z -> thr < 1 -> 0 <= t <= 1 ->
  exists s0 s1, 0 <= s0 /\ 0 <= s1 /\
    C12_slerp_thr_R a b c d w x y z t thr = Val (qlin s0 s1 [a;b;c;d] (nearer [a;b;c;d] [w;x;y;z])).
Proof. intros a b c d w x y z t thr Hp Hq H Ht. exact (gen_minor_arc a b c d w x y z Hp Hq thr t H Ht). Qed.
Print Assumptions C12_slerp_on_minor_arc.

(* replacing an endpoint by its negative does not change the path (q -> -q: identical; p -> -p: every row negated,
   the same rotations), whenever one antipode IS nearer (p.q <> 0); no norm hypothesis *)
Theorem C12_slerp_antipode_invariant : forall a b c d w x y z t thr, qdot [a;b;c;d] [w;x;y;z] <> 0 ->
  C12_slerp_thr_R a b c d (-w) (-x) (-y) (-z) t thr = C12_slerp_thr_R a b c d w x y z t thr /\
  forall r, C12_slerp_thr_R a b c d w x y z t thr = Val r ->
            C12_slerp_thr_R (-a) (-b) (-c) (-d) w x y z t thr = Val (qneg r) /\
            C12_slerp_thr_R (-a) (-b) (-c) (-d) (-w) (-x) (-y) (-z) t thr = Val (qneg r).
Proof. intros a b c d w x y z t thr H. exact (gen_antipode a b c d w x y z t thr H). Qed.
Print Assumptions C12_slerp_antipode_invariant.
(* on the tie p.q = 0 neither antipode is nearer: the code goes to q, resp. to -q, which are different paths; the guard is needed *)
Theorem C12_slerp_antipode_tie : C12_slerp_R 1 0 0 0 (-0) (-1) (-0) (-0) (1/2) <> C12_slerp_R 1 0 0 0 0 1 0 0 (1/2).
Proof. exact gen_tie_differs. Qed.
Print Assumptions C12_slerp_antipode_tie.

(* the default threshold, and the second copy in ahrs.common.orientation, are the same function *)
Theorem C12_slerp_copies_agree : forall a b c d w x y z t,
  C12_slerp_R a b c d w x y z t = C12_slerp_thr_R a b c d w x y z t (1999/2000) /\
  C12_oslerp_R a b c d w x y z t = C12_slerp_R a b c d w x y z t.
Proof. intros. exact (gen_default_threshold a b c d w x y z t). Qed.
Print Assumptions C12_slerp_copies_agree.

(* AQUA's interpolation with the identity: unit; identity at 0, q at 1; constant speed and minor arc on its SLERP branch *)
Theorem C12_slerp_I : forall w x y z t thr, unit4 w x y z -> -1 < w -> thr < 1 -> 0 <= t <= 1 ->
  (exists r, C12_slerp_I_R w x y z t thr = Val r /\ length r = 4%nat /\ qnorm2 r = 1 /\
            (w <= thr -> e r 0 = cos (acos w * t) /\ exists s0 s1, 0 <= s0 /\ 0 <= s1 /\ r = qlin s0 s1 qone [w;x;y;z])) /\
  C12_slerp_I_R w x y z 0 thr = Val qone /\ C12_slerp_I_R w x y z 1 thr = Val [w;x;y;z].
Proof.
  intros w x y z t thr Hq Hw H Ht. split; [exact (gen_slerp_I w x y z t thr Hq Hw H Ht)|exact (gen_slerp_I_endpoints w x y z thr Hq Hw H)].
Qed.
Print Assumptions C12_slerp_I.

(* ---- the LERP branch (|p.q| above the threshold) ------------------------------------------------------------------ *)
(* the normalised chord point is within 1 - cos <= theta0^6/288 (an angle of about theta0^3/12) of the constant-speed
   geodesic point arc(t) of the SAME weight, for every threshold in [0,1) *)
Theorem C12_lerp_near_geodesic : forall a b c d w x y z thr t, unit4 a b c d -> unit4 w x y z -> 0 <= thr < 1 ->
  thr < Rabs (qdot [a;b;c;d] [w;x;y;z]) < 1 -> 0 <= t <= 1 ->
  exists r, C12_slerp_thr_R a b c d w x y z t thr = Val r /\
            1 - (acos (Rabs (qdot [a;b;c;d] [w;x;y;z]))) ^ 6 / 288
            <= qdot r (arc [a;b;c;d] (nearer [a;b;c;d] [w;x;y;z]) (Rabs (qdot [a;b;c;d] [w;x;y;z])) t) <= 1.
Proof. intros a b c d w x y z thr t Hp Hq Ht HD H. exact (gen_lerp_near_geodesic a b c d w x y z thr Hp Hq Ht HD t H). Qed.
Print Assumptions C12_lerp_near_geodesic.
(* the numeric corollary for the shipped threshold (C12_lerp_default_bound) is stated in C12_instances.v *)
(* and it advances monotonically: p.r(t) strictly decreases in t on [0,1] *)
Theorem C12_lerp_monotone : forall a b c d w x y z thr t1 t2, unit4 a b c d -> unit4 w x y z -> 0 <= thr < 1 ->
  thr < Rabs (qdot [a;b;c;d] [w;x;y;z]) < 1 -> 0 <= t1 -> t1 < t2 -> t2 <= 1 ->
  exists r1 r2, C12_slerp_thr_R a b c d w x y z t1 thr = Val r1 /\ C12_slerp_thr_R a b c d w x y z t2 thr = Val r2 /\
                qdot [a;b;c;d] r2 < qdot [a;b;c;d] r1.
Proof. intros a b c d w x y z thr t1 t2 Hp Hq Ht HD H0 H12 H1. exact (gen_lerp_monotone a b c d w x y z thr Hp Hq Ht HD t1 t2 H0 H12 H1). Qed.
Print Assumptions C12_lerp_monotone.

Example C12_slerp_nonvacuous :
  unit4 1 0 0 0 /\ unit4 (3/5) (4/5) 0 0 /\ Rabs (qdot [1;0;0;0] [3/5;4/5;0;0]) <= 1999/2000 /\
  unit4 (-3/5) 0 (4/5) 0 /\ qdot [1;0;0;0] [-3/5;0;4/5;0] < 0.
Proof. exact slerp_guard_inhabited. Qed.

(* ---- the list bookkeeping (hand models of coq/model/C12_lists.v, tied to the code by correspondence) ---------- *)
(* get_nan_intervals returns exactly the maximal runs of NaN rows, in increasing order; none when there is no NaN row *)
Theorem C12_nan_intervals_are_maximal_runs : forall (m : list bool) (s e : nat),
  (In (s, e) (get_nan_intervals m) <->
     (s <= e)%nat /\ (forall i, (s <= i <= e)%nat -> nth i m false = true) /\
     (forall j, S j = s -> nth j m false = false) /\ nth (S e) m false = false) /\
  inc_from 0 (map fst (get_nan_intervals m)) /\
  ((forall i, nth i m false = false) -> get_nan_intervals m = []).
Proof.
  intros m s e. split; [exact (nan_intervals_are_maximal_runs m s e)|].
  split; [exact (nan_intervals_increasing m)|exact (nan_intervals_no_nan m)].
Qed.
Print Assumptions C12_nan_intervals_are_maximal_runs.

(* remove_jumps / q_correct: row i is multiplied by (-1)^(number of jumps at or before i) — the same rotations —,
   for every length and every jump pattern; the sign changes exactly at the jumps *)
Theorem C12_remove_jumps_spec : forall (rows : list (option quat)) (i : nat), (i < length rows)%nat ->
  length (remove_jumpsR rows) = length rows /\
  nth i (remove_jumpsR rows) None = sgn quat negq (flipped quat jumpq rows i) (nth i rows None) /\
  flipped quat jumpq rows 0 = false /\
  flipped quat jumpq rows (S i) = xorb (flipped quat jumpq rows i) (nth i (jump_flags jumpq rows) false).
Proof.
  intros rows i Hi. split; [exact (remove_jumps_length quat negq jumpq rows)|].
  split; [exact (remove_jumps_spec quat negq jumpq negq_invol rows i Hi)|].
  split; [exact (flipped_0 quat jumpq rows)|exact (flipped_succ quat jumpq rows i)].
Qed.
Print Assumptions C12_remove_jumps_spec.

(* ... and no jump remains, when the rows are unit and every jumping consecutive pair is within 60 degrees of antipodal
   (a.b <= -1/2; a pair with -1/2 < a.b < 1/2 is flagged as a jump by the |diff| > 1 test although no sign flip explains it) *)
Theorem C12_remove_jumps_no_jump : forall rows : list (option quat),
  (forall i a b, nth i rows None = Some a -> nth (S i) rows None = Some b -> unitq4 a /\ unitq4 b /\
                 (jumpq a b = true -> qdot (ql a) (ql b) <= -1/2)) ->
  forall i, nth i (jump_flags jumpq (remove_jumpsR rows)) false = false.
Proof.
  intros rows H. apply (remove_jumps_no_jump quat negq jumpq negq_invol jumpq_neg_both).
  intros i a b Ea Eb J. destruct (H i a b Ea Eb) as (Ua & Ub & K). apply antipodal_close; [exact Ua|exact Ub|exact (K J)].
Qed.
Print Assumptions C12_remove_jumps_no_jump.

(* slerp_nan: defined for every array whose first and last rows are valid (every position and length of interior runs);
   valid rows keep their value up to the sign the jump removal gives them; an interior run of L NaN rows between the valid rows
   a (row s') and b (row e+1) becomes slerp(a', b', k/(L+1)), k = 1..L, computed by the REGENERATED slerp on the
   jump-corrected neighbours *)
Theorem C12_slerp_nan_spec : forall (rows out : list (option quat)), slerp_nanR rows = Some out ->
  length out = length rows /\
  (forall i v, (i < length rows)%nat -> nth i rows None = Some v ->
               nth i out None = sgn quat negq (flipped quat jumpq rows i) (Some v)) /\
  (forall s' e a b, maxrun (nan_mask rows) (S s') e -> nth s' rows None = Some a -> nth (S e) rows None = Some b ->
     forall k, (1 <= k <= e - s')%nat ->
     exists a' b', sgn quat negq (flipped quat jumpq rows s') (Some a) = Some a' /\
                   sgn quat negq (flipped quat jumpq rows (S e)) (Some b) = Some b' /\
                   nth (s' + k) out None = Some (interpq a' b' k (S (e - s')))).
Proof. intros rows out H. exact (slerp_nan_spec quat negq jumpq interpq negq_invol rows out H). Qed.
Print Assumptions C12_slerp_nan_spec.

(* the weights, for a gap of ANY length L: exactly L rows are written and the (k+1)-th is slerp at weight (k+1)/(L+1), strictly
   between 0 and 1 (np.linspace(0, 1, L+2)[1:-1]); the code is swept over every L = 1..260 (..1000) against this by the oracle gap_sweep *)
Theorem C12_fill_weights : forall (a b : quat) (L k : nat), (k < L)%nat ->
  length (interpolants interpq a b L) = L /\ nth k (interpolants interpq a b L) None = Some (interpq a b (S k) (S L)) /\
  0 < INR (S k) / INR (S L) < 1.
Proof. intros a b L k H. exact (fill_weights a b L k H). Qed.
Print Assumptions C12_fill_weights.

Theorem C12_slerp_nan_defined : forall (rows : list (option quat)) v0 v1,
  nth 0 rows None = Some v0 -> nth (pred (length rows)) rows None = Some v1 -> exists out, slerp_nanR rows = Some out.
Proof.
  intros rows v0 v1 H0 H1. unfold slerp_nanR, slerp_nan.
  assert (L : (0 < length rows)%nat) by (destruct rows; [discriminate H0|simpl; apply Nat.lt_0_succ]).
  pose proof (remove_jumps_spec quat negq jumpq negq_invol rows 0 L) as E0. rewrite H0 in E0.
  assert (L1 : (pred (length rows) < length rows)%nat) by (destruct rows; [inversion L|simpl; apply Nat.lt_succ_diag_r]).
  pose proof (remove_jumps_spec quat negq jumpq negq_invol rows _ L1) as E1. rewrite H1 in E1.
  rewrite <- (remove_jumps_length quat negq jumpq rows) in E1 at 1.
  destruct (flipped quat jumpq rows 0), (flipped quat jumpq rows (pred (length rows))); simpl in E0, E1;
    eapply fill_nan_defined; eassumption.
Qed.
Print Assumptions C12_slerp_nan_defined.

(* each filled row is a unit quaternion, at angle (k/(L+1))*theta0 from its left neighbour on the SLERP path *)
Theorem C12_fill_on_geodesic : forall a b k n, unitq4 a -> unitq4 b ->
  unitq4 (interpq a b k n) /\
  (Rabs (qdot (ql a) (ql b)) <= 1999/2000 ->
   qdot (ql a) (ql (interpq a b k n)) = cos (acos (Rabs (qdot (ql a) (ql b))) * (INR k / INR n))).
Proof. intros a b k n Ha Hb. split; [exact (interpq_unit a b k n Ha Hb)|exact (interpq_geodesic a b k n Ha Hb)]. Qed.
Print Assumptions C12_fill_on_geodesic.

(* the regenerated fixed-N instances of the in-place list code are stated in C12_instances.v (compiled in parallel) *)

Example C12_lists_nonvacuous :
  get_nan_intervals [false; true; false; true; true; true; false; false; true; true] = [(1, 1); (3, 5); (8, 9)]%nat /\
  get_nan_intervals [false; false; false] = [] /\
  maxrun [false; true; true; false] 1 2.
Proof. exact lists_nonvacuous. Qed.
