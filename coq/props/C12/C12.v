(* stub *)
