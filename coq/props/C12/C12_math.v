(* C12_math.v — specification-level SLERP on flat lists and its geometry.  Independent of generated code:
   C12_gen.v proves that the regenerated functions ARE these terms, then transports the theorems. *)
From Coq Require Import Reals List Lra Psatz.
From AhrsLib Require Import Base Rot.
Import ListNotations.
Open Scope R_scope.

Definition qdot (p q : list R) : R := e p 0 * e q 0 + e p 1 * e q 1 + e p 2 * e q 2 + e p 3 * e q 3.
(* s0 * p + s1 * q *)
Definition qlin (s0 s1 : R) (p q : list R) : list R :=
  [s0 * e p 0 + s1 * e q 0; s0 * e p 1 + s1 * e q 1; s0 * e p 2 + s1 * e q 2; s0 * e p 3 + s1 * e q 3].
(* the antipode of q that is nearer to p (q itself on the tie p.q = 0) *)
Definition nearer (p q : list R) : list R := if Rlt_dec (qdot p q) 0 then qneg q else q.

(* normalised chord *)
Definition lerpn (p q : list R) (t : R) : list R :=
  let v := qlin (1 - t) t p q in qscale (/ sqrt (qnorm2 v)) v.
(* great-arc coefficients, written as the code writes them; D = cos of the subtended angle *)
Definition arc_s0 (D t : R) : R := cos (acos D * t) - D * sin (acos D * t) / sin (acos D).
Definition arc_s1 (D t : R) : R := sin (acos D * t) / sin (acos D).
Definition arc (p q : list R) (D t : R) : list R := qlin (arc_s0 D t) (arc_s1 D t) p q.
Definition slerp_core (thr : R) (p q : list R) (D t : R) : list R :=
  if Rlt_dec thr D then lerpn p q t else arc p q D t.
Definition slerpM (thr : R) (p q : list R) (t : R) : list R :=
  let D := qdot p q in
  if Rlt_dec D 0 then slerp_core thr p (qneg q) (- D) t else slerp_core thr p q D t.

Ltac unfold_q := cbv [qdot qlin qneg qnorm2 qscale e List.nth].

(* ---- bilinear bookkeeping (pure ring identities) --------------------------------------- *)
Lemma qnorm2_qlin s0 s1 p q :
  qnorm2 (qlin s0 s1 p q) = s0 * s0 * qnorm2 p + 2 * s0 * s1 * qdot p q + s1 * s1 * qnorm2 q.
Proof. unfold_q. ring. Qed.
Lemma qdot_qlin_l s0 s1 p q : qdot p (qlin s0 s1 p q) = s0 * qnorm2 p + s1 * qdot p q.
Proof. unfold_q. ring. Qed.
Lemma qdot_qlin_r s0 s1 p q : qdot (qlin s0 s1 p q) q = s0 * qdot p q + s1 * qnorm2 q.
Proof. unfold_q. ring. Qed.
Lemma qdot_qlin_qlin s0 s1 u0 u1 p q :
  qdot (qlin s0 s1 p q) (qlin u0 u1 p q) = s0 * u0 * qnorm2 p + (s0 * u1 + s1 * u0) * qdot p q + s1 * u1 * qnorm2 q.
Proof. unfold_q. ring. Qed.
Lemma qdot_neg_r p q : qdot p (qneg q) = - qdot p q.
Proof. unfold_q. ring. Qed.
Lemma qdot_neg_l p q : qdot (qneg p) q = - qdot p q.
Proof. unfold_q. ring. Qed.
Lemma qnorm2_neg q : qnorm2 (qneg q) = qnorm2 q.
Proof. unfold_q. ring. Qed.
Lemma qnorm2_scale k q : qnorm2 (qscale k q) = k * k * qnorm2 q.
Proof. unfold_q. ring. Qed.
Lemma qlin_len s0 s1 p q : length (qlin s0 s1 p q) = 4%nat. Proof. reflexivity. Qed.
Lemma qlin_1_0 a b c d q : qlin 1 0 [a;b;c;d] q = [a;b;c;d].
Proof. unfold_q. list_eq; ring. Qed.
Lemma qlin_0_1 p w x y z : qlin 0 1 p [w;x;y;z] = [w;x;y;z].
Proof. unfold_q. list_eq; ring. Qed.
Lemma qneg_qlin s0 s1 p q : qneg (qlin s0 s1 p q) = qlin s0 s1 (qneg p) (qneg q).
Proof. unfold_q. list_eq; ring. Qed.
Lemma qneg_qneg w x y z : qneg (qneg [w;x;y;z]) = [w;x;y;z].
Proof. unfold_q. list_eq; ring. Qed.

(* Cauchy-Schwarz through Lagrange's identity *)
Lemma cauchy_schwarz p q : qdot p q * qdot p q <= qnorm2 p * qnorm2 q.
Proof.
  assert (H : qnorm2 p * qnorm2 q - qdot p q * qdot p q =
              Rsqr (e p 0 * e q 1 - e p 1 * e q 0) + Rsqr (e p 0 * e q 2 - e p 2 * e q 0) + Rsqr (e p 0 * e q 3 - e p 3 * e q 0)
              + Rsqr (e p 1 * e q 2 - e p 2 * e q 1) + Rsqr (e p 1 * e q 3 - e p 3 * e q 1) + Rsqr (e p 2 * e q 3 - e p 3 * e q 2))
    by (unfold Rsqr; cbv [qdot qnorm2]; ring).
  pose proof (Rle_0_sqr (e p 0 * e q 1 - e p 1 * e q 0)). pose proof (Rle_0_sqr (e p 0 * e q 2 - e p 2 * e q 0)).
  pose proof (Rle_0_sqr (e p 0 * e q 3 - e p 3 * e q 0)). pose proof (Rle_0_sqr (e p 1 * e q 2 - e p 2 * e q 1)).
  pose proof (Rle_0_sqr (e p 1 * e q 3 - e p 3 * e q 1)). pose proof (Rle_0_sqr (e p 2 * e q 3 - e p 3 * e q 2)).
  lra.
Qed.

(* ---- the angle theta0 = acos D -------------------------------------------------------- *)
Lemma sin_acos_pos D : -1 < D < 1 -> 0 < sin (acos D).
Proof. intros H. apply sin_gt_0; apply (acos_bound_lt D H). Qed.
Lemma sin_acos_sq D : -1 <= D <= 1 -> sin (acos D) * sin (acos D) = 1 - D * D.
Proof.
  intros H. rewrite sin_acos by exact H. unfold Rsqr. apply sqrt_sqrt. nra.
Qed.

(* unit norm of the arc: s0^2 + 2 s0 s1 D + s1^2 = 1, for every real weight *)
Lemma arc_quadratic D t : -1 < D < 1 ->
  arc_s0 D t * arc_s0 D t + 2 * arc_s0 D t * arc_s1 D t * D + arc_s1 D t * arc_s1 D t = 1.
Proof.
  intros H. unfold arc_s0, arc_s1.
  pose proof (sin_acos_pos D H) as HS. pose proof (sin_acos_sq D ltac:(lra)) as HS2.
  pose proof (sin2_cos2 (acos D * t)) as H1. unfold Rsqr in H1.
  set (S := sin (acos D)) in *. set (st := sin (acos D * t)) in *. set (ct := cos (acos D * t)) in *.
  set (u := st / S).
  assert (Hu : u * S = st) by (unfold u; field; lra).
  replace (D * st / S) with (D * u) by (unfold u; field; lra).
  transitivity (ct * ct + u * u * (S * S)); [rewrite HS2; ring|].
  replace (u * u * (S * S)) with ((u * S) * (u * S)) by ring. rewrite Hu. lra.
Qed.

(* s0 + s1 D = cos(t theta0):  the angle from p grows linearly with the weight *)
Lemma arc_speed D t : arc_s0 D t + arc_s1 D t * D = cos (acos D * t).
Proof. unfold arc_s0, arc_s1. unfold Rdiv. ring. Qed.

(* s0 D + s1 = cos((1-t) theta0):  and the angle to q shrinks linearly *)
Lemma arc_speed_r D t : -1 < D < 1 -> arc_s0 D t * D + arc_s1 D t = cos (acos D * (1 - t)).
Proof.
  intros H. unfold arc_s0, arc_s1.
  pose proof (sin_acos_pos D H) as HS. pose proof (sin_acos_sq D ltac:(lra)) as HS2.
  replace (acos D * (1 - t)) with (acos D - acos D * t) by ring.
  rewrite cos_minus, cos_acos by lra.
  set (S := sin (acos D)) in *. set (st := sin (acos D * t)). set (ct := cos (acos D * t)).
  apply Rmult_eq_reg_r with S; [|lra].
  replace ((ct - D * st / S) * D + st / S) with ((ct * D * S - D * D * st + st) / S) by (field; lra).
  unfold Rdiv. rewrite Rmult_assoc, Rinv_l, Rmult_1_r by lra.
  replace (ct * D * S - D * D * st + st) with (ct * D * S + st * (1 - D * D)) by ring.
  rewrite <- HS2. ring.
Qed.

(* two weights: r(s).r(t) = cos((t-s) theta0) *)
Lemma arc_two_weights D s t : -1 < D < 1 ->
  arc_s0 D s * arc_s0 D t + (arc_s0 D s * arc_s1 D t + arc_s1 D s * arc_s0 D t) * D + arc_s1 D s * arc_s1 D t
  = cos (acos D * (t - s)).
Proof.
  intros H. unfold arc_s0, arc_s1.
  pose proof (sin_acos_pos D H) as HS. pose proof (sin_acos_sq D ltac:(lra)) as HS2.
  replace (acos D * (t - s)) with (acos D * t - acos D * s) by ring. rewrite cos_minus.
  set (S := sin (acos D)) in *.
  set (ss := sin (acos D * s)). set (cs := cos (acos D * s)). set (st := sin (acos D * t)). set (ct := cos (acos D * t)).
  set (u := ss / S). set (v := st / S).
  assert (Hu : u * S = ss) by (unfold u; field; lra). assert (Hv : v * S = st) by (unfold v; field; lra).
  replace (D * ss / S) with (D * u) by (unfold u; field; lra).
  replace (D * st / S) with (D * v) by (unfold v; field; lra).
  transitivity (ct * cs + u * v * (S * S)); [rewrite HS2; ring|].
  rewrite <- Hu, <- Hv. ring.
Qed.

(* the coefficients are sines of the two sub-angles over the sine of the whole: non-negative on [0,1] *)
Lemma arc_s0_sin D t : -1 < D < 1 -> arc_s0 D t = sin (acos D * (1 - t)) / sin (acos D).
Proof.
  intros H. unfold arc_s0. pose proof (sin_acos_pos D H) as HS.
  replace (acos D * (1 - t)) with (acos D - acos D * t) by ring.
  rewrite sin_minus, cos_acos by lra. field. lra.
Qed.
Lemma arc_coeffs_nonneg D t : -1 < D < 1 -> 0 <= t <= 1 -> 0 <= arc_s0 D t /\ 0 <= arc_s1 D t.
Proof.
  intros H Ht. pose proof (sin_acos_pos D H) as HS. pose proof (acos_bound_lt D H) as [B1 B2].
  split.
  - rewrite arc_s0_sin by exact H. apply Rmult_le_pos; [|left; apply Rinv_0_lt_compat; exact HS].
    apply sin_ge_0; nra.
  - unfold arc_s1. apply Rmult_le_pos; [|left; apply Rinv_0_lt_compat; exact HS].
    apply sin_ge_0; nra.
Qed.
Lemma arc_coeffs_0 D : arc_s0 D 0 = 1 /\ arc_s1 D 0 = 0.
Proof. unfold arc_s0, arc_s1. rewrite Rmult_0_r, sin_0, cos_0. unfold Rdiv. split; ring. Qed.
Lemma arc_coeffs_1 D : -1 < D < 1 -> arc_s0 D 1 = 0 /\ arc_s1 D 1 = 1.
Proof.
  intros H. pose proof (sin_acos_pos D H) as HS. unfold arc_s0, arc_s1. rewrite Rmult_1_r, cos_acos by lra.
  split; field; lra.
Qed.

(* ---- arc between unit quaternions ---------------------------------------------------- *)
Section Arc.
  Variables p q : list R.
  Hypothesis Hp : qnorm2 p = 1.
  Hypothesis Hq : qnorm2 q = 1.
  Let D := qdot p q.

  Lemma arc_unit t : -1 < D < 1 -> qnorm2 (arc p q D t) = 1.
  Proof. intros H. unfold arc. rewrite qnorm2_qlin, Hp, Hq. fold D. etransitivity; [|apply (arc_quadratic D t H)]. ring. Qed.
  Lemma arc_dot_p t : qdot p (arc p q D t) = cos (acos D * t).
  Proof. unfold arc. rewrite qdot_qlin_l, Hp. fold D. etransitivity; [|apply arc_speed]. ring. Qed.
  Lemma arc_dot_q t : -1 < D < 1 -> qdot (arc p q D t) q = cos (acos D * (1 - t)).
  Proof. intros H. unfold arc. rewrite qdot_qlin_r, Hq. fold D. etransitivity; [|apply (arc_speed_r D t H)]. ring. Qed.
  Lemma arc_dot_arc s t : -1 < D < 1 -> qdot (arc p q D s) (arc p q D t) = cos (acos D * (t - s)).
  Proof. intros H. unfold arc. rewrite qdot_qlin_qlin, Hp, Hq. fold D. etransitivity; [|apply (arc_two_weights D s t H)]. ring. Qed.

  (* ---- normalised chord --------------------------------------------------------------- *)
  Lemma chord_norm2 t : qnorm2 (qlin (1 - t) t p q) = (1 - t) * (1 - t) + 2 * (1 - t) * t * D + t * t.
  Proof. rewrite qnorm2_qlin, Hp, Hq. fold D. ring. Qed.
  Lemma D_le_1 : D <= 1.
  Proof. pose proof (cauchy_schwarz p q) as H. rewrite Hp, Hq in H. fold D in H. nra. Qed.
  Lemma chord_pos t : -1 < D -> 0 < qnorm2 (qlin (1 - t) t p q).
  Proof.
    intros H. rewrite chord_norm2. pose proof D_le_1 as H1.
    assert (K : 4 * t * (1 - t) <= 1) by (pose proof (Rle_0_sqr (2 * t - 1)) as K; unfold Rsqr in K; lra).
    replace ((1 - t) * (1 - t) + 2 * (1 - t) * t * D + t * t) with (1 - (4 * t * (1 - t)) * ((1 - D) / 2)) by field.
    set (k := 4 * t * (1 - t)) in *. set (m := (1 - D) / 2). assert (0 <= m < 1) by (unfold m; lra).
    destruct (Rle_dec k 0); nra.
  Qed.
  Lemma lerpn_unit t : -1 < D -> qnorm2 (lerpn p q t) = 1.
  Proof.
    intros H. unfold lerpn. cbv zeta. rewrite qnorm2_scale. pose proof (chord_pos t H) as HN.
    set (N := qnorm2 (qlin (1 - t) t p q)) in *.
    rewrite <- Rinv_mult by (apply sqrt_pos_ne0; exact HN). rewrite sqrt_sqrt by lra. field. lra.
  Qed.
End Arc.

Lemma qscale_qlin k s0 s1 p q : qscale k (qlin s0 s1 p q) = qlin (k * s0) (k * s1) p q.
Proof. unfold_q. list_eq; ring. Qed.

(* ========================================================================================
   slerpM: the four paths at once.  thr < 1; unit endpoints.
   ======================================================================================== *)
Section Slerp.
  Variable thr : R.
  Hypothesis Hthr : thr < 1.
  Variables a b c d w x y z : R.
  Hypothesis Hp : a*a + b*b + c*c + d*d = 1.
  Hypothesis Hq : w*w + x*x + y*y + z*z = 1.
  Let p := [a;b;c;d].
  Let q := [w;x;y;z].
  Let D := qdot p q.

  Lemma Hp' : qnorm2 p = 1. Proof. unfold p. unfold_q. exact Hp. Qed.
  Lemma Hq' : qnorm2 q = 1. Proof. unfold q. unfold_q. exact Hq. Qed.
  Lemma Hnq' : qnorm2 (qneg q) = 1. Proof. rewrite qnorm2_neg. exact Hq'. Qed.

  (* reduction to the non-negative case: slerpM = core applied to the nearer antipode *)
  Lemma slerpM_nearer t : slerpM thr p q t = slerp_core thr p (nearer p q) (Rabs D) t /\ qdot p (nearer p q) = Rabs D /\ 0 <= Rabs D
                          /\ qnorm2 (nearer p q) = 1.
  Proof.
    unfold slerpM, nearer. cbv zeta. fold D. destruct (Rlt_dec D 0) as [H|H].
    - rewrite Rabs_left by exact H. rewrite qdot_neg_r. fold D. repeat split; [lra|apply Hnq'].
    - rewrite Rabs_right by lra. repeat split; [lra|apply Hq'].
  Qed.

  Theorem slerpM_unit t : length (slerpM thr p q t) = 4%nat /\ qnorm2 (slerpM thr p q t) = 1.
  Proof.
    destruct (slerpM_nearer t) as (E & HD & H0 & Hn). rewrite E. unfold slerp_core.
    destruct (Rlt_dec thr (Rabs D)) as [H|H].
    - split; [reflexivity|]. apply lerpn_unit; [apply Hp'|exact Hn|rewrite HD; lra].
    - split; [reflexivity|]. rewrite <- HD. apply arc_unit; [apply Hp'|exact Hn|rewrite HD; lra].
  Qed.

  Theorem slerpM_start : slerpM thr p q 0 = p.
  Proof.
    destruct (slerpM_nearer 0) as (E & HD & H0 & Hn). rewrite E. unfold slerp_core.
    destruct (Rlt_dec thr (Rabs D)) as [H|H].
    - unfold lerpn. cbv zeta. replace (1 - 0) with 1 by ring. unfold p at 1 2. rewrite qlin_1_0.
      replace (qnorm2 [a;b;c;d]) with 1 by (unfold_q; lra). rewrite sqrt_1, Rinv_1. unfold p. unfold_q. list_eq; ring.
    - unfold arc. destruct (arc_coeffs_0 (Rabs D)) as [-> ->]. unfold p. apply qlin_1_0.
  Qed.

  Theorem slerpM_end : slerpM thr p q 1 = nearer p q.
  Proof.
    destruct (slerpM_nearer 1) as (E & HD & H0 & Hn). rewrite E. unfold slerp_core.
    assert (Hl : exists w' x' y' z', nearer p q = [w';x';y';z']).
    { unfold nearer. destruct (Rlt_dec (qdot p q) 0); unfold q; [unfold qneg|]; repeat eexists. }
    destruct Hl as (w' & x' & y' & z' & El). rewrite El in *.
    destruct (Rlt_dec thr (Rabs D)) as [H|H].
    - unfold lerpn. cbv zeta. replace (1 - 1) with 0 by ring. rewrite qlin_0_1.
      rewrite Hn, sqrt_1, Rinv_1. unfold_q. list_eq; ring.
    - unfold arc. destruct (arc_coeffs_1 (Rabs D)) as [-> ->]; [lra|]. apply qlin_0_1.
  Qed.

  (* constant angular speed on the SLERP paths: for every real weight *)
  Theorem slerpM_speed t : Rabs D <= thr ->
    qdot p (slerpM thr p q t) = cos (acos (Rabs D) * t) /\
    qdot (slerpM thr p q t) (nearer p q) = cos (acos (Rabs D) * (1 - t)).
  Proof.
    intros HT. destruct (slerpM_nearer t) as (E & HD & H0 & Hn). rewrite E. unfold slerp_core.
    destruct (Rlt_dec thr (Rabs D)) as [H|H]; [lra|]. rewrite <- HD. split.
    - apply arc_dot_p. apply Hp'.
    - apply arc_dot_q; [exact Hn|rewrite HD; lra].
  Qed.
  Theorem slerpM_two_weights s t : Rabs D <= thr ->
    qdot (slerpM thr p q s) (slerpM thr p q t) = cos (acos (Rabs D) * (t - s)).
  Proof.
    intros HT. destruct (slerpM_nearer t) as (E & HD & H0 & Hn). destruct (slerpM_nearer s) as (E' & _).
    rewrite E, E'. unfold slerp_core.
    destruct (Rlt_dec thr (Rabs D)) as [H|H]; [lra|]. rewrite <- HD.
    apply arc_dot_arc; [apply Hp'|exact Hn|rewrite HD; lra].
  Qed.

  (* minor arc: a non-negative combination of p and the nearer antipode of q, on every path *)
  Theorem slerpM_minor_arc t : 0 <= t <= 1 ->
    exists s0 s1, 0 <= s0 /\ 0 <= s1 /\ slerpM thr p q t = qlin s0 s1 p (nearer p q).
  Proof.
    intros Ht. destruct (slerpM_nearer t) as (E & HD & H0 & Hn). rewrite E. unfold slerp_core.
    destruct (Rlt_dec thr (Rabs D)) as [H|H].
    - unfold lerpn. cbv zeta. rewrite qscale_qlin.
      assert (HN : 0 < qnorm2 (qlin (1 - t) t p (nearer p q))) by (apply chord_pos; [apply Hp'|exact Hn|rewrite HD; lra]).
      set (k := / sqrt _). assert (0 < k) by (apply Rinv_0_lt_compat, sqrt_lt_R0; exact HN).
      exists (k * (1 - t)), (k * t). repeat split; nra.
    - exists (arc_s0 (Rabs D) t), (arc_s1 (Rabs D) t).
      destruct (arc_coeffs_nonneg (Rabs D) t) as [A B]; [lra|exact Ht|]. repeat split; assumption.
  Qed.
End Slerp.

(* ---- antipode invariance: no norm hypothesis at all ----------------------------------- *)
Lemma lerpn_neg_both p q t : lerpn (qneg p) (qneg q) t = qneg (lerpn p q t).
Proof.
  unfold lerpn. cbv zeta. rewrite <- qneg_qlin, qnorm2_neg. unfold_q. list_eq; ring.
Qed.
Lemma arc_neg_both p q D t : arc (qneg p) (qneg q) D t = qneg (arc p q D t).
Proof. unfold arc. rewrite qneg_qlin. reflexivity. Qed.
Lemma core_neg_both thr p q D t : slerp_core thr (qneg p) (qneg q) D t = qneg (slerp_core thr p q D t).
Proof. unfold slerp_core. destruct (Rlt_dec thr D); [apply lerpn_neg_both|apply arc_neg_both]. Qed.

Theorem slerpM_neg_q thr a b c d w x y z t : qdot [a;b;c;d] [w;x;y;z] <> 0 ->
  slerpM thr [a;b;c;d] (qneg [w;x;y;z]) t = slerpM thr [a;b;c;d] [w;x;y;z] t.
Proof.
  intros H. unfold slerpM. cbv zeta. rewrite qdot_neg_r. set (D := qdot _ _) in *.
  rewrite qneg_qneg. destruct (Rlt_dec (- D) 0), (Rlt_dec D 0); try lra; rewrite ?Ropp_involutive; reflexivity.
Qed.
Theorem slerpM_neg_p thr a b c d w x y z t : qdot [a;b;c;d] [w;x;y;z] <> 0 ->
  slerpM thr (qneg [a;b;c;d]) [w;x;y;z] t = qneg (slerpM thr [a;b;c;d] [w;x;y;z] t).
Proof.
  intros H. unfold slerpM. cbv zeta. rewrite qdot_neg_l. set (D := qdot _ _) in *.
  destruct (Rlt_dec (- D) 0), (Rlt_dec D 0); try lra; rewrite ?Ropp_involutive.
  - rewrite <- core_neg_both. reflexivity.
  - rewrite <- core_neg_both, qneg_qneg. reflexivity.
Qed.
(* on the tie p.q = 0 neither antipode is nearer and the two arcs are different rotations paths: the guard above is needed *)
Lemma slerpM_tie_differs : slerpM (1999/2000) [1;0;0;0] (qneg [0;1;0;0]) (1/2) <> slerpM (1999/2000) [1;0;0;0] [0;1;0;0] (1/2)
                           /\ slerpM (1999/2000) [1;0;0;0] (qneg [0;1;0;0]) (1/2) <> qneg (slerpM (1999/2000) [1;0;0;0] [0;1;0;0] (1/2)).
Proof.
  unfold slerpM. cbv zeta. rewrite qdot_neg_r.
  replace (qdot [1;0;0;0] [0;1;0;0]) with 0 by (unfold_q; ring). rewrite Ropp_0.
  destruct (Rlt_dec 0 0); [lra|]. unfold slerp_core. destruct (Rlt_dec (1999/2000) 0); [lra|].
  unfold arc, arc_s0, arc_s1. rewrite acos_0.
  replace (PI / 2 * (1 / 2)) with (PI / 4) by field. rewrite sin_PI2, sin_PI4, cos_PI4.
  assert (0 < 1 / sqrt 2) by (apply Rdiv_lt_0_compat; [lra|apply sqrt_lt_R0; lra]).
  unfold_q. split; intros E; injection E; intros; lra.
Qed.

(* ---- AQUA's interpolation with the identity ------------------------------------------- *)
Definition slerpI_M (thr : R) (q : list R) (t : R) : list R :=
  if Rlt_dec thr (e q 0) then lerpn qone q t
  else let Om := acos (e q 0) in
       let v := qlin (sin (Rabs (1 - t) * Om) / sin Om) (sin (t * Om) / sin Om) qone q in
       qscale (/ sqrt (qnorm2 v)) v.

Section SlerpI.
  Variable thr : R.
  Hypothesis Hthr : thr < 1.
  Variables w x y z : R.
  Hypothesis Hq : w*w + x*x + y*y + z*z = 1.
  Hypothesis Hw : -1 < w.
  Let q := [w;x;y;z].
  Lemma qone_unit : qnorm2 qone = 1. Proof. unfold qone. unfold_q. ring. Qed.
  Lemma q_unit : qnorm2 q = 1. Proof. unfold q. unfold_q. exact Hq. Qed.
  Lemma qdot_one_q : qdot qone q = w. Proof. unfold qone, q. unfold_q. ring. Qed.

  (* on the SLERP branch the vector before normalisation already is the unit arc point, so the final division is by 1 *)
  Lemma slerpI_slerp_branch t : w <= thr -> 0 <= t <= 1 -> slerpI_M thr q t = arc qone q w t.
  Proof.
    intros H Ht. unfold slerpI_M. replace (e q 0) with w by reflexivity.
    destruct (Rlt_dec thr w) as [H'|_]; [lra|]. cbv zeta.
    rewrite Rabs_right by lra.
    replace (sin ((1 - t) * acos w) / sin (acos w)) with (arc_s0 w t)
      by (rewrite arc_s0_sin by lra; f_equal; f_equal; ring).
    replace (sin (t * acos w) / sin (acos w)) with (arc_s1 w t) by (unfold arc_s1; f_equal; f_equal; ring).
    fold (arc qone q w t).
    assert (E : qnorm2 (arc qone q w t) = 1).
    { rewrite <- qdot_one_q. apply arc_unit; [apply qone_unit|apply q_unit|rewrite qdot_one_q; lra]. }
    rewrite E, sqrt_1, Rinv_1. unfold arc. unfold_q. list_eq; ring.
  Qed.

  Theorem slerpI_unit t : 0 <= t <= 1 -> length (slerpI_M thr q t) = 4%nat /\ qnorm2 (slerpI_M thr q t) = 1.
  Proof.
    intros Ht. destruct (Rlt_dec thr w) as [H|H].
    - unfold slerpI_M. replace (e q 0) with w by reflexivity. destruct (Rlt_dec thr w); [|contradiction].
      split; [reflexivity|]. apply lerpn_unit; [apply qone_unit|apply q_unit|rewrite qdot_one_q; lra].
    - rewrite slerpI_slerp_branch by lra. split; [reflexivity|].
      rewrite <- qdot_one_q. apply arc_unit; [apply qone_unit|apply q_unit|rewrite qdot_one_q; lra].
  Qed.
  Theorem slerpI_speed t : w <= thr -> 0 <= t <= 1 ->
    e (slerpI_M thr q t) 0 = cos (acos w * t) /\
    (exists s0 s1, 0 <= s0 /\ 0 <= s1 /\ slerpI_M thr q t = qlin s0 s1 qone q).
  Proof.
    intros H Ht. rewrite slerpI_slerp_branch by assumption. split.
    - transitivity (qdot qone (arc qone q w t)); [unfold arc, qone; unfold_q; ring|].
      rewrite <- qdot_one_q at 1 2. apply arc_dot_p. apply qone_unit.
    - exists (arc_s0 w t), (arc_s1 w t). destruct (arc_coeffs_nonneg w t) as [A B]; [lra|exact Ht|]. repeat split; assumption.
  Qed.
  Theorem slerpI_endpoints : slerpI_M thr q 0 = qone /\ slerpI_M thr q 1 = q.
  Proof.
    destruct (Rlt_dec thr w) as [H|H].
    - unfold slerpI_M. replace (e q 0) with w by reflexivity. destruct (Rlt_dec thr w); [|contradiction].
      unfold lerpn. cbv zeta. split.
      + replace (1 - 0) with 1 by ring. unfold qone at 1 2. rewrite qlin_1_0. fold qone. rewrite qone_unit, sqrt_1, Rinv_1.
        unfold qone. unfold_q. list_eq; ring.
      + replace (1 - 1) with 0 by ring. unfold q at 1 2. rewrite qlin_0_1. fold q. rewrite q_unit, sqrt_1, Rinv_1.
        unfold q. unfold_q. list_eq; ring.
    - rewrite !slerpI_slerp_branch by lra. unfold arc.
      destruct (arc_coeffs_0 w) as [-> ->]. destruct (arc_coeffs_1 w) as [-> ->]; [lra|].
      unfold qone at 1. unfold q at 2. rewrite qlin_1_0, qlin_0_1. split; reflexivity.
  Qed.
End SlerpI.
