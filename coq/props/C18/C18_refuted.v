(* C18_refuted.v — witness, inside the regenerated model, of the known finding "angular_distance/exact-half-turn".
   Compiled separately: if DCM.log gets repaired for half-turns this file stops compiling and the check says so. *)
From Coq Require Import Reals List Lra Psatz.
From AhrsLib Require Import Base Rot.
From AhrsGen Require Import C18gen_R.
From AhrsProps Require Import C18_norm.
Import ListNotations.
Open Scope R_scope.

(* p = 1, q = i (a half-turn about x): R(p) R(q)^T = diag(1,-1,-1) is symmetric, sin(theta) = 0 exactly, DCM.log
   returns the zero matrix and angular_distance returns 0 instead of sqrt 2 * PI *)
Lemma angdist_at_half_turn : C18_angdist_R 1 0 0 0 0 1 0 0 = Val [0].
Proof.
  assert (Hp : 1 * 1 + 0 * 0 + 0 * 0 + 0 * 0 = 1) by ring. assert (Hq : 0 * 0 + 1 * 1 + 0 * 0 + 0 * 0 = 1) by ring.
  unfold C18_angdist_R. cbv zeta.
  repeat match goal with
  | |- context [Rle_dec (Rabs ?e) ?c] =>
      let H := fresh in assert (H : Rabs e <= c) by (replace e with 0 by field; rewrite Rabs_R0; lra);
      destruct (Rle_dec (Rabs e) c); [clear H|contradiction]
  end.
  match goal with |- context [Req_EM_T 0 (sqrt ?E)] => replace E with 0 by field end.
  rewrite sqrt_0. destruct (Req_EM_T 0 0); [reflexivity|contradiction].
Qed.

(* the closed form sqrt 2 * t REFUTED at t = PI on the current code (known finding: DCM.log of an exactly symmetric
   half-turn is the zero matrix) *)
Theorem C18_angular_distance_half_turn_refuted : exists a b c d w x y z t,
  unit4 a b c d /\ unit4 w x y z /\ 1/10000 <= t <= PI /\ Rabs (dot4 a b c d w x y z) = cos (t/2) /\
  C18_angdist_R a b c d w x y z <> Val [sqrt 2 * t].
Proof.
  exists 1, 0, 0, 0, 0, 1, 0, 0, PI. pose proof PI_RGT_0. pose proof PI2_1 as P21.
  split; [unfold unit4; ring|]. split; [unfold unit4; ring|]. split; [lra|].
  split; [unfold dot4; replace (1*0+0*1+0*0+0*0) with 0 by ring; rewrite Rabs_R0, cos_PI2; reflexivity|].
  rewrite angdist_at_half_turn. intros E. injection E as E.
  assert (0 < sqrt 2) by (apply sqrt_lt_R0; lra). nra.
Qed.
Print Assumptions C18_angular_distance_half_turn_refuted.
