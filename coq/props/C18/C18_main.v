(* C18_main.v — all seven metrics as functions of |p.q|: closed forms in the relative angle, symmetry, sign invariance,
   left/right invariance, zero at coinciding rotations, positivity inside the property's range; qdist triangle inequality. *)
From Coq Require Import Reals List Lra Psatz.
From AhrsLib Require Import Base Rot.
From AhrsGen Require Import C18gen_R.
From AhrsProps Require Import C18_norm C18_matrix C18_quat C18_angdist.
Import ListNotations.
Open Scope R_scope.

Definition app8 (f : R -> R -> R -> R -> R -> R -> R -> R -> outcome R) (p q : list R) : outcome R :=
  f (e p 0) (e p 1) (e p 2) (e p 3) (e q 0) (e q 1) (e q 2) (e q 3).

(* the seven metrics of ahrs.utils.metrics on the rotations of two quaternions (matrix metrics on the textbook matrices);
   angular_distance is kept apart because its statement needs t < PI (p.q <> 0) *)
Definition six (p q : list R) : list (outcome R) :=
  [app8 C18_chordal_R p q; app8 C18_iddev_R p q;
   app8 C18_qdist_R p q; app8 C18_qeip_R p q; app8 C18_qcip_R p q; app8 C18_qad_R p q].
Definition angd (p q : list R) : outcome R := app8 C18_angdist_R p q.
Definition seven (p q : list R) : list (outcome R) := angd p q :: six p q.

(* relative angle t >= 1e-4  <->  |p.q| <= cos(5e-5); stated on p.q so that no angle has to be chosen *)
Definition apart (p q : list R) : Prop := Rabs (qdot p q) <= 1 - 12/10000000000.
(* the two argument pairs get the same value from every metric (angular_distance: for relative angles below PI) *)
Definition same_metrics (p q p' q' : list R) : Prop :=
  six p q = six p' q' /\ (qdot p q <> 0 -> angd p q = angd p' q').

Lemma len4 (p : list R) : length p = 4%nat -> exists a b c d, p = [a;b;c;d].
Proof. intros L. do 4 (destruct p as [|? p]; [discriminate L|]). destruct p; [|discriminate L]. repeat eexists. Qed.

Lemma unitq_unit4 a b c d : unitq [a;b;c;d] <-> unit4 a b c d.
Proof. unfold unitq, unit4, qnorm2. cbv [e List.nth length]. split; [intros [_ H]; exact H|intros H; split; [reflexivity|exact H]]. Qed.

Lemma angdist_sq a b c d w x y z a' b' c' d' w' x' y' z' :
  unit4 a b c d -> unit4 w x y z -> unit4 a' b' c' d' -> unit4 w' x' y' z' ->
  dot4 a b c d w x y z * dot4 a b c d w x y z = dot4 a' b' c' d' w' x' y' z' * dot4 a' b' c' d' w' x' y' z' ->
  dot4 a b c d w x y z <> 0 -> Rabs (dot4 a b c d w x y z) < 1 ->
  C18_angdist_R a b c d w x y z = C18_angdist_R a' b' c' d' w' x' y' z'.
Proof.
  intros Hp Hq Hp' Hq' E Hnz Hlt.
  destruct (angdist_dot _ _ _ _ _ _ _ _ Hp Hq) as [H1 _]. destruct (angdist_dot _ _ _ _ _ _ _ _ Hp' Hq') as [H2 _].
  cbv zeta in H1, H2. rewrite <- E in H2.
  assert (P : 0 < 4 * (dot4 a b c d w x y z * dot4 a b c d w x y z) * (1 - dot4 a b c d w x y z * dot4 a b c d w x y z)).
  { apply Rabs_def2 in Hlt. assert (0 < dot4 a b c d w x y z * dot4 a b c d w x y z) by nra.
    assert (dot4 a b c d w x y z * dot4 a b c d w x y z < 1) by nra. apply Rmult_lt_0_compat; lra. }
  rewrite (H1 P), (H2 P). reflexivity.
Qed.

Lemma same_abs_dot p q p' q' : unitq p -> unitq q -> unitq p' -> unitq q' ->
  Rabs (qdot p q) = Rabs (qdot p' q') -> apart p q -> same_metrics p q p' q'.
Proof.
  intros Hp Hq Hp' Hq' E G.
  destruct (len4 p (proj1 Hp)) as (a&b&c&d&->). destruct (len4 q (proj1 Hq)) as (w&x&y&z&->).
  destruct (len4 p' (proj1 Hp')) as (a'&b'&c'&d'&->). destruct (len4 q' (proj1 Hq')) as (w'&x'&y'&z'&->).
  apply unitq_unit4 in Hp, Hq, Hp', Hq'.
  assert (G' : apart [a';b';c';d'] [w';x';y';z']) by (unfold apart in *; rewrite <- E; exact G).
  unfold same_metrics, apart, qdot in *. cbv [e List.nth] in *.
  change (a*w + b*x + c*y + d*z) with (dot4 a b c d w x y z) in *.
  change (a'*w' + b'*x' + c'*y' + d'*z') with (dot4 a' b' c' d' w' x' y' z') in *.
  assert (E2 : dot4 a b c d w x y z * dot4 a b c d w x y z = dot4 a' b' c' d' w' x' y' z' * dot4 a' b' c' d' w' x' y' z').
  { rewrite (sq_of_abs _ _ eq_refl), (sq_of_abs (dot4 a' b' c' d' w' x' y' z') _ eq_refl), E. reflexivity. }
  split.
  - unfold six, app8. cbv [e List.nth].
    rewrite !chordal_dot, !iddev_dot, !qdist_spec, !qeip_spec, !qcip_spec, !qad_spec by assumption.
    rewrite E, E2. reflexivity.
  - intros Hnz. unfold angd, app8. cbv [e List.nth]. apply angdist_sq; try assumption. lra.
Qed.

Lemma unitq_qmul r p : unitq r -> unitq p -> unitq (qmul r p).
Proof. intros [_ Hr] [_ Hp]. split; [reflexivity|]. rewrite qnorm2_mul, Hr, Hp. ring. Qed.
Lemma unitq_qneg p : unitq p -> unitq (qneg p).
Proof. intros [_ Hp]. split; [reflexivity|]. rewrite <- Hp. unfold_rot. ring. Qed.

Lemma same_sym p q : unitq p -> unitq q -> apart p q -> same_metrics p q q p.
Proof. intros Hp Hq G. apply same_abs_dot; try assumption. rewrite qdot_sym. reflexivity. Qed.
Lemma same_neg p q : unitq p -> unitq q -> apart p q -> same_metrics p q (qneg p) q.
Proof.
  intros Hp Hq G. apply same_abs_dot; try assumption; [apply unitq_qneg; exact Hp|].
  rewrite qdot_neg_l, Rabs_Ropp. reflexivity.
Qed.
Lemma same_left r p q : unitq r -> unitq p -> unitq q -> apart p q -> same_metrics p q (qmul r p) (qmul r q).
Proof.
  intros Hr Hp Hq G. apply same_abs_dot; try assumption; try (apply unitq_qmul; assumption).
  rewrite qdot_left, (proj2 Hr), Rmult_1_l. reflexivity.
Qed.
Lemma same_right r p q : unitq r -> unitq p -> unitq q -> apart p q -> same_metrics p q (qmul p r) (qmul q r).
Proof.
  intros Hr Hp Hq G. apply same_abs_dot; try assumption; try (apply unitq_qmul; assumption).
  rewrite qdot_right, (proj2 Hr), Rmult_1_l. reflexivity.
Qed.

(* closed forms of all seven in the relative angle *)
Lemma seven_closed a b c d w x y z t : unit4 a b c d -> unit4 w x y z -> 1/10000 <= t < PI ->
  Rabs (dot4 a b c d w x y z) = cos (t/2) ->
  seven [a;b;c;d] [w;x;y;z] =
    [Val [sqrt 2 * t]; Val [2 * sqrt 2 * sin (t/2)]; Val [2 * sqrt 2 * sin (t/2)];
     Val [sqrt (2 * (1 - cos (t/2)))]; Val [1 - cos (t/2)]; Val [t/2]; Val [t]].
Proof.
  intros Hp Hq Ht Hd. unfold seven, six, angd, app8. cbv [e List.nth].
  destruct (chordal_closed_t a b c d w x y z t Hp Hq) as [-> ->]; [lra|exact Hd|].
  rewrite (angdist_closed_t a b c d w x y z t Hp Hq) by (try exact Hd; lra).
  destruct (quat_closed_t a b c d w x y z t Hp Hq) as (-> & -> & -> & ->); [lra|exact Hd|]. reflexivity.
Qed.

(* the six metrics without a logarithm keep their closed forms up to and including t = PI *)
Lemma six_closed a b c d w x y z t : unit4 a b c d -> unit4 w x y z -> 1/10000 <= t <= PI ->
  Rabs (dot4 a b c d w x y z) = cos (t/2) ->
  six [a;b;c;d] [w;x;y;z] =
    [Val [2 * sqrt 2 * sin (t/2)]; Val [2 * sqrt 2 * sin (t/2)];
     Val [sqrt (2 * (1 - cos (t/2)))]; Val [1 - cos (t/2)]; Val [t/2]; Val [t]].
Proof.
  intros Hp Hq Ht Hd. unfold six, app8. cbv [e List.nth].
  destruct (chordal_closed_t a b c d w x y z t Hp Hq) as [-> ->]; [lra|exact Hd|].
  destruct (quat_closed_t a b c d w x y z t Hp Hq) as (-> & -> & -> & ->); [lra|exact Hd|]. reflexivity.
Qed.

(* inside the range every metric is strictly positive *)
Lemma closed_forms_positive t : 1/10000 <= t <= PI ->
  0 < 2 * sqrt 2 * sin (t/2) /\ 0 < sqrt 2 * t /\ 0 < sqrt (2 * (1 - cos (t/2))) /\ 0 < 1 - cos (t/2) /\ 0 < t/2 /\ 0 < t.
Proof.
  intros Ht. pose proof (cos_half_guard t Ht). pose proof PI_RGT_0.
  assert (0 < sqrt 2) by (apply sqrt_lt_R0; lra).
  assert (0 < sin (t/2)) by (apply sin_gt_0; lra).
  repeat split; try lra; try nra. apply sqrt_lt_R0. lra.
Qed.

(* coinciding rotations q = p and q = -p: all seven are exactly zero *)
Lemma seven_coincide w x y z : unit4 w x y z ->
  seven [w;x;y;z] [w;x;y;z] = [Val [0]; Val [0]; Val [0]; Val [0]; Val [0]; Val [0]; Val [0]] /\
  seven [-w;-x;-y;-z] [w;x;y;z] = [Val [0]; Val [0]; Val [0]; Val [0]; Val [0]; Val [0]; Val [0]].
Proof.
  intros Hq. assert (Hn : unit4 (-w) (-x) (-y) (-z)) by (unfold unit4 in *; nra).
  assert (D1 : dot4 w x y z w x y z = 1) by (unfold dot4, unit4 in *; lra).
  assert (D2 : dot4 (-w) (-x) (-y) (-z) w x y z = -1) by (unfold dot4, unit4 in *; lra).
  assert (Z : sqrt (8 - 8 * 1) = 0) by (replace (8 - 8 * 1) with 0 by ring; apply sqrt_0).
  pose proof PI_RGT_0.
  unfold seven, six, angd, app8. cbv [e List.nth]. split.
  - destruct (coincide_zero w x y z Hq) as (-> & -> & -> & ->).
    rewrite chordal_dot, iddev_dot by assumption. rewrite D1, Rmult_1_r, Z.
    rewrite (angdist_closed_t w x y z w x y z 0 Hq Hq); [|lra|rewrite D1, Rabs_R1; replace (0/2) with 0 by field; symmetry; apply cos_0].
    rewrite Rmult_0_r. reflexivity.
  - destruct (antipode_zero w x y z Hq) as (-> & -> & -> & ->).
    rewrite chordal_dot, iddev_dot by assumption. rewrite D2. replace (-1 * -1) with 1 by ring. rewrite Z.
    rewrite (angdist_closed_t (-w) (-x) (-y) (-z) w x y z 0 Hn Hq);
      [|lra|rewrite D2, Rabs_left by lra; replace (0/2) with 0 by field; rewrite cos_0; lra].
    rewrite Rmult_0_r. reflexivity.
Qed.

(* ---- triangle inequality of qdist = min(|p-q|, |p+q|) (Minkowski on R^4 after choosing representatives) *)
Lemma norm4_signed a b c d w x y z s : unit4 a b c d -> unit4 w x y z -> s * s = 1 ->
  norm [a - s*w; b - s*x; c - s*y; d - s*z] = sqrt (2 - 2 * (s * dot4 a b c d w x y z)).
Proof. unfold unit4, dot4, norm. intros Hp Hq Hs. f_equal. simpl. nra. Qed.

Lemma tri_signed a b c d w x y z k l m n s1 s2 : unit4 a b c d -> unit4 w x y z -> unit4 k l m n -> s1*s1 = 1 -> s2*s2 = 1 ->
  sqrt (2 - 2 * (s1*s2 * dot4 a b c d k l m n)) <=
  sqrt (2 - 2 * (s1 * dot4 a b c d w x y z)) + sqrt (2 - 2 * (s2 * dot4 w x y z k l m n)).
Proof.
  intros Hp Hq Hr H1 H2.
  rewrite <- (norm4_signed a b c d w x y z s1 Hp Hq H1), <- (norm4_signed w x y z k l m n s2 Hq Hr H2).
  rewrite <- (norm4_signed a b c d k l m n (s1*s2) Hp Hr) by nra.
  replace (norm [w - s2*k; x - s2*l; y - s2*m; z - s2*n]) with (norm [s1*w - s1*s2*k; s1*x - s1*s2*l; s1*y - s1*s2*m; s1*z - s1*s2*n]).
  - replace [a - s1*s2*k; b - s1*s2*l; c - s1*s2*m; d - s1*s2*n]
      with (vadd [a - s1*w; b - s1*x; c - s1*y; d - s1*z] [s1*w - s1*s2*k; s1*x - s1*s2*l; s1*y - s1*s2*m; s1*z - s1*s2*n])
      by (simpl; list_eq; ring).
    apply minkowski. reflexivity.
  - unfold norm. f_equal. simpl.
    replace ((s1*w - s1*s2*k) * (s1*w - s1*s2*k) + ((s1*x - s1*s2*l) * (s1*x - s1*s2*l) + ((s1*y - s1*s2*m) * (s1*y - s1*s2*m) + ((s1*z - s1*s2*n) * (s1*z - s1*s2*n) + 0))))
      with ((s1*s1) * ((w - s2*k) * (w - s2*k) + ((x - s2*l) * (x - s2*l) + ((y - s2*m) * (y - s2*m) + ((z - s2*n) * (z - s2*n) + 0))))) by ring.
    rewrite H1. ring.
Qed.

Lemma sgn_choice u : exists s, s * s = 1 /\ s * u = Rabs u.
Proof. destruct (Rle_dec 0 u); [exists 1; rewrite Rabs_right by lra; lra|exists (-1); rewrite Rabs_left by lra; lra]. Qed.

Lemma qdist_formula_triangle a b c d w x y z k l m n : unit4 a b c d -> unit4 w x y z -> unit4 k l m n ->
  sqrt (2 - 2 * Rabs (dot4 a b c d k l m n)) <=
  sqrt (2 - 2 * Rabs (dot4 a b c d w x y z)) + sqrt (2 - 2 * Rabs (dot4 w x y z k l m n)).
Proof.
  intros Hp Hq Hr. destruct (sgn_choice (dot4 a b c d w x y z)) as (s1 & S1 & E1). destruct (sgn_choice (dot4 w x y z k l m n)) as (s2 & S2 & E2).
  rewrite <- E1, <- E2. eapply Rle_trans; [|apply (tri_signed a b c d w x y z k l m n s1 s2); assumption].
  apply sqrt_le_1_alt. assert (s1 * s2 * dot4 a b c d k l m n <= Rabs (dot4 a b c d k l m n)).
  { assert (Hs : (s1*s2) * (s1*s2) = 1) by nra. assert (Hc : s1 * s2 = 1 \/ s1 * s2 = -1) by (destruct (Rle_dec 0 (s1*s2)); [left|right]; nra).
    destruct Hc as [-> | ->]; [rewrite Rmult_1_l; apply Rle_abs|]. replace (-1 * dot4 a b c d k l m n) with (- dot4 a b c d k l m n) by ring.
    rewrite <- Rabs_Ropp. apply Rle_abs. }
  lra.
Qed.

Lemma qdist_triangle a b c d w x y z k l m n : unit4 a b c d -> unit4 w x y z -> unit4 k l m n ->
  in_range a b c d k l m n -> in_range a b c d w x y z -> in_range w x y z k l m n ->
  exists dpr dpq dqr, C18_qdist_R a b c d k l m n = Val [dpr] /\ C18_qdist_R a b c d w x y z = Val [dpq] /\
    C18_qdist_R w x y z k l m n = Val [dqr] /\ 0 <= dpr /\ dpr <= dpq + dqr.
Proof.
  intros Hp Hq Hr G1 G2 G3. rewrite !qdist_spec by assumption. do 3 eexists. repeat split; [apply sqrt_pos|].
  apply qdist_formula_triangle; assumption.
Qed.
(* the N-row branch has no shortcut: the triangle inequality holds for all unit quaternions (row 0 of each call) *)
Lemma qdist_batch_triangle a b c d w x y z k l m n : unit4 a b c d -> unit4 w x y z -> unit4 k l m n ->
  exists dpr dpq dqr, C18_qdist_batch_R a b c d k l m n = Val (four dpr) /\ C18_qdist_batch_R a b c d w x y z = Val (four dpq) /\
    C18_qdist_batch_R w x y z k l m n = Val (four dqr) /\ 0 <= dpr /\ dpr <= dpq + dqr.
Proof.
  intros Hp Hq Hr. rewrite !qdist_batch_spec by assumption. do 3 eexists. repeat split; [apply sqrt_pos|].
  apply qdist_formula_triangle; assumption.
Qed.

Lemma shortcuts_inert a b c d w x y z : unit4 a b c d -> unit4 w x y z -> in_range a b c d w x y z ->
  ~ (isc a w /\ isc b x /\ isc c y /\ isc d z) /\ ~ (isc (-a) w /\ isc (-b) x /\ isc (-c) y /\ isc (-d) z).
Proof.
  intros Hp Hq G. destruct (range_gates _ _ _ _ _ _ _ _ G) as [G1 G2]. split; intros (H1 & H2 & H3 & H4).
  - exact (shortcut_pos _ _ _ _ _ _ _ _ Hp Hq G1 H1 H2 H3 H4).
  - exact (shortcut_neg _ _ _ _ _ _ _ _ Hp Hq G2 H1 H2 H3 H4).
Qed.

Lemma example_pair : unit4 1 0 0 0 /\ unit4 (cos (1/2)) (sin (1/2)) 0 0 /\ 1/10000 <= 1 < PI /\
  Rabs (dot4 1 0 0 0 (cos (1/2)) (sin (1/2)) 0 0) = cos (1/2).
Proof.
  pose proof PI2_1. pose proof PI_RGT_0. split; [unfold unit4; ring|]. split.
  - unfold unit4. pose proof (sin2_cos2 (1/2)) as P. unfold Rsqr in P. lra.
  - split; [lra|]. unfold dot4. replace (1 * cos (1/2) + 0 * sin (1/2) + 0 * 0 + 0 * 0) with (cos (1/2)) by ring.
    apply Rabs_right. apply Rle_ge. apply cos_ge_0; lra.
Qed.
