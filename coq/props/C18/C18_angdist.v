(* C18_angdist.v — angular_distance(R(p), R(q)) through the DCM constructor's SO(3) gate and DCM.log
   (sin/cos of the angle read off the matrix, theta = arctan2(sin, cos)) equals sqrt 2 * t for 0 <= t < PI. *)
From Coq Require Import Reals List Lra Psatz.
From AhrsLib Require Import Base Rot.
From AhrsGen Require Import C18gen_R.
From AhrsProps Require Import C18_norm.
Import ListNotations.
Open Scope R_scope.

(* || k * S ||_F for the skew matrix S with upper entries of square-sum E = s*s :  sqrt (k^2 * 2 E) *)
Lemma log_norm th s : 0 < s -> 0 <= th -> sqrt (th / s * (th / s) * (2 * (s * s))) = sqrt 2 * th.
Proof.
  intros Hs Hth. replace (th / s * (th / s) * (2 * (s * s))) with ((th * th) * 2) by (field; lra).
  rewrite sqrt_mult_alt by nra. rewrite sqrt_sq_abs, Rabs_right by lra. ring.
Qed.

(* the SO(3) gate of the DCM constructor is passed by R(p) R(q)^T; then, with sin(theta)^2 = 4 (p.q)^2 (1 - (p.q)^2):
   sin(theta) > 0 : sqrt 2 * arctan2(sin, cos);   sin(theta) = 0 with cos(theta) > 0 (the identity): 0 *)
Lemma angdist_dot a b c d w x y z : unit4 a b c d -> unit4 w x y z ->
  let dd := dot4 a b c d w x y z in
  let s := sqrt (4 * (dd * dd) * (1 - dd * dd)) in
  (0 < 4 * (dd * dd) * (1 - dd * dd) -> C18_angdist_R a b c d w x y z = Val [sqrt 2 * atan2 s (2 * (dd * dd) - 1)]) /\
  (4 * (dd * dd) * (1 - dd * dd) = 0 -> 0 < 2 * (dd * dd) - 1 -> C18_angdist_R a b c d w x y z = Val [0]).
Proof.
  intros Hp Hq dd s.
  unfold unit4 in Hp, Hq. orient_unit. unfold C18_angdist_R. cbv zeta. repeat gate_abs0.
  (* the radicand of sin(theta), as a polynomial in p.q *)
  match goal with |- context [Req_EM_T 0 (sqrt ?E)] =>
    replace E with (4 * (dd * dd) * (1 - dd * dd)) by (unfold dd, dot4; uring) end.
  fold s. split.
  - intros HE0. assert (Hs : 0 < s) by (apply sqrt_lt_R0; exact HE0).
    destruct (Req_EM_T 0 s) as [Hz|Hnz]; [exfalso; lra|].
    match goal with |- context [atan2 s ?C] => replace C with (2 * (dd * dd) - 1) by (unfold dd, dot4; uring) end.
    assert (Hth : 0 <= atan2 s (2 * (dd * dd) - 1)).
    { unfold atan2. destruct (Rlt_dec 0 (2 * (dd * dd) - 1)) as [Hc|Hc].
      - rewrite <- atan_0. left. apply atan_increasing. apply Rdiv_lt_0_compat; lra.
      - destruct (Rlt_dec (2 * (dd * dd) - 1) 0) as [Hc'|Hc'].
        + destruct (Rle_dec 0 s); [|lra]. pose proof (atan_bound (s / (2 * (dd * dd) - 1))). pose proof PI_RGT_0. lra.
        + destruct (Rlt_dec 0 s); [|lra]. pose proof PI_RGT_0. lra. }
    set (th := atan2 s (2 * (dd * dd) - 1)) in *. set (k := th / s).
    match goal with |- Val [sqrt ?Rd] = _ =>
      replace Rd with (k * k * (2 * (4 * (dd * dd) * (1 - dd * dd)))) by (unfold dd, dot4; uring) end.
    replace (4 * (dd * dd) * (1 - dd * dd)) with (s * s) by (unfold s; apply sqrt_sqrt; lra).
    unfold k. rewrite log_norm by assumption. reflexivity.
  - intros HE0 Hc. assert (Hs : s = 0) by (unfold s; rewrite HE0; apply sqrt_0).
    destruct (Req_EM_T 0 s) as [Hz|Hnz]; [|exfalso; lra].
    repeat destr_dec; first [reflexivity | exfalso; lra].
Qed.

Lemma angdist_closed_t a b c d w x y z t : unit4 a b c d -> unit4 w x y z -> 0 <= t < PI ->
  Rabs (dot4 a b c d w x y z) = cos (t/2) -> C18_angdist_R a b c d w x y z = Val [sqrt 2 * t].
Proof.
  intros Hp Hq Ht Hd. destruct (angdist_dot _ _ _ _ _ _ _ _ Hp Hq) as [Hpos Hzero]. cbv zeta in Hpos, Hzero.
  rewrite (sq_of_abs _ _ Hd) in Hpos, Hzero. pose proof PI_RGT_0.
  assert (E : 4 * (cos (t/2) * cos (t/2)) * (1 - cos (t/2) * cos (t/2)) = sin t * sin t).
  { rewrite sin_of_half. pose proof (sin2_cos2 (t/2)) as P. unfold Rsqr in P. nra. }
  rewrite E, <- cos_of_half in Hpos, Hzero.
  destruct (Req_dec t 0) as [->|Hne].
  - rewrite Hzero; [val_eq; ring|rewrite sin_0; ring|rewrite cos_0; lra].
  - assert (0 < sin t) by (apply sin_gt_0; lra).
    rewrite Hpos by nra. rewrite sqrt_sq_abs, Rabs_right by lra. rewrite atan2_sin_cos by lra. reflexivity.
Qed.
