(* C18_norm.v — mathematics used by property C18 that does not depend on generated code:
   Euclidean norm on lists (Cauchy-Schwarz, Minkowski), Frobenius norm of 3x3 matrices and its invariance under
   orthogonal factors (trace cyclicity + orthogonality), bi-invariance of the quaternion dot product, and the
   trigonometric closed forms in the relative angle t. *)
From Coq Require Import Reals List Lra Lia Psatz.
From AhrsLib Require Import Base Rot.
Import ListNotations.
Open Scope R_scope.

Definition unit4 (w x y z : R) : Prop := w*w + x*x + y*y + z*z = 1.
Definition dot4 (a b c d w x y z : R) : R := a*w + b*x + c*y + d*z.

Lemma Rabs_le_inv x y : Rabs x <= y -> - y <= x <= y.
Proof. unfold Rabs. destruct (Rcase_abs x); lra. Qed.

(* ---------------------------------------------------------------- Euclidean norm on lists *)
Fixpoint sumsq (l : list R) : R := match l with [] => 0 | x :: l => x*x + sumsq l end.
Fixpoint ldot (u v : list R) : R := match u, v with x :: u, y :: v => x*y + ldot u v | _, _ => 0 end.
Fixpoint vadd (u v : list R) : list R := match u, v with x :: u, y :: v => (x+y) :: vadd u v | _, _ => [] end.
Definition norm (l : list R) : R := sqrt (sumsq l).

Lemma sumsq_nonneg l : 0 <= sumsq l.
Proof. induction l; simpl; [lra|nra]. Qed.

Lemma sumsq_vadd u : forall v, length u = length v -> sumsq (vadd u v) = sumsq u + 2 * ldot u v + sumsq v.
Proof.
  induction u as [|x u IH]; intros [|y v] L; simpl in *; try discriminate; [ring|].
  injection L as L. rewrite (IH v L). ring.
Qed.

(* Cauchy-Schwarz through the discriminant of  lam^2 |u|^2 + 2 lam u.v + |v|^2 >= 0 *)
Lemma quad_nonneg u : forall v lam, 0 <= lam*lam*sumsq u + 2*lam*ldot u v + sumsq v.
Proof.
  induction u as [|x u IH]; intros [|y v] lam; simpl.
  - nra.
  - pose proof (sumsq_nonneg v). nra.
  - pose proof (sumsq_nonneg u). nra.
  - replace (lam * lam * (x * x + sumsq u) + 2 * lam * (x * y + ldot u v) + (y * y + sumsq v))
      with ((lam*lam*sumsq u + 2*lam*ldot u v + sumsq v) + (lam*x+y)*(lam*x+y)) by ring.
    apply Rplus_le_le_0_compat; [apply IH|]. apply Rle_0_sqr.
Qed.

Lemma discriminant a b c : (forall lam, 0 <= lam*lam*a + 2*lam*b + c) -> 0 <= a -> b*b <= a*c.
Proof.
  intros H Ha. destruct (Req_dec a 0) as [->|Hne].
  - destruct (Req_dec b 0) as [->|Hb]; [lra|].
    exfalso. pose proof (H (- (c + 1) / (2 * b))) as Hl.
    replace (- (c + 1) / (2 * b) * (- (c + 1) / (2 * b)) * 0 + 2 * (- (c + 1) / (2 * b)) * b + c) with (-1) in Hl by (field; exact Hb).
    lra.
  - assert (0 < a) by lra. pose proof (H (- b / a)) as Hl.
    replace (- b / a * (- b / a) * a + 2 * (- b / a) * b + c) with ((a*c - b*b) / a) in Hl by (field; lra).
    apply Rmult_le_compat_r with (r := a) in Hl; [|lra]. unfold Rdiv in Hl. rewrite Rmult_assoc, Rinv_l in Hl by lra. lra.
Qed.

Lemma cauchy_schwarz u v : ldot u v * ldot u v <= sumsq u * sumsq v.
Proof. apply discriminant; [intros lam; apply quad_nonneg|apply sumsq_nonneg]. Qed.

Lemma minkowski u v : length u = length v -> norm (vadd u v) <= norm u + norm v.
Proof.
  intros L. unfold norm. rewrite (sumsq_vadd u v L).
  pose proof (sumsq_nonneg u) as Hu. pose proof (sumsq_nonneg v) as Hv. pose proof (cauchy_schwarz u v) as CS.
  pose proof (sqrt_pos (sumsq u)) as Su. pose proof (sqrt_pos (sumsq v)) as Sv.
  pose proof (sqrt_sqrt _ Hu) as Eu. pose proof (sqrt_sqrt _ Hv) as Ev.
  set (su := sqrt (sumsq u)) in *. set (sv := sqrt (sumsq v)) in *.
  assert (Hd : ldot u v <= su * sv).
  { destruct (Rle_dec (ldot u v) 0); [nra|]. apply Rsqr_incr_0_var; [|nra]. unfold Rsqr. nra. }
  pose proof (sumsq_nonneg (vadd u v)) as Hs. rewrite (sumsq_vadd u v L) in Hs.
  apply Rsqr_incr_0_var; [|lra]. unfold Rsqr. rewrite sqrt_sqrt by exact Hs. nra.
Qed.

Lemma norm_zero_iff l : norm l = 0 <-> Forall (fun x => x = 0) l.
Proof.
  unfold norm. split.
  - intros H. apply sqrt_eq_0 in H; [|apply sumsq_nonneg]. induction l as [|x l IH]; constructor; simpl in H;
      pose proof (sumsq_nonneg l); [nra|apply IH; nra].
  - intros H. replace (sumsq l) with 0; [apply sqrt_0|]. induction H as [|x l -> _ IH]; simpl; [reflexivity|rewrite <- IH; ring].
Qed.

(* ---------------------------------------------------------------- Frobenius norm of 3x3 matrices (row-major 9-lists) *)
Definition msub3 (A B : list R) : list R :=
  [e A 0 - e B 0; e A 1 - e B 1; e A 2 - e B 2; e A 3 - e B 3; e A 4 - e B 4; e A 5 - e B 5; e A 6 - e B 6; e A 7 - e B 7; e A 8 - e B 8].
Definition frob2 (A : list R) : R :=
  e A 0*e A 0 + e A 1*e A 1 + e A 2*e A 2 + e A 3*e A 3 + e A 4*e A 4 + e A 5*e A 5 + e A 6*e A 6 + e A 7*e A 7 + e A 8*e A 8.
Definition frob (A : list R) : R := sqrt (frob2 A).
Definition orth3 (S : list R) : Prop := length S = 9%nat /\ mmul3 S (mtr3 S) = I3 /\ mmul3 (mtr3 S) S = I3.

Ltac unfold_m := cbv [msub3 frob2 frob mmul3 mtr3 tr3 I3 e List.nth].

Lemma SO3_orth3 S : SO3 S -> orth3 S.
Proof. intros (L & A1 & A2 & _). repeat split; assumption. Qed.

Lemma frob2_nonneg A : 0 <= frob2 A.
Proof. unfold frob2. nra. Qed.

(* tr(X^T (S^T S) X) and tr(X (S S^T) X^T): trace cyclicity, no hypothesis *)
Lemma frob2_mmul3_l_tr S X : frob2 (mmul3 S X) = tr3 (mmul3 (mtr3 X) (mmul3 (mmul3 (mtr3 S) S) X)).
Proof. unfold_m. ring. Qed.
Lemma frob2_mmul3_r_tr S X : frob2 (mmul3 X S) = tr3 (mmul3 X (mmul3 (mmul3 S (mtr3 S)) (mtr3 X))).
Proof. unfold_m. ring. Qed.
Lemma frob2_tr X : tr3 (mmul3 (mtr3 X) X) = frob2 X.
Proof. unfold_m. ring. Qed.
Lemma frob2_tr' X : tr3 (mmul3 X (mtr3 X)) = frob2 X.
Proof. unfold_m. ring. Qed.

Lemma frob2_orth_l S X : mmul3 (mtr3 S) S = I3 -> length X = 9%nat -> frob2 (mmul3 S X) = frob2 X.
Proof. intros H L. rewrite frob2_mmul3_l_tr, H, mmul3_I3_l by exact L. apply frob2_tr. Qed.
Lemma frob2_orth_r S X : mmul3 S (mtr3 S) = I3 -> length X = 9%nat -> frob2 (mmul3 X S) = frob2 X.
Proof. intros H L. rewrite frob2_mmul3_r_tr, H, mmul3_I3_l by apply mtr3_len. apply frob2_tr'. Qed.

Lemma msub3_len A B : length (msub3 A B) = 9%nat. Proof. reflexivity. Qed.
Lemma msub3_mmul3_l S A B : msub3 (mmul3 S A) (mmul3 S B) = mmul3 S (msub3 A B).
Proof. unfold_m. list_eq; ring. Qed.
Lemma msub3_mmul3_r S A B : msub3 (mmul3 A S) (mmul3 B S) = mmul3 (msub3 A B) S.
Proof. unfold_m. list_eq; ring. Qed.
Lemma frob2_msub3_sym A B : frob2 (msub3 A B) = frob2 (msub3 B A).
Proof. unfold_m. ring. Qed.

(* bi-invariance of the chordal distance *)
Lemma frob2_diff_left S A B : orth3 S -> frob2 (msub3 (mmul3 S A) (mmul3 S B)) = frob2 (msub3 A B).
Proof. intros (_ & _ & H). rewrite msub3_mmul3_l. apply frob2_orth_l; [exact H|reflexivity]. Qed.
Lemma frob2_diff_right S A B : orth3 S -> frob2 (msub3 (mmul3 A S) (mmul3 B S)) = frob2 (msub3 A B).
Proof. intros (_ & H & _). rewrite msub3_mmul3_r. apply frob2_orth_r; [exact H|reflexivity]. Qed.

(* I - A B^T = (B - A) B^T for orthogonal B: identity deviation = chordal distance *)
Lemma iddev_eq_chordal A B : orth3 B -> frob2 (msub3 I3 (mmul3 A (mtr3 B))) = frob2 (msub3 A B).
Proof.
  intros (L & H1 & H2). rewrite <- H1, msub3_mmul3_r, frob2_orth_r, frob2_msub3_sym; [reflexivity| |reflexivity].
  rewrite mtr3_invol by exact L. exact H2.
Qed.

(* |A - B|_F^2 = |A|^2 + |B|^2 - 2 tr(A^T B) = 6 - 2 tr(A^T B) on orthogonal matrices *)
Lemma frob2_msub3_expand A B : frob2 (msub3 A B) = frob2 A + frob2 B - 2 * tr3 (mmul3 (mtr3 A) B).
Proof. unfold_m. ring. Qed.
Lemma frob2_orth S : orth3 S -> frob2 S = 3.
Proof. intros (L & H1 & H2). rewrite <- frob2_tr, H2. unfold_m. ring. Qed.
Lemma chordal_trace_form A B : orth3 A -> orth3 B -> frob2 (msub3 A B) = 6 - 2 * tr3 (mmul3 (mtr3 A) B).
Proof. intros HA HB. rewrite frob2_msub3_expand, (frob2_orth A HA), (frob2_orth B HB). ring. Qed.

Lemma frob2_as_sumsq A : length A = 9%nat -> frob2 A = sumsq A.
Proof. intros L. destruct (len9 A L) as (a0&a1&a2&a3&a4&a5&a6&a7&a8&->). unfold_m. simpl. ring. Qed.

Lemma frob_triangle A B C : length A = 9%nat -> length B = 9%nat -> length C = 9%nat ->
  frob (msub3 A C) <= frob (msub3 A B) + frob (msub3 B C).
Proof.
  intros LA LB LC. unfold frob. rewrite !frob2_as_sumsq by reflexivity.
  replace (sumsq (msub3 A C)) with (sumsq (vadd (msub3 A B) (msub3 B C))).
  - apply (minkowski (msub3 A B) (msub3 B C)). reflexivity.
  - unfold msub3. simpl. ring.
Qed.

Lemma frob_zero_iff A B : length A = 9%nat -> length B = 9%nat -> (frob (msub3 A B) = 0 <-> A = B).
Proof.
  intros LA LB. destruct (len9 A LA) as (a0&a1&a2&a3&a4&a5&a6&a7&a8&->). destruct (len9 B LB) as (b0&b1&b2&b3&b4&b5&b6&b7&b8&->).
  unfold frob. rewrite frob2_as_sumsq by reflexivity. fold (norm (msub3 [a0;a1;a2;a3;a4;a5;a6;a7;a8] [b0;b1;b2;b3;b4;b5;b6;b7;b8])).
  rewrite norm_zero_iff. cbv [msub3 e List.nth]. split.
  - intros H. repeat match goal with H : Forall _ (_ :: _) |- _ => inversion H; clear H; subst end. list_eq; lra.
  - intros H. injection H as -> -> -> -> -> -> -> -> ->. repeat constructor; ring.
Qed.

(* ---------------------------------------------------------------- quaternion dot product *)
Definition qdot (p q : list R) : R := e p 0*e q 0 + e p 1*e q 1 + e p 2*e q 2 + e p 3*e q 3.

(* (r p).(r q) = |r|^2 p.q = (p r).(q r): for all quaternions, no norm hypothesis *)
Lemma qdot_left r p q : qdot (qmul r p) (qmul r q) = qnorm2 r * qdot p q.
Proof. unfold qdot. unfold_rot. ring. Qed.
Lemma qdot_right r p q : qdot (qmul p r) (qmul q r) = qnorm2 r * qdot p q.
Proof. unfold qdot. unfold_rot. ring. Qed.
Lemma qdot_sym p q : qdot p q = qdot q p.
Proof. unfold qdot. ring. Qed.
Lemma qdot_neg_l p q : qdot (qneg p) q = - qdot p q.
Proof. unfold qdot. unfold_rot. ring. Qed.
(* scalar part of p q* is p.q; the trace of R(p) R(q)^T is 4 (p.q)^2 - 1 on unit quaternions *)
Lemma qdot_conj_scalar p q : e (qmul p (qconj q)) 0 = qdot p q.
Proof. unfold qdot. unfold_rot. ring. Qed.

Lemma unit4_dot_le1 a b c d w x y z : unit4 a b c d -> unit4 w x y z -> Rabs (dot4 a b c d w x y z) <= 1.
Proof.
  unfold unit4, dot4. intros Hp Hq. apply Rabs_le.
  pose proof (cauchy_schwarz [a;b;c;d] [w;x;y;z]) as CS. simpl in CS.
  assert (H : (a*w+b*x+c*y+d*z)*(a*w+b*x+c*y+d*z) <= 1) by nra. nra.
Qed.

Lemma sq4_zero p q r s : p*p + q*q + r*r + s*s = 0 -> p = 0 /\ q = 0 /\ r = 0 /\ s = 0.
Proof.
  intros H. assert (Z : forall u, u * u <= 0 -> u = 0). { intros u Hu. destruct (Rtotal_order u 0) as [?|[?|?]]; [nra|assumption|nra]. }
  pose proof (Rle_0_sqr p). pose proof (Rle_0_sqr q). pose proof (Rle_0_sqr r). pose proof (Rle_0_sqr s). unfold Rsqr in *.
  repeat split; apply Z; lra.
Qed.

(* |p -+ q|^2 = 2 -+ 2 p.q : zero exactly when p = +-q *)
Lemma unit4_dot_one a b c d w x y z : unit4 a b c d -> unit4 w x y z ->
  (dot4 a b c d w x y z = 1 <-> (a = w /\ b = x /\ c = y /\ d = z)).
Proof.
  unfold unit4, dot4. intros Hp Hq. split.
  - intros H. assert (E : (a-w)*(a-w) + (b-x)*(b-x) + (c-y)*(c-y) + (d-z)*(d-z) = 0) by nra.
    apply sq4_zero in E. destruct E as (?&?&?&?). repeat split; lra.
  - intros (-> & -> & -> & ->). exact Hq.
Qed.
Lemma unit4_dot_mone a b c d w x y z : unit4 a b c d -> unit4 w x y z ->
  (dot4 a b c d w x y z = -1 <-> (a = -w /\ b = -x /\ c = -y /\ d = -z)).
Proof.
  unfold unit4, dot4. intros Hp Hq. split.
  - intros H. assert (E : (a+w)*(a+w) + (b+x)*(b+x) + (c+y)*(c+y) + (d+z)*(d+z) = 0) by nra.
    apply sq4_zero in E. destruct E as (?&?&?&?). repeat split; lra.
  - intros (-> & -> & -> & ->). nra.
Qed.

(* ---------------------------------------------------------------- trigonometry of the relative angle t, |p.q| = cos(t/2) *)
Lemma cos_half_guard t : 1/10000 <= t <= PI -> cos (t/2) <= 1 - 12/10000000000.
Proof.
  intros [H1 H2]. pose proof PI_RGT_0.
  assert (Hc : cos (t/2) <= cos (1/20000)).
  { destruct (Req_dec (t/2) (1/20000)) as [->|Hne]; [lra|]. left. apply cos_decreasing_1; lra. }
  assert (Hb : cos (1/20000) <= 1 - 12/10000000000).
  { (* Taylor: cos a <= 1 - a^2/2 + a^4/24 *)
    pose proof PI2_1 as P21. assert (B : - PI/2 <= 1/20000 <= PI/2) by lra.
    pose proof (cos_bound (1/20000) 0 (proj1 B) (proj2 B)) as [_ Hub].
    unfold cos_approx, cos_term in Hub. simpl in Hub. lra. }
  lra.
Qed.

Lemma half_range t : 0 <= t <= PI -> 0 <= cos (t/2) /\ 0 <= sin (t/2).
Proof.
  intros [H1 H2]. pose proof PI_RGT_0. split.
  - apply cos_ge_0; lra.
  - apply sin_ge_0; lra.
Qed.

Lemma sq_of_abs dd c : Rabs dd = c -> dd * dd = c * c.
Proof. intros <-. destruct (Rcase_abs dd); [rewrite Rabs_left by lra|rewrite Rabs_right by lra]; ring. Qed.

Lemma chordal_closed c s : c*c + s*s = 1 -> 0 <= s -> sqrt (8 - 8 * (c*c)) = 2 * sqrt 2 * s.
Proof.
  intros H Hs. replace (8 - 8 * (c*c)) with ((2*s)*(2*s) * 2) by nra.
  rewrite sqrt_mult_alt by nra. rewrite sqrt_sq_abs, Rabs_right by lra. ring.
Qed.

Lemma cos_of_half t : cos t = 2 * (cos (t/2) * cos (t/2)) - 1.
Proof. replace t with (2 * (t/2)) at 1 by field. rewrite cos_2a_cos. ring. Qed.
Lemma sin_of_half t : sin t = 2 * sin (t/2) * cos (t/2).
Proof. replace t with (2 * (t/2)) at 1 by field. apply sin_2a. Qed.

Lemma acos_double t : 0 <= t <= PI -> acos (2 * (cos (t/2) * cos (t/2)) - 1) = t.
Proof. intros H. rewrite <- cos_of_half. apply acos_cos. exact H. Qed.
Lemma acos_half t : 0 <= t <= PI -> acos (cos (t/2)) = t/2.
Proof. intros H. pose proof PI_RGT_0. apply acos_cos. lra. Qed.

(* atan2 (sin t) (cos t) = t on (0, PI) *)
Lemma atan2_sin_cos t : 0 < t < PI -> atan2 (sin t) (cos t) = t.
Proof.
  intros [H0 H1]. pose proof PI_RGT_0. assert (Hs : 0 < sin t) by (apply sin_gt_0; lra).
  unfold atan2. destruct (Rlt_dec 0 (cos t)) as [Hc|Hc].
  - assert (t < PI/2). { destruct (Rlt_dec t (PI/2)); [assumption|]. exfalso. assert (cos t <= 0) by (apply cos_le_0; lra). lra. }
    change (sin t / cos t) with (tan t). apply atan_tan. lra.
  - destruct (Rlt_dec (cos t) 0) as [Hc'|Hc'].
    + destruct (Rle_dec 0 (sin t)); [|lra].
      assert (PI/2 < t). { destruct (Rlt_dec (PI/2) t); [assumption|]. exfalso. assert (0 <= cos t) by (apply cos_ge_0; lra). lra. }
      assert (E : sin t / cos t = tan (t - PI)).
      { unfold tan. replace t with ((t - PI) + PI) at 1 2 by ring. rewrite neg_sin, neg_cos. field.
        intros E0. replace t with ((t - PI) + PI) in Hc' by ring. rewrite neg_cos in Hc'. lra. }
      rewrite E, atan_tan by lra. ring.
    + assert (Ec : cos t = 0) by lra. destruct (Rlt_dec 0 (sin t)); [|lra].
      destruct (Rtotal_order t (PI/2)) as [Hl|[->|Hg]]; [|reflexivity|].
      * exfalso. assert (0 < cos t) by (apply cos_gt_0; lra). lra.
      * exfalso. assert (cos t < 0) by (apply cos_lt_0; lra). lra.
Qed.
