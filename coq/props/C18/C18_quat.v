(* C18_quat.v — the regenerated quaternion metrics qdist / qeip / qcip / qad (1-D branch with its allclose shortcuts,
   N-row branch) are functions of |p.q|; the shortcuts are inert for relative angles >= 1e-4 rad. *)
From Coq Require Import Reals List Lra Psatz.
From AhrsLib Require Import Base Rot.
From AhrsGen Require Import C18gen_R.
From AhrsProps Require Import C18_norm.
Import ListNotations.
Open Scope R_scope.

(* numpy.isclose(u, v) with the default rtol = 1e-5, atol = 1e-8, as generated *)
Definition isc (u v : R) : Prop := Rabs (u - v) <= 1/100000000 + 1/100000 * Rabs v.

Lemma unit_comp_le1 a b c d : unit4 a b c d -> Rabs a <= 1 /\ Rabs b <= 1 /\ Rabs c <= 1 /\ Rabs d <= 1.
Proof. unfold unit4. intros H. repeat split; apply Rabs_le; nra. Qed.

(* allclose(p, q) on unit quaternions forces p.q >= 1 - 2.1e-10 *)
Lemma close4_dot a b c d w x y z : unit4 a b c d -> unit4 w x y z ->
  isc a w -> isc b x -> isc c y -> isc d z -> 1 - 21/100000000000 <= dot4 a b c d w x y z.
Proof.
  intros Hp Hq H1 H2 H3 H4. destruct (unit_comp_le1 _ _ _ _ Hq) as (Bw & Bx & By & Bz).
  unfold isc in *. unfold unit4, dot4 in *.
  assert (E : forall u v, Rabs v <= 1 -> Rabs (u - v) <= 1/100000000 + 1/100000 * Rabs v ->
              (u - v) * (u - v) <= (1001/100000000) * (1001/100000000)).
  { intros u v Bv H. assert (Hb : Rabs (u - v) <= 1001/100000000) by lra. apply Rabs_le_inv in Hb. nra. }
  pose proof (E a w Bw H1). pose proof (E b x Bx H2). pose proof (E c y By H3). pose proof (E d z Bz H4). nra.
Qed.

Lemma shortcut_pos a b c d w x y z : unit4 a b c d -> unit4 w x y z -> dot4 a b c d w x y z < 1 - 21/100000000000 ->
  isc a w -> isc b x -> isc c y -> isc d z -> False.
Proof. intros Hp Hq G H1 H2 H3 H4. pose proof (close4_dot _ _ _ _ _ _ _ _ Hp Hq H1 H2 H3 H4). lra. Qed.
Lemma shortcut_neg a b c d w x y z : unit4 a b c d -> unit4 w x y z -> - dot4 a b c d w x y z < 1 - 21/100000000000 ->
  isc (- a) w -> isc (- b) x -> isc (- c) y -> isc (- d) z -> False.
Proof.
  intros Hp Hq G H1 H2 H3 H4. assert (Hp' : unit4 (-a) (-b) (-c) (-d)) by (unfold unit4 in *; nra).
  pose proof (close4_dot _ _ _ _ _ _ _ _ Hp' Hq H1 H2 H3 H4) as K. unfold dot4 in *. lra.
Qed.

(* the property's range: |p.q| = cos(t/2) with t >= 1e-4 *)
Definition in_range (a b c d w x y z : R) : Prop := Rabs (dot4 a b c d w x y z) <= 1 - 12/10000000000.

Lemma in_range_of_t a b c d w x y z t : 1/10000 <= t <= PI -> Rabs (dot4 a b c d w x y z) = cos (t/2) -> in_range a b c d w x y z.
Proof. intros Ht Hd. unfold in_range. rewrite Hd. apply cos_half_guard. exact Ht. Qed.

(* min(|p-q|, |p+q|): whichever comparison (<, <=, negated, either order) the code uses to pick the smaller norm, the
   decisions are turned into facts on the sign of p.q and the leaf is closed at lra level *)
Lemma qd_plus dd : dd <= 0 -> sqrt (2 + 2*dd) = sqrt (2 - 2 * Rabs dd).
Proof. intros H. f_equal. rewrite Rabs_left1 by exact H. ring. Qed.
Lemma qd_minus dd : 0 <= dd -> sqrt (2 - 2*dd) = sqrt (2 - 2 * Rabs dd).
Proof. intros H. f_equal. rewrite Rabs_right by lra. ring. Qed.
Lemma sqrt_le_inv x y : 0 <= x -> 0 <= y -> sqrt x <= sqrt y -> x <= y.
Proof. intros Hx Hy H. apply sqrt_le_0; assumption. Qed.
(* B : - 1 <= dd <= 1 must be in the context *)
Ltac sqrt_cmp_facts :=
  repeat match goal with
  | H : ~ (sqrt _ < sqrt _) |- _ => apply Rnot_lt_le in H
  | H : ~ (sqrt _ <= sqrt _) |- _ => apply Rnot_le_lt in H
  | H : sqrt _ < sqrt _ |- _ => apply sqrt_lt_0_alt in H
  | H : sqrt _ <= sqrt _ |- _ => apply sqrt_le_inv in H; [|lra|lra]
  end.
Ltac qd_leaf :=
  try match goal with B : Rabs (dot4 _ _ _ _ _ _ _ _) <= 1 |- _ => apply Rabs_le_inv in B end;
  sqrt_cmp_facts; first [ apply qd_plus; lra | apply qd_minus; lra ].

(* ---- tactics over the generated decision trees (never on let-names) *)
(* the two normalising square roots are 1 on unit quaternions; done before zeta so that only they are visited *)
(* only the normalising divisions  _ / sqrt e  are visited (context matching sees through the lets; lazymatch: no
   backtracking over every leaf's sqrt with a failing ring call) *)
Ltac unit_norms :=
  repeat lazymatch goal with
  | |- context [Rdiv _ (sqrt ?e)] => let H := fresh in assert (H : e = 1) by hring; rewrite H; clear H; rewrite sqrt_1
  end;
  unfold Rdiv; rewrite ?Rinv_1, ?Rmult_1_r; cbv zeta.
(* rewrite the radicands |p -+ q|^2 to 2 -+ 2 p.q *)
Ltac canon_sqrt a b c d w x y z :=
  repeat match goal with
  | |- context [sqrt ?E] =>
      lazymatch E with
      | 2 - 2 * _ => fail
      | 2 + 2 * _ => fail
      | _ => first [ replace E with (2 - 2 * dot4 a b c d w x y z) by (unfold dot4; hring)
                   | replace E with (2 + 2 * dot4 a b c d w x y z) by (unfold dot4; hring) ]
      end
  end.
Ltac canon_dot a b c d w x y z :=
  repeat match goal with
  | |- context [Rabs ?X] =>
      lazymatch X with
      | dot4 _ _ _ _ _ _ _ _ => fail
      | - dot4 _ _ _ _ _ _ _ _ => rewrite Rabs_Ropp
      | _ => first [ replace X with (dot4 a b c d w x y z) by (unfold dot4; ring)
                   | replace X with (- dot4 a b c d w x y z) by (unfold dot4; ring) ]
      end
  end.
Ltac shortcut_dead a b c d w x y z :=
  exfalso; first [ eapply (shortcut_pos a b c d w x y z); eassumption | eapply (shortcut_neg a b c d w x y z); eassumption ].

Lemma range_gates a b c d w x y z : in_range a b c d w x y z ->
  dot4 a b c d w x y z < 1 - 21/100000000000 /\ - dot4 a b c d w x y z < 1 - 21/100000000000.
Proof. unfold in_range. intros H. apply Rabs_le_inv in H. lra. Qed.
Ltac start_quat Hp Hq Hg :=
  let G1 := fresh "G1" in let G2 := fresh "G2" in let B := fresh "B" in
  pose proof (unit4_dot_le1 _ _ _ _ _ _ _ _ Hp Hq) as B;
  destruct (range_gates _ _ _ _ _ _ _ _ Hg) as [G1 G2];
  let Hp' := fresh in let Hq' := fresh in
  pose proof Hp as Hp'; pose proof Hq as Hq'; unfold unit4 in Hp', Hq'; orient_unit.

(* ---- 1-D branch: inside the property's range the shortcuts are not taken and the value is the formula *)
Lemma qeip_spec a b c d w x y z : unit4 a b c d -> unit4 w x y z -> in_range a b c d w x y z ->
  C18_qeip_R a b c d w x y z = Val [1 - Rabs (dot4 a b c d w x y z)].
Proof.
  intros Hp Hq Hg. start_quat Hp Hq Hg. unfold C18_qeip_R. unit_norms.
  repeat destr_dec; first [ shortcut_dead a b c d w x y z | canon_dot a b c d w x y z; reflexivity ].
Qed.

Lemma qcip_spec a b c d w x y z : unit4 a b c d -> unit4 w x y z -> in_range a b c d w x y z ->
  C18_qcip_R a b c d w x y z = Val [acos (Rabs (dot4 a b c d w x y z))].
Proof.
  intros Hp Hq Hg. start_quat Hp Hq Hg. unfold C18_qcip_R. unit_norms.
  repeat destr_dec; first [ shortcut_dead a b c d w x y z | canon_dot a b c d w x y z; reflexivity ].
Qed.

Lemma qad_spec a b c d w x y z : unit4 a b c d -> unit4 w x y z -> in_range a b c d w x y z ->
  C18_qad_R a b c d w x y z = Val [acos (2 * (dot4 a b c d w x y z * dot4 a b c d w x y z) - 1)].
Proof.
  intros Hp Hq Hg. start_quat Hp Hq Hg. unfold C18_qad_R. unit_norms.
  repeat destr_dec; first [ shortcut_dead a b c d w x y z | val_eq; f_equal; unfold dot4; ring ].
Qed.

Lemma qdist_spec a b c d w x y z : unit4 a b c d -> unit4 w x y z -> in_range a b c d w x y z ->
  C18_qdist_R a b c d w x y z = Val [sqrt (2 - 2 * Rabs (dot4 a b c d w x y z))].
Proof.
  intros Hp Hq Hg. start_quat Hp Hq Hg. unfold C18_qdist_R. unit_norms. canon_sqrt a b c d w x y z.
  repeat destr_dec;
    first [ shortcut_dead a b c d w x y z | val_eq; qd_leaf ].
Qed.

(* ---- 1-D branch at coinciding rotations q = p and q = -p: exactly zero (through the shortcut) *)
Ltac zero_leaf :=
  first [ reflexivity
        | exfalso;
          match goal with
          | H : ~ (Rabs ?E <= _ + _ * Rabs ?v) |- _ =>
              apply H; replace E with 0 by ring; rewrite Rabs_R0; pose proof (Rabs_pos v); lra
          end ].
Lemma coincide_zero w x y z : unit4 w x y z ->
  C18_qdist_R w x y z w x y z = Val [0] /\ C18_qeip_R w x y z w x y z = Val [0] /\
  C18_qcip_R w x y z w x y z = Val [0] /\ C18_qad_R w x y z w x y z = Val [0].
Proof.
  intros Hq. unfold unit4 in Hq. orient_unit.
  repeat split; [unfold C18_qdist_R|unfold C18_qeip_R|unfold C18_qcip_R|unfold C18_qad_R];
    unit_norms; repeat destr_dec; zero_leaf.
Qed.
Lemma antipode_zero w x y z : unit4 w x y z ->
  C18_qdist_R (-w) (-x) (-y) (-z) w x y z = Val [0] /\ C18_qeip_R (-w) (-x) (-y) (-z) w x y z = Val [0] /\
  C18_qcip_R (-w) (-x) (-y) (-z) w x y z = Val [0] /\ C18_qad_R (-w) (-x) (-y) (-z) w x y z = Val [0].
Proof.
  intros Hq. unfold unit4 in Hq.
  assert (Hn : - w * - w + - x * - x + - y * - y + - z * - z = 1) by (rewrite <- Hq; ring).
  orient_unit.
  repeat split; [unfold C18_qdist_R|unfold C18_qeip_R|unfold C18_qcip_R|unfold C18_qad_R];
    unit_norms; repeat destr_dec; zero_leaf.
Qed.

(* ---- N-row branch with N = 4, rows (p,q), (q,p), (-p,q), (q,-p): no shortcut, the formula on every row (the same
   value on all four), for all unit quaternions *)
Definition four (v : R) : list R := [v; v; v; v].
Lemma clip_inert u : -1 <= u <= 1 -> Rmin (Rmax u (-1)) 1 = u.
Proof. intros [H1 H2]. rewrite Rmax_left by lra. rewrite Rmin_left by lra. reflexivity. Qed.
Lemma qeip_batch_spec a b c d w x y z : unit4 a b c d -> unit4 w x y z ->
  C18_qeip_batch_R a b c d w x y z = Val (four (1 - Rabs (dot4 a b c d w x y z))).
Proof.
  intros Hp Hq. unfold unit4 in Hp, Hq. orient_unit. unfold C18_qeip_batch_R. unit_norms.
  canon_dot a b c d w x y z. reflexivity.
Qed.
Lemma qcip_batch_spec a b c d w x y z : unit4 a b c d -> unit4 w x y z ->
  C18_qcip_batch_R a b c d w x y z = Val (four (acos (Rabs (dot4 a b c d w x y z)))).
Proof.
  intros Hp Hq. pose proof (unit4_dot_le1 _ _ _ _ _ _ _ _ Hp Hq) as B. pose proof (Rabs_pos (dot4 a b c d w x y z)) as B0.
  unfold unit4 in Hp, Hq. orient_unit. unfold C18_qcip_batch_R. unit_norms.
  canon_dot a b c d w x y z.
  (* a clip of the arccos argument to [-1, 1] (as in qad) is inert over the reals *)
  repeat rewrite clip_inert by lra. reflexivity.
Qed.
Lemma qad_batch_spec a b c d w x y z : unit4 a b c d -> unit4 w x y z ->
  C18_qad_batch_R a b c d w x y z = Val (four (acos (2 * (dot4 a b c d w x y z * dot4 a b c d w x y z) - 1))).
Proof.
  intros Hp Hq. pose proof (unit4_dot_le1 _ _ _ _ _ _ _ _ Hp Hq) as B. apply Rabs_le_inv in B.
  unfold unit4 in Hp, Hq. orient_unit. unfold C18_qad_batch_R. unit_norms.
  repeat match goal with
  | |- context [Rmin (Rmax ?u (-1)) 1] =>
      lazymatch u with
      | 2 * (dot4 _ _ _ _ _ _ _ _ * _) - 1 => fail
      | _ => replace u with (2 * (dot4 a b c d w x y z * dot4 a b c d w x y z) - 1) by (unfold dot4; ring)
      end
  end.
  rewrite clip_inert by nra. reflexivity.
Qed.
Lemma qdist_batch_spec a b c d w x y z : unit4 a b c d -> unit4 w x y z ->
  C18_qdist_batch_R a b c d w x y z = Val (four (sqrt (2 - 2 * Rabs (dot4 a b c d w x y z)))).
Proof.
  intros Hp Hq. pose proof (unit4_dot_le1 _ _ _ _ _ _ _ _ Hp Hq) as B.
  unfold unit4 in Hp, Hq. orient_unit. unfold C18_qdist_batch_R. unit_norms. canon_sqrt a b c d w x y z.
  repeat destr_dec; val_eq; qd_leaf.
Qed.

(* ---- closed forms in the relative angle *)
Lemma quat_closed_t a b c d w x y z t : unit4 a b c d -> unit4 w x y z -> 1/10000 <= t <= PI ->
  Rabs (dot4 a b c d w x y z) = cos (t/2) ->
  C18_qdist_R a b c d w x y z = Val [sqrt (2 * (1 - cos (t/2)))] /\ C18_qeip_R a b c d w x y z = Val [1 - cos (t/2)] /\
  C18_qcip_R a b c d w x y z = Val [t/2] /\ C18_qad_R a b c d w x y z = Val [t].
Proof.
  intros Hp Hq Ht Hd. pose proof (in_range_of_t _ _ _ _ _ _ _ _ t Ht Hd) as Hg.
  assert (Ht' : 0 <= t <= PI) by lra.
  rewrite qdist_spec, qeip_spec, qcip_spec, qad_spec by assumption. rewrite (sq_of_abs _ _ Hd), Hd.
  rewrite acos_half, acos_double by exact Ht'. repeat split. val_eq. f_equal. ring.
Qed.
Lemma quat_batch_closed_t a b c d w x y z t : unit4 a b c d -> unit4 w x y z -> 0 <= t <= PI ->
  Rabs (dot4 a b c d w x y z) = cos (t/2) ->
  C18_qdist_batch_R a b c d w x y z = Val (four (sqrt (2 * (1 - cos (t/2))))) /\
  C18_qeip_batch_R a b c d w x y z = Val (four (1 - cos (t/2))) /\
  C18_qcip_batch_R a b c d w x y z = Val (four (t/2)) /\ C18_qad_batch_R a b c d w x y z = Val (four t).
Proof.
  intros Hp Hq Ht Hd. rewrite qdist_batch_spec, qeip_batch_spec, qcip_batch_spec, qad_batch_spec by assumption.
  rewrite (sq_of_abs _ _ Hd), Hd. rewrite acos_half, acos_double by exact Ht. repeat split. unfold four. val_eq; f_equal; ring.
Qed.
