(* C18.v — property C18: rotation metrics are bi-invariant distances with their closed forms. Statements only. *)
From Coq Require Import Reals List Lra.
From AhrsLib Require Import Base Rot.
From AhrsGen Require Import C18gen_R.
From AhrsProps Require Import C18_norm C18_matrix C18_quat C18_angdist C18_main.
Import ListNotations.
Open Scope R_scope.

(* chordal(R1, R2) on ANY two proper rotations (2-D branch): ||R1 - R2||_F^2 = 6 - 2 tr(R1^T R2) *)
Theorem C18_chordal_closed_form : forall A B : list R, SO3 A -> SO3 B ->
  exists dist, app18 C18_chordal_M_R A B = Val [dist] /\ 0 <= dist /\ dist * dist = 6 - 2 * tr3 (mmul3 (mtr3 A) B).
Proof. exact chordal_closed_form_M. Qed.
Print Assumptions C18_chordal_closed_form.

(* identity_deviation = chordal whenever the second argument is a rotation *)
Theorem C18_identity_deviation_eq_chordal : forall A B : list R, length A = 9%nat -> SO3 B ->
  app18 C18_iddev_M_R A B = app18 C18_chordal_M_R A B.
Proof. exact iddev_eq_chordal_M. Qed.
Print Assumptions C18_identity_deviation_eq_chordal.

(* bi-invariance of the two Frobenius metrics under left / right multiplication by any rotation S *)
Theorem C18_matrix_metrics_biinvariant : forall S A B : list R, SO3 S -> SO3 A -> SO3 B ->
  app18 C18_chordal_M_R (mmul3 S A) (mmul3 S B) = app18 C18_chordal_M_R A B /\
  app18 C18_chordal_M_R (mmul3 A S) (mmul3 B S) = app18 C18_chordal_M_R A B /\
  app18 C18_iddev_M_R (mmul3 S A) (mmul3 S B) = app18 C18_iddev_M_R A B /\
  app18 C18_iddev_M_R (mmul3 A S) (mmul3 B S) = app18 C18_iddev_M_R A B.
Proof.
  intros S A B HS HA HB. split; [apply chordal_left_M; [exact HS|apply HA|apply HB]|].
  split; [apply chordal_right_M; [exact HS|apply HA|apply HB]|]. split; [apply iddev_left_M|apply iddev_right_M]; assumption.
Qed.
Print Assumptions C18_matrix_metrics_biinvariant.

(* chordal is a metric on 3x3 arrays: symmetric, zero exactly on equal arguments, triangle inequality (Minkowski);
   identity_deviation inherits the triangle inequality on rotations *)
Theorem C18_chordal_is_a_metric : forall A B C : list R, length A = 9%nat -> length B = 9%nat -> length C = 9%nat ->
  app18 C18_chordal_M_R A B = app18 C18_chordal_M_R B A /\
  (app18 C18_chordal_M_R A B = Val [0] <-> A = B) /\
  exists dAC dAB dBC, app18 C18_chordal_M_R A C = Val [dAC] /\ app18 C18_chordal_M_R A B = Val [dAB] /\
    app18 C18_chordal_M_R B C = Val [dBC] /\ 0 <= dAC /\ dAC <= dAB + dBC.
Proof.
  intros A B C LA LB LC. split; [exact (chordal_sym_M A B LA LB)|]. split; [exact (chordal_zero_iff_M A B LA LB)|].
  exact (chordal_triangle_M A B C LA LB LC).
Qed.
Print Assumptions C18_chordal_is_a_metric.

Theorem C18_identity_deviation_triangle : forall A B C : list R, SO3 A -> SO3 B -> SO3 C ->
  exists dAC dAB dBC, app18 C18_iddev_M_R A C = Val [dAC] /\ app18 C18_iddev_M_R A B = Val [dAB] /\
    app18 C18_iddev_M_R B C = Val [dBC] /\ 0 <= dAC /\ dAC <= dAB + dBC.
Proof. exact iddev_triangle_M. Qed.
Print Assumptions C18_identity_deviation_triangle.

(* N-row branch of chordal (N = 3): every row is the 2-D value of that row *)
Theorem C18_chordal_rows : forall A B : list R, length A = 9%nat -> length B = 9%nat ->
  app18 C18_chordal_M_batch_R A B = Val [frob (msub3 A B); frob (msub3 B A); 0] /\
  app18 C18_chordal_M_R A B = Val [frob (msub3 A B)].
Proof. intros A B LA LB. split; [exact (chordal_M_batch_spec A B LA LB)|exact (chordal_M_spec A B LA LB)]. Qed.
Print Assumptions C18_chordal_rows.

(* the quaternion dot product is bi-invariant for ALL quaternions: (r p).(r q) = |r|^2 p.q = (p r).(q r) *)
Theorem C18_dot_biinvariant : forall r p q : list R,
  qdot (qmul r p) (qmul r q) = qnorm2 r * qdot p q /\ qdot (qmul p r) (qmul q r) = qnorm2 r * qdot p q /\
  qdot p q = qdot q p /\ qdot (qneg p) q = - qdot p q.
Proof. intros r p q. split; [apply qdot_left|]. split; [apply qdot_right|]. split; [apply qdot_sym|apply qdot_neg_l]. Qed.
Print Assumptions C18_dot_biinvariant.

(* closed forms of all seven metrics in the relative angle t, |p.q| = cos(t/2), for 1e-4 <= t < PI
   (order: angular_distance, chordal, identity_deviation, qdist, qeip, qcip, qad) *)
Theorem C18_closed_forms : forall a b c d w x y z t, unit4 a b c d -> unit4 w x y z -> 1/10000 <= t < PI ->
  Rabs (dot4 a b c d w x y z) = cos (t/2) ->
  seven [a;b;c;d] [w;x;y;z] =
    [Val [sqrt 2 * t]; Val [2 * sqrt 2 * sin (t/2)]; Val [2 * sqrt 2 * sin (t/2)];
     Val [sqrt (2 * (1 - cos (t/2)))]; Val [1 - cos (t/2)]; Val [t/2]; Val [t]].
Proof. exact seven_closed. Qed.
Print Assumptions C18_closed_forms.

(* the six metrics without a logarithm: up to and including the half-turn t = PI *)
Theorem C18_closed_forms_up_to_half_turn : forall a b c d w x y z t, unit4 a b c d -> unit4 w x y z -> 1/10000 <= t <= PI ->
  Rabs (dot4 a b c d w x y z) = cos (t/2) ->
  six [a;b;c;d] [w;x;y;z] =
    [Val [2 * sqrt 2 * sin (t/2)]; Val [2 * sqrt 2 * sin (t/2)];
     Val [sqrt (2 * (1 - cos (t/2)))]; Val [1 - cos (t/2)]; Val [t/2]; Val [t]].
Proof. exact six_closed. Qed.
Print Assumptions C18_closed_forms_up_to_half_turn.

(* angular_distance, PARTIAL: sqrt 2 * t for 0 <= t < PI (t = PI is the known finding angular_distance/exact-half-turn) *)
Theorem C18_angular_distance_closed_form_partial : forall a b c d w x y z t, unit4 a b c d -> unit4 w x y z -> 0 <= t < PI ->
  Rabs (dot4 a b c d w x y z) = cos (t/2) -> C18_angdist_R a b c d w x y z = Val [sqrt 2 * t].
Proof. exact angdist_closed_t. Qed.
Print Assumptions C18_angular_distance_closed_form_partial.

(* the allclose shortcuts of the 1-D quaternion branch cannot fire for relative angles >= 1e-4 *)
Theorem C18_shortcuts_inert : forall a b c d w x y z t, unit4 a b c d -> unit4 w x y z -> 1/10000 <= t <= PI ->
  Rabs (dot4 a b c d w x y z) = cos (t/2) ->
  ~ (isc a w /\ isc b x /\ isc c y /\ isc d z) /\ ~ (isc (-a) w /\ isc (-b) x /\ isc (-c) y /\ isc (-d) z).
Proof. intros a b c d w x y z t Hp Hq Ht Hd. apply shortcuts_inert; try assumption. exact (in_range_of_t _ _ _ _ _ _ _ _ t Ht Hd). Qed.
Print Assumptions C18_shortcuts_inert.

(* N-row branch of the quaternion metrics, N = 4, rows (p,q), (q,p), (-p,q), (q,-p): the closed form on every row, for
   every relative angle 0 <= t <= PI (no shortcut in this branch) *)
Theorem C18_quaternion_rows : forall a b c d w x y z t, unit4 a b c d -> unit4 w x y z -> 0 <= t <= PI ->
  Rabs (dot4 a b c d w x y z) = cos (t/2) ->
  C18_qdist_batch_R a b c d w x y z = Val (four (sqrt (2 * (1 - cos (t/2))))) /\
  C18_qeip_batch_R a b c d w x y z = Val (four (1 - cos (t/2))) /\
  C18_qcip_batch_R a b c d w x y z = Val (four (t/2)) /\ C18_qad_batch_R a b c d w x y z = Val (four t).
Proof. exact quat_batch_closed_t. Qed.
Print Assumptions C18_quaternion_rows.

(* symmetry, sign invariance q -> -q, left and right invariance of every metric, for relative angles >= 1e-4
   (angular_distance: below PI); R(r p) = R(r) R(p), so the matrix arguments are multiplied by the rotation R(r) *)
Theorem C18_invariances : forall r p q : list R, unitq r -> unitq p -> unitq q -> apart p q ->
  same_metrics p q q p /\ same_metrics p q (qneg p) q /\
  same_metrics p q (qmul r p) (qmul r q) /\ same_metrics p q (qmul p r) (qmul q r).
Proof.
  intros r p q Hr Hp Hq G. split; [apply same_sym; assumption|]. split; [apply same_neg; assumption|].
  split; [apply same_left; assumption|apply same_right; assumption].
Qed.
Print Assumptions C18_invariances.
Theorem C18_matrix_of_product : forall a b c d w x y z, unit4 a b c d -> unit4 w x y z ->
  Rspec (qmul [a;b;c;d] [w;x;y;z]) = mmul3 (Rspec [a;b;c;d]) (Rspec [w;x;y;z]) /\ SO3 (Rspec [a;b;c;d]).
Proof. intros a b c d w x y z Hp Hq. split; [exact (Rspec_mul a b c d w x y z Hp Hq)|exact (Rspec_SO3 a b c d Hp)]. Qed.
Print Assumptions C18_matrix_of_product.

(* zero exactly when the rotations coincide: all seven are 0 at q = p and q = -p, and strictly positive in the range *)
Theorem C18_zero_iff_coincide : forall w x y z, unit4 w x y z ->
  seven [w;x;y;z] [w;x;y;z] = [Val [0]; Val [0]; Val [0]; Val [0]; Val [0]; Val [0]; Val [0]] /\
  seven [-w;-x;-y;-z] [w;x;y;z] = [Val [0]; Val [0]; Val [0]; Val [0]; Val [0]; Val [0]; Val [0]].
Proof. exact seven_coincide. Qed.
Print Assumptions C18_zero_iff_coincide.
Theorem C18_positive_in_range : forall t, 1/10000 <= t <= PI ->
  0 < 2 * sqrt 2 * sin (t/2) /\ 0 < sqrt 2 * t /\ 0 < sqrt (2 * (1 - cos (t/2))) /\ 0 < 1 - cos (t/2) /\ 0 < t/2 /\ 0 < t.
Proof. exact closed_forms_positive. Qed.
Print Assumptions C18_positive_in_range.

(* triangle inequality of qdist (1-D branch inside the range; N-row branch for all unit quaternions) *)
Theorem C18_qdist_triangle : forall a b c d w x y z k l m n, unit4 a b c d -> unit4 w x y z -> unit4 k l m n ->
  in_range a b c d k l m n -> in_range a b c d w x y z -> in_range w x y z k l m n ->
  exists dpr dpq dqr, C18_qdist_R a b c d k l m n = Val [dpr] /\ C18_qdist_R a b c d w x y z = Val [dpq] /\
    C18_qdist_R w x y z k l m n = Val [dqr] /\ 0 <= dpr /\ dpr <= dpq + dqr.
Proof. exact qdist_triangle. Qed.
Print Assumptions C18_qdist_triangle.
Theorem C18_qdist_rows_triangle : forall a b c d w x y z k l m n, unit4 a b c d -> unit4 w x y z -> unit4 k l m n ->
  exists dpr dpq dqr, C18_qdist_batch_R a b c d k l m n = Val (four dpr) /\ C18_qdist_batch_R a b c d w x y z = Val (four dpq) /\
    C18_qdist_batch_R w x y z k l m n = Val (four dqr) /\ 0 <= dpr /\ dpr <= dpq + dqr.
Proof. exact qdist_batch_triangle. Qed.
Print Assumptions C18_qdist_rows_triangle.

(* non-vacuity: a pair of unit quaternions one radian apart satisfies every hypothesis above *)
Example C18_nonvacuous : unit4 1 0 0 0 /\ unit4 (cos (1/2)) (sin (1/2)) 0 0 /\ 1/10000 <= 1 < PI /\
  Rabs (dot4 1 0 0 0 (cos (1/2)) (sin (1/2)) 0 0) = cos (1/2).
Proof. exact example_pair. Qed.
