(* C18_matrix.v — the regenerated chordal / identity_deviation (2-D and N-row branch) are the Frobenius distance;
   closed forms, bi-invariance, triangle inequality, zero set. *)
From Coq Require Import Reals List Lra Psatz.
From AhrsLib Require Import Base Rot.
From AhrsGen Require Import C18gen_R.
From AhrsProps Require Import C18_norm.
Import ListNotations.
Open Scope R_scope.

(* a generated 18-argument matrix metric applied to two row-major 9-lists *)
Definition app18 (f : R -> R -> R -> R -> R -> R -> R -> R -> R -> R -> R -> R -> R -> R -> R -> R -> R -> R -> outcome R)
  (A B : list R) : outcome R :=
  f (e A 0) (e A 1) (e A 2) (e A 3) (e A 4) (e A 5) (e A 6) (e A 7) (e A 8)
    (e B 0) (e B 1) (e B 2) (e B 3) (e B 4) (e B 5) (e B 6) (e B 7) (e B 8).

Ltac two9 A B LA LB :=
  destruct (len9 A LA) as (?a0&?a1&?a2&?a3&?a4&?a5&?a6&?a7&?a8&->);
  destruct (len9 B LB) as (?b0&?b1&?b2&?b3&?b4&?b5&?b6&?b7&?b8&->).

Lemma chordal_M_spec A B : length A = 9%nat -> length B = 9%nat -> app18 C18_chordal_M_R A B = Val [frob (msub3 A B)].
Proof. intros LA LB. two9 A B LA LB. unfold app18, C18_chordal_M_R, frob. cbv zeta. val_eq; try (f_equal; unfold_m; ring). Qed.

Lemma iddev_M_spec A B : length A = 9%nat -> length B = 9%nat ->
  app18 C18_iddev_M_R A B = Val [frob (msub3 I3 (mmul3 A (mtr3 B)))].
Proof. intros LA LB. two9 A B LA LB. unfold app18, C18_iddev_M_R, frob. cbv zeta. val_eq; try (f_equal; unfold_m; ring). Qed.

(* N-row branch with N = 3, rows (A,B), (B,A), (A,A): each row is the 2-D result of that row *)
Lemma chordal_M_batch_spec A B : length A = 9%nat -> length B = 9%nat ->
  app18 C18_chordal_M_batch_R A B = Val [frob (msub3 A B); frob (msub3 B A); 0].
Proof.
  intros LA LB. two9 A B LA LB. unfold app18, C18_chordal_M_batch_R, frob. cbv zeta. val_eq; try (f_equal; unfold_m; ring).
Qed.

(* the quaternion-bound targets are the matrix targets on the textbook matrices (for all reals) *)
Lemma chordal_is_M a b c d w x y z : C18_chordal_R a b c d w x y z = app18 C18_chordal_M_R (Rspec [a;b;c;d]) (Rspec [w;x;y;z]).
Proof. unfold app18, C18_chordal_R, C18_chordal_M_R. cbv zeta. unfold_rot. val_eq; try (f_equal; ring). Qed.
Lemma iddev_is_M a b c d w x y z : C18_iddev_R a b c d w x y z = app18 C18_iddev_M_R (Rspec [a;b;c;d]) (Rspec [w;x;y;z]).
Proof. unfold app18, C18_iddev_R, C18_iddev_M_R. cbv zeta. unfold_rot. val_eq; try (f_equal; ring). Qed.

(* ---- chordal: closed form, identity deviation, invariance, metric axioms (general orthogonal matrices) *)
Lemma chordal_closed_form_M A B : SO3 A -> SO3 B ->
  exists dist, app18 C18_chordal_M_R A B = Val [dist] /\ 0 <= dist /\ dist * dist = 6 - 2 * tr3 (mmul3 (mtr3 A) B).
Proof.
  intros HA HB. exists (frob (msub3 A B)). split; [apply chordal_M_spec; [apply HA|apply HB]|].
  split; [apply sqrt_pos|]. unfold frob. rewrite sqrt_sqrt by apply frob2_nonneg.
  apply chordal_trace_form; apply SO3_orth3; assumption.
Qed.

Lemma iddev_eq_chordal_M A B : length A = 9%nat -> SO3 B -> app18 C18_iddev_M_R A B = app18 C18_chordal_M_R A B.
Proof.
  intros LA HB. rewrite iddev_M_spec, chordal_M_spec by (try exact LA; apply HB). unfold frob.
  rewrite iddev_eq_chordal by (apply SO3_orth3; exact HB). reflexivity.
Qed.

Lemma chordal_left_M S A B : SO3 S -> length A = 9%nat -> length B = 9%nat ->
  app18 C18_chordal_M_R (mmul3 S A) (mmul3 S B) = app18 C18_chordal_M_R A B.
Proof.
  intros HS LA LB. rewrite !chordal_M_spec by (try assumption; reflexivity). unfold frob.
  rewrite frob2_diff_left by (apply SO3_orth3; exact HS). reflexivity.
Qed.
Lemma chordal_right_M S A B : SO3 S -> length A = 9%nat -> length B = 9%nat ->
  app18 C18_chordal_M_R (mmul3 A S) (mmul3 B S) = app18 C18_chordal_M_R A B.
Proof.
  intros HS LA LB. rewrite !chordal_M_spec by (try assumption; reflexivity). unfold frob.
  rewrite frob2_diff_right by (apply SO3_orth3; exact HS). reflexivity.
Qed.
Lemma iddev_left_M S A B : SO3 S -> SO3 A -> SO3 B ->
  app18 C18_iddev_M_R (mmul3 S A) (mmul3 S B) = app18 C18_iddev_M_R A B.
Proof.
  intros HS HA HB. rewrite !iddev_eq_chordal_M by (try apply SO3_mul; try assumption; try reflexivity; apply HA).
  apply chordal_left_M; [exact HS|apply HA|apply HB].
Qed.
Lemma iddev_right_M S A B : SO3 S -> SO3 A -> SO3 B ->
  app18 C18_iddev_M_R (mmul3 A S) (mmul3 B S) = app18 C18_iddev_M_R A B.
Proof.
  intros HS HA HB. rewrite !iddev_eq_chordal_M by (try apply SO3_mul; try assumption; try reflexivity; apply HA).
  apply chordal_right_M; [exact HS|apply HA|apply HB].
Qed.

Lemma chordal_sym_M A B : length A = 9%nat -> length B = 9%nat -> app18 C18_chordal_M_R A B = app18 C18_chordal_M_R B A.
Proof. intros LA LB. rewrite !chordal_M_spec by assumption. unfold frob. rewrite frob2_msub3_sym. reflexivity. Qed.

Lemma chordal_zero_iff_M A B : length A = 9%nat -> length B = 9%nat ->
  (app18 C18_chordal_M_R A B = Val [0] <-> A = B).
Proof.
  intros LA LB. rewrite chordal_M_spec by assumption. rewrite <- (frob_zero_iff A B LA LB). split.
  - intros H. injection H as H. exact H.
  - intros ->. reflexivity.
Qed.

Lemma chordal_triangle_M A B C : length A = 9%nat -> length B = 9%nat -> length C = 9%nat ->
  exists dAC dAB dBC, app18 C18_chordal_M_R A C = Val [dAC] /\ app18 C18_chordal_M_R A B = Val [dAB] /\
    app18 C18_chordal_M_R B C = Val [dBC] /\ 0 <= dAC /\ dAC <= dAB + dBC.
Proof.
  intros LA LB LC. exists (frob (msub3 A C)), (frob (msub3 A B)), (frob (msub3 B C)).
  rewrite !chordal_M_spec by assumption. repeat split; [apply sqrt_pos|apply frob_triangle; assumption].
Qed.

Lemma iddev_triangle_M A B C : SO3 A -> SO3 B -> SO3 C ->
  exists dAC dAB dBC, app18 C18_iddev_M_R A C = Val [dAC] /\ app18 C18_iddev_M_R A B = Val [dAB] /\
    app18 C18_iddev_M_R B C = Val [dBC] /\ 0 <= dAC /\ dAC <= dAB + dBC.
Proof.
  intros HA HB HC. rewrite !iddev_eq_chordal_M by (try assumption; try apply HA; apply HB).
  apply chordal_triangle_M; [apply HA|apply HB|apply HC].
Qed.

(* ---- quaternion-bound matrices: closed form in p.q and in the relative angle *)
Lemma tr_RpT_Rq a b c d w x y z : unit4 a b c d -> unit4 w x y z ->
  tr3 (mmul3 (mtr3 (Rspec [a;b;c;d])) (Rspec [w;x;y;z])) = 4 * (dot4 a b c d w x y z * dot4 a b c d w x y z) - 1.
Proof. unfold unit4, dot4. intros Hp Hq. orient_unit. unfold_rot. uring. Qed.

Lemma chordal_dot a b c d w x y z : unit4 a b c d -> unit4 w x y z ->
  C18_chordal_R a b c d w x y z = Val [sqrt (8 - 8 * (dot4 a b c d w x y z * dot4 a b c d w x y z))].
Proof.
  intros Hp Hq. rewrite chordal_is_M, chordal_M_spec by reflexivity. unfold frob.
  rewrite chordal_trace_form by (apply SO3_orth3, Rspec_SO3; assumption). rewrite (tr_RpT_Rq _ _ _ _ _ _ _ _ Hp Hq).
  val_eq. f_equal. ring.
Qed.
Lemma iddev_dot a b c d w x y z : unit4 a b c d -> unit4 w x y z ->
  C18_iddev_R a b c d w x y z = Val [sqrt (8 - 8 * (dot4 a b c d w x y z * dot4 a b c d w x y z))].
Proof.
  intros Hp Hq. rewrite iddev_is_M, iddev_eq_chordal_M, <- chordal_is_M by (try reflexivity; apply Rspec_SO3; assumption).
  apply chordal_dot; assumption.
Qed.

Lemma chordal_closed_t a b c d w x y z t : unit4 a b c d -> unit4 w x y z -> 0 <= t <= PI ->
  Rabs (dot4 a b c d w x y z) = cos (t/2) ->
  C18_chordal_R a b c d w x y z = Val [2 * sqrt 2 * sin (t/2)] /\ C18_iddev_R a b c d w x y z = Val [2 * sqrt 2 * sin (t/2)].
Proof.
  intros Hp Hq Ht Hd. rewrite chordal_dot, iddev_dot by assumption. rewrite (sq_of_abs _ _ Hd).
  destruct (half_range t Ht) as [_ Hs]. rewrite (chordal_closed (cos (t/2)) (sin (t/2))); [split; reflexivity| |exact Hs].
  rewrite Rplus_comm. apply sin2_cos2.
Qed.
