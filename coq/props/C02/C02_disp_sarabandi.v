(* C02_disp_sarabandi.v (thorough tier) — DCM(R).to_quaternion('sarabandi', threshold=eta): sgn(w) q for w <> 0, eta < 3. *)
From Coq Require Import Reals List Lra Psatz.
From AhrsLib Require Import Base Rot Dcm2q.
From AhrsGen Require Import C02gen_R.
Import ListNotations.
Open Scope R_scope.

Lemma DCM_sarabandi w x y z eta : w*w+x*x+y*y+z*z = 1 -> w <> 0 -> eta < 3 ->
  is_out (Val (qsc (Rsgn w) w x y z)) (C02_DCM_sarabandi_q_R w x y z eta).
Proof. intros Hunit Hw Heta. unit_open Hunit U. pose proof (Rabs_pos_lt w Hw) as Haw0. cbv beta delta [C02_DCM_sarabandi_q_R].
  walk2 ltac:(trio_rad w x y z U Hw Hu) ltac:(trio_fin w x y z Hw Hu). Qed.
