(* C02_domain.v — the property's domain for the closed-form trio, "rotation angle up to pi minus one micro-radian,
   including angles arbitrarily close to zero", in terms of the quaternion: q = (cos(th/2), sin(th/2) a), |a| = 1,
   |th| <= PI - 1e-6  implies  q is a unit quaternion with  w >= sin(5e-7) > 1e-8 > 0. *)
From Coq Require Import Reals List Lra Psatz.
From AhrsLib Require Import Base Rot Dcm2q.
Import ListNotations.
Open Scope R_scope.

Definition axang (th a1 a2 a3 : R) : list R := [cos (th/2); sin (th/2) * a1; sin (th/2) * a2; sin (th/2) * a3].

Lemma axang_unit th a1 a2 a3 : a1*a1+a2*a2+a3*a3 = 1 ->
  cos (th/2) * cos (th/2) + sin (th/2) * a1 * (sin (th/2) * a1) + sin (th/2) * a2 * (sin (th/2) * a2) + sin (th/2) * a3 * (sin (th/2) * a3) = 1.
Proof.
  intros Ha. pose proof (sin2_cos2 (th/2)) as H. unfold Rsqr in H.
  replace (cos (th / 2) * cos (th / 2) + sin (th / 2) * a1 * (sin (th / 2) * a1) + sin (th / 2) * a2 * (sin (th / 2) * a2) + sin (th / 2) * a3 * (sin (th / 2) * a3))
    with (cos (th/2) * cos (th/2) + (sin (th/2) * sin (th/2)) * (a1*a1+a2*a2+a3*a3)) by ring.
  rewrite Ha. lra.
Qed.

Lemma trio_domain th : Rabs th <= PI - 1/1000000 -> 1/100000000 < cos (th/2).
Proof. intros H. pose proof (cos_half_lower th H). pose proof sin_small_pos. lra. Qed.

Lemma trio_domain_abs th : Rabs th <= PI - 1/1000000 ->
  1/100000000 < Rabs (cos (th/2)) /\ cos (th/2) <> 0 /\ Rsgn (cos (th/2)) = 1.
Proof.
  intros H. pose proof (trio_domain th H) as H1.
  split; [rewrite Rabs_right; lra|]. split; [lra|]. apply Rsgn_pos. lra.
Qed.

(* the domain is inhabited all the way down to the zero angle *)
Example trio_domain_zero : Rabs 0 <= PI - 1/1000000.
Proof. rewrite Rabs_R0. pose proof PI2_3_2. unfold PI2 in *. lra. Qed.
