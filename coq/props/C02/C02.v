(* C02.v — property C02: every DCM->quaternion method inverts quaternion->DCM over all of SO(3).  Statements only. *)
From Coq Require Import Reals List Lra.
From AhrsLib Require Import Base Rot Dcm2q.
From AhrsModel Require Import C02_itzhack.
From AhrsGen Require Import C02gen_R.
From AhrsProps Require Import C02_shepperd C02_chiaverini C02_hughes C02_sarabandi C02_itzhack C02_domain
  C02_halfturn C02_disp_hughes.
Import ListNotations.
Open Scope R_scope.

(* Shepperd (the default method): for EVERY rotation — exact half-turns and the identity included — the method applied
   to the textbook matrix of the unit quaternion q returns s*q with s = +-1; that value is a unit quaternion and its
   rotation matrix is the input matrix. *)
Theorem C02_shepperd_inverts_everywhere : forall w x y z, w*w + x*x + y*y + z*z = 1 ->
  exists s, (s = 1 \/ s = -1) /\
    C02_shepperd_q_R w x y z = Val [s*w; s*x; s*y; s*z] /\
    qnorm2 [s*w; s*x; s*y; s*z] = 1 /\ Rspec [s*w; s*x; s*y; s*z] = Rspec [w;x;y;z].
Proof.
  intros w x y z H. destruct (shepperd_inverts w x y z H) as (s & Hs & E). exists s.
  split; [exact Hs|]. split; [exact E|]. split; [exact (qsc_unit s w x y z Hs H)|exact (qsc_Rspec s w x y z Hs)].
Qed.
Print Assumptions C02_shepperd_inverts_everywhere.

(* the closed-form trio, single-matrix form and N x 3 x 3 branches: sgn(w) q wherever the scalar part is non-zero
   (Hughes: outside its pure-quaternion shortcut |w| <= 1e-8); Sarabandi for every threshold below 3 *)
Theorem C02_closed_form_trio_inverts : forall w x y z eta, w*w + x*x + y*y + z*z = 1 -> 1/100000000 < Rabs w -> eta < 3 ->
  let r := [Rsgn w * w; Rsgn w * x; Rsgn w * y; Rsgn w * z] in
  C02_chiaverini_q_R w x y z = Val r /\ C02_chiaverini_batch_q_R w x y z = Val r /\
  C02_hughes_q_R w x y z = Val r /\ C02_hughes_batch_q_R w x y z = Val r /\
  C02_sarabandi_q_R w x y z eta = Val r /\
  qnorm2 r = 1 /\ Rspec r = Rspec [w;x;y;z].
Proof.
  intros w x y z eta H Hw He.
  assert (Hw0 : w <> 0) by (intros Z; rewrite Z, Rabs_R0 in Hw; lra).
  split; [exact (chiaverini_inverts w x y z H Hw0)|]. split; [exact (chiaverini_batch_inverts w x y z H Hw0)|].
  split; [exact (hughes_inverts w x y z H Hw)|]. split; [exact (hughes_batch_inverts w x y z H Hw)|].
  split; [exact (sarabandi_inverts w x y z eta H Hw0 He)|].
  split; [exact (qsc_unit _ w x y z (Rsgn_is_sign w Hw0) H)|exact (qsc_Rspec _ w x y z (Rsgn_is_sign w Hw0))].
Qed.
Print Assumptions C02_closed_form_trio_inverts.

(* batch branches, rows independent: a generic row stacked with FIXED rows (Hughes: the exact half-turn diag(1,-1,-1); Chiaverini: the 120-degree cyclic permutation; plus the identity),
   in first position of a 2-stack and in last position of a 3-stack, is converted exactly as alone *)
Theorem C02_batch_rows_independent : forall w x y z, w*w + x*x + y*y + z*z = 1 -> 1/100000000 < Rabs w ->
  let r := [Rsgn w * w; Rsgn w * x; Rsgn w * y; Rsgn w * z] in
  C02_hughes_mixed_gh_q_R w x y z = Val r /\ C02_hughes_mixed_hig_q_R w x y z = Val r /\
  C02_chiaverini_mixed_gh_q_R w x y z = Val r /\ C02_chiaverini_mixed_hig_q_R w x y z = Val r /\
  C02_hughes_batch_q_R w x y z = Val r /\ C02_chiaverini_batch_q_R w x y z = Val r.
Proof.
  intros w x y z H Hw.
  assert (Hw0 : w <> 0) by (intros Z; rewrite Z, Rabs_R0 in Hw; lra).
  destruct (hughes_mixed_inverts w x y z H Hw) as [A B]. destruct (chiaverini_mixed_inverts w x y z H Hw0) as [C D].
  split; [exact A|]. split; [exact B|]. split; [exact C|]. split; [exact D|].
  split; [exact (hughes_batch_inverts w x y z H Hw)|exact (chiaverini_batch_inverts w x y z H Hw0)].
Qed.
Print Assumptions C02_batch_rows_independent.

(* Chiaverini and Sarabandi need only w <> 0 *)
Theorem C02_chiaverini_sarabandi_nonzero_scalar : forall w x y z eta, w*w + x*x + y*y + z*z = 1 -> w <> 0 -> eta < 3 ->
  C02_chiaverini_q_R w x y z = Val [Rsgn w * w; Rsgn w * x; Rsgn w * y; Rsgn w * z] /\
  C02_sarabandi_q_R w x y z eta = Val [Rsgn w * w; Rsgn w * x; Rsgn w * y; Rsgn w * z].
Proof. intros w x y z eta H Hw He. split; [exact (chiaverini_inverts w x y z H Hw)|exact (sarabandi_inverts w x y z eta H Hw He)]. Qed.
Print Assumptions C02_chiaverini_sarabandi_nonzero_scalar.

(* in the property's own terms: rotation by th about the unit axis a, |th| <= PI - 1e-6 (zero angle included, negative
   angles included): the three closed-form methods return exactly q = (cos(th/2), sin(th/2) a) *)
Theorem C02_closed_form_up_to_pi_minus_microradian : forall th a1 a2 a3, a1*a1 + a2*a2 + a3*a3 = 1 ->
  Rabs th <= PI - 1/1000000 ->
  let w := cos (th/2) in let x := sin (th/2) * a1 in let y := sin (th/2) * a2 in let z := sin (th/2) * a3 in
  C02_chiaverini_q_R w x y z = Val [w;x;y;z] /\ C02_hughes_q_R w x y z = Val [w;x;y;z] /\
  C02_sarabandi_q_R w x y z 0 = Val [w;x;y;z] /\
  C02_chiaverini_batch_q_R w x y z = Val [w;x;y;z] /\ C02_hughes_batch_q_R w x y z = Val [w;x;y;z].
Proof.
  intros th a1 a2 a3 Ha Hth. cbv zeta.
  pose proof (axang_unit th a1 a2 a3 Ha) as Hu. destruct (trio_domain_abs th Hth) as (Hw & Hw0 & Hs).
  rewrite (chiaverini_inverts _ _ _ _ Hu Hw0), (hughes_inverts _ _ _ _ Hu Hw), (sarabandi_inverts _ _ _ _ 0 Hu Hw0 ltac:(lra)),
    (chiaverini_batch_inverts _ _ _ _ Hu Hw0), (hughes_batch_inverts _ _ _ _ Hu Hw).
  unfold qsc. rewrite Hs. rewrite !Rmult_1_l. repeat split; reflexivity.
Qed.
Print Assumptions C02_closed_form_up_to_pi_minus_microradian.

(* hence all closed-form methods and Shepperd agree up to sign *)
Theorem C02_methods_agree_up_to_sign : forall w x y z, w*w + x*x + y*y + z*z = 1 -> 1/100000000 < Rabs w ->
  exists s r, (s = 1 \/ s = -1) /\ C02_hughes_q_R w x y z = Val r /\ C02_chiaverini_q_R w x y z = Val r /\
    C02_sarabandi_q_R w x y z 0 = Val r /\ C02_shepperd_q_R w x y z = Val [s * e r 0; s * e r 1; s * e r 2; s * e r 3].
Proof.
  intros w x y z H Hw.
  assert (Hw0 : w <> 0) by (intros Z; rewrite Z, Rabs_R0 in Hw; lra).
  destruct (shepperd_inverts w x y z H) as (s & Hs & E).
  pose proof (Rsgn_is_sign w Hw0) as Hsw. pose proof (is_sign_sq _ Hsw) as Hsq.
  exists (s * Rsgn w), (qsc (Rsgn w) w x y z).
  split; [destruct Hs as [-> | ->], Hsw as [-> | ->]; [left|right|right|left]; ring|].
  split; [exact (hughes_inverts w x y z H Hw)|]. split; [exact (chiaverini_inverts w x y z H Hw0)|].
  split; [exact (sarabandi_inverts w x y z 0 H Hw0 ltac:(lra))|].
  rewrite E. unfold qsc. cbv [e List.nth]. val_eq.
  all: match goal with |- ?a * ?v = ?a * ?b * (?b * ?v) => replace (a * b * (b * v)) with (a * (b * b) * v) by ring; rewrite Hsq; ring end.
Qed.
Print Assumptions C02_methods_agree_up_to_sign.

(* the three dispatchers called WITHOUT a method argument are, as regenerated from the source, the very same function of
   the nine matrix entries as with method='shepperd' (so the default is the method proved to invert everywhere, on all
   three routes alike); a mixed-case method name is the lower-case method *)
Theorem C02_default_is_shepperd : forall r00 r01 r02 r10 r11 r12 r20 r21 r22,
  C02_DCM_default_m_R r00 r01 r02 r10 r11 r12 r20 r21 r22 = C02_DCM_shepperd_m_R r00 r01 r02 r10 r11 r12 r20 r21 r22 /\
  C02_Q_default_m_R r00 r01 r02 r10 r11 r12 r20 r21 r22 = C02_Q_shepperd_m_R r00 r01 r02 r10 r11 r12 r20 r21 r22 /\
  C02_QA_default_m_R r00 r01 r02 r10 r11 r12 r20 r21 r22 = C02_QA_shepperd_m_R r00 r01 r02 r10 r11 r12 r20 r21 r22.
Proof. intros. split; [reflexivity|]. split; reflexivity. Qed.
Print Assumptions C02_default_is_shepperd.

Theorem C02_method_name_case_insensitive : forall r00 r01 r02 r10 r11 r12 r20 r21 r22,
  C02_DCM_HUGHES_m_R r00 r01 r02 r10 r11 r12 r20 r21 r22 = C02_DCM_hughes_m_R r00 r01 r02 r10 r11 r12 r20 r21 r22 /\
  C02_Q_HUGHES_m_R r00 r01 r02 r10 r11 r12 r20 r21 r22 = C02_Q_hughes_m_R r00 r01 r02 r10 r11 r12 r20 r21 r22 /\
  C02_QA_HUGHES_m_R r00 r01 r02 r10 r11 r12 r20 r21 r22 = C02_QA_hughes_m_R r00 r01 r02 r10 r11 r12 r20 r21 r22.
Proof. intros. split; [reflexivity|]. split; reflexivity. Qed.
Print Assumptions C02_method_name_case_insensitive.

(* Bar-Itzhack, the matrices handed to LAPACK (hand model, tied to the code by capturing the argument of eig/eigh):
   symmetric for EVERY input matrix; for R = Rspec q: q~ = (x,y,z,-w) is an eigenvector for the eigenvalue 1 of K2 and
   K3; any unit eigenvector of K3 for an eigenvalue above -1/3, and of K2 for a positive eigenvalue, is +-q~ and its
   eigenvalue is 1 (so "largest eigenvalue" and "isclose(eigenvalue, 1)" both select +-q~) *)
Theorem C02_itzhack_K_eigen : forall w x y z, w*w + x*x + y*y + z*z = 1 ->
  (forall A, sym4 (K2of A) /\ sym4 (K3of A)) /\
  mv4 (K3of (Rspec [w;x;y;z])) [x;y;z;-w] = [x;y;z;-w] /\ mv4 (K2of (Rspec [w;x;y;z])) [x;y;z;-w] = [x;y;z;-w] /\
  (forall a b c d lam, a*a+b*b+c*c+d*d = 1 -> mv4 (K3of (Rspec [w;x;y;z])) [a;b;c;d] = [lam*a; lam*b; lam*c; lam*d] ->
     -1/3 < lam -> lam = 1 /\ exists s, (s = 1 \/ s = -1) /\ [a;b;c;d] = [s*x; s*y; s*z; s*-w]) /\
  (forall a b c d lam, a*a+b*b+c*c+d*d = 1 -> mv4 (K2of (Rspec [w;x;y;z])) [a;b;c;d] = [lam*a; lam*b; lam*c; lam*d] ->
     0 < lam -> lam = 1 /\ exists s, (s = 1 \/ s = -1) /\ [a;b;c;d] = [s*x; s*y; s*z; s*-w]).
Proof.
  intros w x y z H. split; [exact K_symmetric|].
  split; [exact (proj1 (K_eigvec_one w x y z H))|]. split; [exact (proj2 (K_eigvec_one w x y z H))|].
  split; [intros a b c d lam Hv HK Hl; exact (K3_select w x y z a b c d lam H Hv HK Hl)
         |intros a b c d lam Hv HK Hl; exact (K2_select w x y z a b c d lam H Hv HK Hl)].
Qed.
Print Assumptions C02_itzhack_K_eigen.

(* Bar-Itzhack versions 1, 2, 3 return +-q on ALL of SO(3), relative to the contract of the eigen-solver and column
   selection (explicit premise): on a symmetric matrix it yields a real unit eigenpair whose eigenvalue is the largest
   (version 3) / passes isclose(., 1) (versions 1, 2) *)
Theorem C02_itzhack_inverts : forall (eig_select : nat -> list R -> R * list R),
  (forall ver K, sym4 K ->
      let lam := fst (eig_select ver K) in let v := snd (eig_select ver K) in
      (exists a b c d, v = [a;b;c;d]) /\ vn2 v = 1 /\ mv4 K v = vsc lam v /\
      (ver = 3%nat -> forall mu u, vn2 u = 1 -> mv4 K u = vsc mu u -> mu <= lam) /\
      (ver <> 3%nat -> Rabs (lam - 1) <= 1/100000000 + 1/100000 * Rabs 1)) ->
  forall ver w x y z, w*w + x*x + y*y + z*z = 1 -> (ver = 1 \/ ver = 2 \/ ver = 3)%nat ->
  exists s, (s = 1 \/ s = -1) /\ itzhack_model eig_select ver (Rspec [w;x;y;z]) = [s*w; s*x; s*y; s*z].
Proof. intros eig_select HC ver w x y z H Hv. exact (itzhack_inverts_contract eig_select HC ver w x y z H Hv). Qed.
Print Assumptions C02_itzhack_inverts.

(* the three dispatchers — DCM(R).to_quaternion(method), Quaternion(dcm=R, method=…), QuaternionArray(DCM=[R], method=…)[0] —
   with method 'hughes', on the textbook matrix of a unit quaternion: SO(3) gates, extra normalisations and the
   constructors' zero-norm checks included, each returns sgn(w) q.
   (Chiaverini and Shepperd on the three routes, Sarabandi with a symbolic threshold: C02_thorough.v, thorough tier.) *)
Theorem C02_dispatch_hughes : forall w x y z, w*w + x*x + y*y + z*z = 1 -> 1/100000000 < Rabs w ->
  let r := Val [Rsgn w * w; Rsgn w * x; Rsgn w * y; Rsgn w * z] in
  C02_DCM_hughes_q_R w x y z = r /\ C02_Q_hughes_q_R w x y z = r /\ C02_QA_hughes_q_R w x y z = r.
Proof.
  intros w x y z H Hw.
  split; [exact (DCM_hughes w x y z H Hw)|]. split; [exact (Q_hughes w x y z H Hw)|exact (QA_hughes w x y z H Hw)].
Qed.
Print Assumptions C02_dispatch_hughes.

(* Bar-Itzhack version 3 (the default), the REAL code after eig/eigh — column selection by argmax, roll, negation,
   normalisation, regenerated with the solver's output as symbolic inputs: if every returned column is a real unit
   eigenvector of K3(Rspec q) for its eigenvalue and the eigenvalue 1 is among those returned, the code returns +-q *)
Theorem C02_itzhack_v3_code_inverts : forall w x y z l0 l1 l2 l3 v00 v01 v02 v03 v10 v11 v12 v13 v20 v21 v22 v23 v30 v31 v32 v33,
  w*w + x*x + y*y + z*z = 1 ->
  (forall l a b c d, In (l, [a;b;c;d]) [(l0,[v00;v10;v20;v30]); (l1,[v01;v11;v21;v31]); (l2,[v02;v12;v22;v32]); (l3,[v03;v13;v23;v33])] ->
     mv4 (K3of (Rspec [w;x;y;z])) [a;b;c;d] = [l*a; l*b; l*c; l*d] /\ a*a+b*b+c*c+d*d = 1) ->
  (l0 = 1 \/ l1 = 1 \/ l2 = 1 \/ l3 = 1) ->
  exists s, (s = 1 \/ s = -1) /\
    C02_itzhack_post_v3_R l0 l1 l2 l3 v00 v01 v02 v03 v10 v11 v12 v13 v20 v21 v22 v23 v30 v31 v32 v33 = Val [s*w; s*x; s*y; s*z].
Proof.
  intros w x y z l0 l1 l2 l3 v00 v01 v02 v03 v10 v11 v12 v13 v20 v21 v22 v23 v30 v31 v32 v33 H HP H1.
  apply (itzhack_v3_code w x y z l0 l1 l2 l3 v00 v01 v02 v03 v10 v11 v12 v13 v20 v21 v22 v23 v30 v31 v32 v33 H).
  - apply HP. left. reflexivity.
  - apply HP. right. left. reflexivity.
  - apply HP. right. right. left. reflexivity.
  - apply HP. right. right. right. left. reflexivity.
  - exact H1.
Qed.
Print Assumptions C02_itzhack_v3_code_inverts.

(* the domain of the closed-form trio is sharp: AT exact half-turns (w = 0; excluded by the property for these methods)
   Chiaverini's 3x3 form returns the identity quaternion, its N x 3 x 3 form the zero row over a zero norm (NaN in
   binary64), Hughes returns (0,|x|,|y|,|z|) in both forms — which for the axis (3/5,-4/5,0) is a different rotation *)
Theorem C02_closed_form_at_half_turns : forall x y z, x*x + y*y + z*z = 1 ->
  C02_chiaverini_q_R 0 x y z = Val [1; 0; 0; 0] /\ C02_chiaverini_batch_q_R 0 x y z = Val [0; 0; 0; 0] /\
  C02_hughes_q_R 0 x y z = Val [0; Rabs x; Rabs y; Rabs z] /\ C02_hughes_batch_q_R 0 x y z = Val [0; Rabs x; Rabs y; Rabs z] /\
  (exists x' y' z' r, x'*x'+y'*y'+z'*z' = 1 /\ C02_hughes_q_R 0 x' y' z' = Val r /\ Rspec r <> Rspec [0;x';y';z']).
Proof.
  intros x y z H. split; [exact (chiaverini_at_half_turn x y z H)|]. split; [exact (chiaverini_batch_at_half_turn x y z H)|].
  split; [exact (proj1 (hughes_at_half_turn x y z H))|]. split; [exact (proj2 (hughes_at_half_turn x y z H))|exact hughes_half_turn_not_inverse].
Qed.
Print Assumptions C02_closed_form_at_half_turns.
