(* C02_thorough.v — statements compiled in the thorough tier only (their proofs take > 40 s). *)
From Coq Require Import Reals List Lra.
From AhrsLib Require Import Base Rot Dcm2q.
From AhrsGen Require Import C02gen_R.
From AhrsProps Require Import C02_disp_shepperd C02_disp_sarabandi C02_disp_chiaverini.
Import ListNotations.
Open Scope R_scope.

(* Shepperd (explicit, and the default of all three routes) through DCM(R).to_quaternion, Quaternion(dcm=R) and
   QuaternionArray(DCM=[R]): +-q for EVERY rotation, SO(3) gates, extra normalisations and constructor checks included *)
Theorem C02_dispatch_shepperd_inverts_everywhere : forall w x y z, w*w + x*x + y*y + z*z = 1 ->
  (exists s, (s = 1 \/ s = -1) /\ C02_DCM_shepperd_q_R w x y z = Val [s*w; s*x; s*y; s*z]) /\
  (exists s, (s = 1 \/ s = -1) /\ C02_Q_shepperd_q_R w x y z = Val [s*w; s*x; s*y; s*z]) /\
  (exists s, (s = 1 \/ s = -1) /\ C02_QA_shepperd_q_R w x y z = Val [s*w; s*x; s*y; s*z]).
Proof. intros w x y z H. split; [exact (DCM_shepperd w x y z H)|]. split; [exact (Q_shepperd w x y z H)|exact (QA_shepperd w x y z H)]. Qed.
Print Assumptions C02_dispatch_shepperd_inverts_everywhere.

Theorem C02_dispatch_sarabandi_threshold : forall w x y z eta, w*w + x*x + y*y + z*z = 1 -> w <> 0 -> eta < 3 ->
  C02_DCM_sarabandi_q_R w x y z eta = Val [Rsgn w * w; Rsgn w * x; Rsgn w * y; Rsgn w * z].
Proof. intros w x y z eta H Hw He. exact (DCM_sarabandi w x y z eta H Hw He). Qed.
Print Assumptions C02_dispatch_sarabandi_threshold.

Theorem C02_dispatch_chiaverini : forall w x y z, w*w + x*x + y*y + z*z = 1 -> w <> 0 ->
  let r := Val [Rsgn w * w; Rsgn w * x; Rsgn w * y; Rsgn w * z] in
  C02_DCM_chiaverini_q_R w x y z = r /\ C02_Q_chiaverini_q_R w x y z = r /\ C02_QA_chiaverini_q_R w x y z = r.
Proof.
  intros w x y z H Hw0.
  split; [exact (DCM_chiaverini w x y z H Hw0)|]. split; [exact (Q_chiaverini w x y z H Hw0)|exact (QA_chiaverini w x y z H Hw0)].
Qed.
Print Assumptions C02_dispatch_chiaverini.
