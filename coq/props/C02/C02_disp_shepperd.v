(* C02_disp_shepperd.v (thorough tier) — the three dispatchers with method='shepperd' (also their default, by
   C02_default_is_shepperd on the free-matrix targets): +-q on ALL of SO(3), every path. *)
From Coq Require Import Reals List Lra Psatz.
From AhrsLib Require Import Base Rot Dcm2q.
From AhrsGen Require Import C02gen_R.
Import ListNotations.
Open Scope R_scope.

Lemma DCM_shepperd w x y z : w*w+x*x+y*y+z*z = 1 -> signed_q w x y z (C02_DCM_shepperd_q_R w x y z).
Proof. intros Hunit. unit_open Hunit U. cbv beta delta [C02_DCM_shepperd_q_R]. walk2 ltac:(shep_rad w x y z) shep_fin. Qed.
Lemma QA_shepperd w x y z : w*w+x*x+y*y+z*z = 1 -> signed_q w x y z (C02_QA_shepperd_q_R w x y z).
Proof. intros Hunit. unit_open Hunit U. cbv beta delta [C02_QA_shepperd_q_R]. walk2 ltac:(shep_rad w x y z) shep_fin. Qed.
Lemma Q_shepperd w x y z : w*w+x*x+y*y+z*z = 1 -> signed_q w x y z (C02_Q_shepperd_q_R w x y z).
Proof. intros Hunit. unit_open Hunit U. cbv beta delta [C02_Q_shepperd_q_R]. walk2 ltac:(shep_rad w x y z) shep_fin. Qed.
