(* C02_shepperd.v — Shepperd's method (the default) inverts q -> R(q) on ALL of SO(3): every path, including exact
   half-turns and the identity.  On each path the radicand of the selected branch is 4 p^2 with p the pivot component,
   and the path condition (pivot = first maximum of trace, r11, r22, r33) forces p^2 >= 1/4 — proved from the path
   hypotheses, not assumed — so there is no division by zero and the result is sgn(p) q. *)
From Coq Require Import Reals List Lra Psatz.
From AhrsLib Require Import Base Rot Dcm2q.
From AhrsGen Require Import C02gen_R.
Import ListNotations.
Open Scope R_scope.

(* one leaf of the decision tree with pivot p *)
Ltac shep_leaf p :=
  rad_as p;
  let Hq := fresh "Hq" in
  assert (Hq : 1/4 <= p * p) by lra;
  let Hs := fresh "Hs" in
  destruct (Rlt_dec 0 p) as [Hs|Hs];
  [ exists 1; split; [left; reflexivity|]; rewrite (Rabs_right p) by lra
  | assert (p < 0) by nra; exists (-1); split; [right; reflexivity|]; rewrite (Rabs_left p) by lra ];
  norm_finish.
Ltac shep_any w x y z := first [ shep_leaf w | shep_leaf x | shep_leaf y | shep_leaf z ].

Lemma shepperd_inverts w x y z : w*w+x*x+y*y+z*z = 1 ->
  exists s, is_sign s /\ C02_shepperd_q_R w x y z = Val (qsc s w x y z).
Proof.
  intros Hunit. unit_open Hunit U.
  unfold C02_shepperd_q_R. cbv zeta.
  repeat destr_dec; shep_any w x y z.
Qed.

(* non-vacuity, on the thin regions by name: the identity and an exact half-turn about the oblique axis (3/5, 4/5, 0) *)
Example shepperd_at_identity : exists s, is_sign s /\ C02_shepperd_q_R 1 0 0 0 = Val (qsc s 1 0 0 0).
Proof. apply shepperd_inverts. ring. Qed.
Example shepperd_at_oblique_half_turn : exists s, is_sign s /\ C02_shepperd_q_R 0 (3/5) (4/5) 0 = Val (qsc s 0 (3/5) (4/5) 0).
Proof. apply shepperd_inverts. field. Qed.
