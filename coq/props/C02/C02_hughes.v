(* C02_hughes.v — Hughes' method (single matrix and the N x 3 x 3 branch) returns sgn(w) q whenever |w| > 1e-8, i.e.
   outside the isclose(n, 0) "pure quaternion" shortcut; this contains every rotation angle <= pi - 1e-6 and, after the
   repair of the isclose(trace, 3) shortcut, every angle arbitrarily close to zero. *)
From Coq Require Import Reals List Lra Psatz.
From AhrsLib Require Import Base Rot Dcm2q.
From AhrsGen Require Import C02gen_R.
Import ListNotations.
Open Scope R_scope.

Ltac hughes_tac w x y z U Hu Hw :=
  cbv zeta; clip_unit w x y z U;
  repeat first [rad_as w | rad_as x | rad_as y | rad_as z];
  let Hs := fresh "Hs" in
  destruct (Rlt_dec 0 w) as [Hs|Hs];
  [ rewrite (Rabs_right w) in * by lra; rewrite (Rsgn_pos w) by lra
  | assert (w < 0) by (destruct (Req_dec w 0); [subst; rewrite Rabs_R0 in Hw; lra | lra]);
    rewrite (Rabs_left w) in * by lra; rewrite (Rsgn_neg w) by lra ];
  abs_lra; gates; norm_finish.

Lemma hughes_inverts w x y z : w*w+x*x+y*y+z*z = 1 -> 1/100000000 < Rabs w ->
  C02_hughes_q_R w x y z = Val (qsc (Rsgn w) w x y z).
Proof. intros Hunit Hw. unit_open Hunit U. unfold C02_hughes_q_R. hughes_tac w x y z U Hu Hw. Qed.

Lemma hughes_batch_inverts w x y z : w*w+x*x+y*y+z*z = 1 -> 1/100000000 < Rabs w ->
  C02_hughes_batch_q_R w x y z = Val (qsc (Rsgn w) w x y z).
Proof. intros Hunit Hw. unit_open Hunit U. unfold C02_hughes_batch_q_R. hughes_tac w x y z U Hu Hw. Qed.

(* rows of a stack do not influence each other: the generic row next to a FIXED exact half-turn row (and an identity
   row), in first and in last position, gets the same value as alone *)
Lemma hughes_mixed_inverts w x y z : w*w+x*x+y*y+z*z = 1 -> 1/100000000 < Rabs w ->
  C02_hughes_mixed_gh_q_R w x y z = Val (qsc (Rsgn w) w x y z) /\ C02_hughes_mixed_hig_q_R w x y z = Val (qsc (Rsgn w) w x y z).
Proof.
  intros Hunit Hw. unit_open Hunit U. split.
  - unfold C02_hughes_mixed_gh_q_R. hughes_tac w x y z U Hu Hw.
  - unfold C02_hughes_mixed_hig_q_R. hughes_tac w x y z U Hu Hw.
Qed.

(* the region the isclose(trace, 3) shortcut used to destroy: a rotation of about 2e-4 rad (w = 1 - 5e-9 exactly is not
   rational-unit, so take the rational unit quaternion (1-t^2, 2t, 0, 0)/(1+t^2) with t = 1/10000) *)
Example hughes_small_angle :
  let t := 1/10000 in let n := 1 + t*t in
  C02_hughes_q_R ((1 - t*t)/n) (2*t/n) 0 0 = Val [(1 - t*t)/n; 2*t/n; 0; 0].
Proof.
  cbv zeta. rewrite hughes_inverts.
  - rewrite Rsgn_pos by lra. unfold qsc. val_eq; field.
  - field.
  - rewrite Rabs_right; lra.
Qed.
