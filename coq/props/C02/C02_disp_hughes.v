(* C02_disp_hughes.v — the three dispatchers with method='hughes' on the textbook matrix of a unit quaternion: the SO(3)
   gates of the constructors are decided (every residual is identically 0), the extra normalisations are the identity,
   the zero-norm rejection of the Quaternion constructor is not reached: each route returns sgn(w) q. *)
From Coq Require Import Reals List Lra Psatz.
From AhrsLib Require Import Base Rot Dcm2q.
From AhrsGen Require Import C02gen_R.
Import ListNotations.
Open Scope R_scope.

Lemma DCM_hughes w x y z : w*w+x*x+y*y+z*z = 1 -> 1/100000000 < Rabs w -> is_out (Val (qsc (Rsgn w) w x y z)) (C02_DCM_hughes_q_R w x y z).
Proof. intros Hunit Hw. unit_open Hunit U. cbv beta delta [C02_DCM_hughes_q_R]. walk2 ltac:(hughes_rad w x y z U Hw) ltac:(hughes_fin w). Qed.
Lemma QA_hughes w x y z : w*w+x*x+y*y+z*z = 1 -> 1/100000000 < Rabs w -> is_out (Val (qsc (Rsgn w) w x y z)) (C02_QA_hughes_q_R w x y z).
Proof. intros Hunit Hw. unit_open Hunit U. cbv beta delta [C02_QA_hughes_q_R]. walk2 ltac:(hughes_rad w x y z U Hw) ltac:(hughes_fin w). Qed.
Lemma Q_hughes w x y z : w*w+x*x+y*y+z*z = 1 -> 1/100000000 < Rabs w -> is_out (Val (qsc (Rsgn w) w x y z)) (C02_Q_hughes_q_R w x y z).
Proof. intros Hunit Hw. unit_open Hunit U. cbv beta delta [C02_Q_hughes_q_R]. walk2 ltac:(hughes_rad w x y z U Hw) ltac:(hughes_fin w). Qed.
