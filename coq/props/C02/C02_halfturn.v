(* C02_halfturn.v — what the closed-form trio returns AT exact half-turns (w = 0), which the property excludes for these
   methods: the statements delimit the domain of C02_closed_form_trio_inverts precisely.
   Chiaverini (3x3): the identity quaternion (sgn(0) = 0 wipes the vector part, `not any(q)` rescue) — never the rotation.
   Chiaverini (N x 3 x 3): the zero row divided by its zero norm: 0/0, i.e. NaN in binary64 (in the total real model 0).
   Hughes (both forms): (0, |x|, |y|, |z|): the rotation itself iff x, y, z have one sign. *)
From Coq Require Import Reals List Lra Psatz.
From AhrsLib Require Import Base Rot Dcm2q.
From AhrsGen Require Import C02gen_R.
Import ListNotations.
Open Scope R_scope.

(* The proofs below never mention a sub-term of the generated code: radicands, clip arguments, sign arguments and gate
   conditions are picked out of the goal by shape and replaced by what they are proved equal to. *)

(* clip(trace): the trace is -1 at a half-turn *)
Ltac ht_clip :=
  match goal with |- context [Rmin (Rmax ?t (-1)) 3] => replace t with (-1) by lra end;
  rewrite (Rmax_left (-1) (-1)) by lra; rewrite (Rmin_left (-1) 3) by lra.
(* an innermost radical whose radicand is 0, x^2, y^2 or z^2 *)
Ltac ht_rad x y z :=
  let e := goal_rad in
  first [ replace e with 0 by lra; rewrite sqrt_0
        | replace e with (x * x) by lra; rewrite (sqrt_sq x)
        | replace e with (y * y) by lra; rewrite (sqrt_sq y)
        | replace e with (z * z) by lra; rewrite (sqrt_sq z) ].
(* any radical (innermost or not) whose radicand is 1 by ring / by linear arithmetic over the products *)
Ltac ht_one :=
  match goal with |- context [sqrt ?e] => replace e with 1 by first [ ring | lra ]; rewrite sqrt_1 end.
(* the gate at the head of the goal, decided by ring / linear arithmetic; |a| with a = 0 first *)
Ltac ht_gate :=
  lazymatch goal with
  | |- (if Rle_dec (Rabs ?a) ?c then _ else _) = _ =>
      replace a with 0 by first [ ring | lra ]; rewrite Rabs_R0;
      destruct (Rle_dec 0 c) as [_|?]; [|exfalso; lra]
  | |- (if Req_EM_T ?a ?b then _ else _) = _ =>
      first [ destruct (Req_EM_T a b) as [_|?N]; [|exfalso; apply N; first [ ring | lra ]]
            | destruct (Req_EM_T a b) as [?E|_]; [exfalso; lra|] ]
  | |- (if ?g then _ else _) = _ =>
      first [ destruct g as [?|?]; [exfalso; lra|] | destruct g as [?|?]; [|exfalso; lra] ]
  end.
Ltac ht_sgn0 := repeat match goal with |- context [Rsgn ?A] => progress (replace A with 0 by ring) end; rewrite ?Rsgn_0.
Ltac ht_walk x y z := repeat first [ ht_gate | ht_rad x y z | ht_one ].

Lemma chiaverini_at_half_turn x y z : x*x+y*y+z*z = 1 -> C02_chiaverini_q_R 0 x y z = Val [1; 0; 0; 0].
Proof.
  intros H. cbv beta delta [C02_chiaverini_q_R]. cbv zeta.
  ht_sgn0. ht_clip. ht_walk x y z. val_eq; field.
Qed.

Lemma hughes_at_half_turn x y z : x*x+y*y+z*z = 1 ->
  C02_hughes_q_R 0 x y z = Val [0; Rabs x; Rabs y; Rabs z] /\ C02_hughes_batch_q_R 0 x y z = Val [0; Rabs x; Rabs y; Rabs z].
Proof.
  intros H.
  assert (N1 : Rabs x * Rabs x + Rabs y * Rabs y + Rabs z * Rabs z = 1) by (rewrite !Rabs_sq; lra).
  split.
  all: cbv beta delta [C02_hughes_q_R C02_hughes_batch_q_R]; cbv zeta; ht_clip; ht_walk x y z; val_eq; field.
Qed.

(* hence Hughes does NOT invert every exact half-turn: about the axis (3/5, -4/5, 0) it returns the half-turn about
   (3/5, 4/5, 0), a different rotation — outside the property's domain for the closed-form trio, stated for the record *)
Lemma hughes_half_turn_not_inverse : exists x y z r, x*x+y*y+z*z = 1 /\ C02_hughes_q_R 0 x y z = Val r /\ Rspec r <> Rspec [0;x;y;z].
Proof.
  exists (3/5), (-4/5), 0, [0; 3/5; 4/5; 0]. split; [field|]. split.
  - rewrite (proj1 (hughes_at_half_turn (3/5) (-4/5) 0 ltac:(field))).
    rewrite (Rabs_right (3/5)) by lra. rewrite (Rabs_left (-4/5)) by lra. rewrite Rabs_R0. val_eq; field.
  - unfold_rot. intros E. injection E as _ E _. lra.
Qed.

(* Chiaverini's N x 3 x 3 branch at an exact half-turn: every component is 0 before the division by the (zero) norm; the
   real model's total division gives the zero row, binary64 gives NaN (recorded by C11 as a rejected valid rotation) *)
Lemma chiaverini_batch_at_half_turn x y z : x*x+y*y+z*z = 1 -> C02_chiaverini_batch_q_R 0 x y z = Val [0; 0; 0; 0].
Proof.
  intros H. cbv beta delta [C02_chiaverini_batch_q_R]. cbv zeta.
  ht_sgn0. ht_clip. repeat ht_rad x y z.
  val_eq; unfold Rdiv; ring.
Qed.
