(* C02_itzhack.v — Bar-Itzhack's method.  The matrices K2 / K3 are the hand model AhrsModel.C02_itzhack (tied to the
   code by the correspondence check, which captures the matrix the real function hands to LAPACK).  Proved here, for
   R = Rspec q with q a unit quaternion and q~ = (x, y, z, -w):
     K symmetric (so eigh is the right LAPACK routine and the eigenpairs are real),
     K3 = (4 q~ q~^T - I)/3,  K2 = q~ q~^T - p~ p~^T  with p~ = (y, -x, w, z) a unit vector orthogonal to q~,
     K q~ = q~,
     every unit eigenvector of K3 for an eigenvalue > -1/3 (in particular the largest one, or one that passes
     isclose(., 1)) is +-q~ ; every unit eigenvector of K2 for an eigenvalue that passes isclose(., 1) is +-q~,
   and, relative to the contract of the eigen-solver stated as a Section hypothesis, itzhack returns +-q. *)
From Coq Require Import Reals List Lra Psatz Arith.
From AhrsLib Require Import Base Rot Dcm2q.
From AhrsModel Require Import C02_itzhack.
From AhrsGen Require Import C02gen_R.
Import ListNotations.
Open Scope R_scope.

Definition K2of (A : list R) : list R := K2R (e A 0) (e A 1) (e A 2) (e A 3) (e A 4) (e A 5) (e A 6) (e A 7) (e A 8).
Definition K3of (A : list R) : list R := K3R (e A 0) (e A 1) (e A 2) (e A 3) (e A 4) (e A 5) (e A 6) (e A 7) (e A 8).
Definition mv4 (M v : list R) : list R :=
  [e M 0*e v 0 + e M 1*e v 1 + e M 2*e v 2 + e M 3*e v 3;     e M 4*e v 0 + e M 5*e v 1 + e M 6*e v 2 + e M 7*e v 3;
   e M 8*e v 0 + e M 9*e v 1 + e M 10*e v 2 + e M 11*e v 3;   e M 12*e v 0 + e M 13*e v 1 + e M 14*e v 2 + e M 15*e v 3].
Definition vsc (k : R) (v : list R) : list R := [k * e v 0; k * e v 1; k * e v 2; k * e v 3].
Definition vn2 (v : list R) : R := e v 0*e v 0 + e v 1*e v 1 + e v 2*e v 2 + e v 3*e v 3.
Definition sym4 (M : list R) : Prop :=
  e M 1 = e M 4 /\ e M 2 = e M 8 /\ e M 3 = e M 12 /\ e M 6 = e M 9 /\ e M 7 = e M 13 /\ e M 11 = e M 14.
Definition qt (w x y z : R) : list R := [x; y; z; - w].      (* what roll/negate maps back to (w,x,y,z) *)
Definition pt (w x y z : R) : list R := [y; - x; w; z].      (* the eigenvector of K2 for eigenvalue -1 *)
(* numpy.isclose(lam, 1.0) with the default tolerances *)
Definition close1 (lam : R) : Prop := Rabs (lam - 1) <= 1/100000000 + 1/100000 * Rabs 1.

Ltac unfold_k := cbv [K2of K3of K2R K3R K2g K3g unrollR unrollg mv4 vsc vn2 sym4 qt pt Rspec qsc e List.nth List.map].

Lemma K_symmetric A : sym4 (K2of A) /\ sym4 (K3of A).
Proof. unfold_k. repeat split; field. Qed.

Lemma K3_structure w x y z : w*w+x*x+y*y+z*z = 1 ->
  K3of (Rspec [w;x;y;z]) =
  [(4*(x*x)-1)/3; 4*(x*y)/3; 4*(x*z)/3; 4*(x*-w)/3;
   4*(y*x)/3; (4*(y*y)-1)/3; 4*(y*z)/3; 4*(y*-w)/3;
   4*(z*x)/3; 4*(z*y)/3; (4*(z*z)-1)/3; 4*(z*-w)/3;
   4*(-w*x)/3; 4*(-w*y)/3; 4*(-w*z)/3; (4*(w*w)-1)/3].
Proof. intros H. orient_unit. unfold_k. list_eq; field_simplify_eq; hring. Qed.

Lemma K2_structure w x y z : w*w+x*x+y*y+z*z = 1 ->
  K2of (Rspec [w;x;y;z]) =
  [x*x - y*y; x*y + y*x; x*z - y*w; x*-w - y*z;
   y*x + x*y; y*y - x*x; y*z + x*w; y*-w + x*z;
   z*x - w*y; z*y + w*x; z*z - w*w; z*-w - w*z;
   -w*x - z*y; -w*y + z*x; -w*z - z*w; w*w - z*z].
Proof. intros H. orient_unit. unfold_k. list_eq; field_simplify_eq; hring. Qed.

Lemma K_eigvec_one w x y z : w*w+x*x+y*y+z*z = 1 ->
  mv4 (K3of (Rspec [w;x;y;z])) (qt w x y z) = qt w x y z /\ mv4 (K2of (Rspec [w;x;y;z])) (qt w x y z) = qt w x y z.
Proof.
  intros H. rewrite (K3_structure w x y z H), (K2_structure w x y z H). orient_unit. unfold_k.
  split; list_eq; field_simplify_eq; hring.
Qed.

(* K2 (p~) = - p~ : the spectrum of K2 contains -1, so "largest eigenvalue" and "isclose(., 1)" select the same vector *)
Lemma K2_eigvec_minus_one w x y z : w*w+x*x+y*y+z*z = 1 ->
  mv4 (K2of (Rspec [w;x;y;z])) (pt w x y z) = vsc (-1) (pt w x y z).
Proof. intros H. rewrite (K2_structure w x y z H). orient_unit. unfold_k. list_eq; field_simplify_eq; hring. Qed.

(* eigenvector selection, K3: any unit eigenvector for an eigenvalue above -1/3 is +-q~ and its eigenvalue is 1 *)
Lemma K3_select w x y z a b c d lam : w*w+x*x+y*y+z*z = 1 -> a*a+b*b+c*c+d*d = 1 ->
  mv4 (K3of (Rspec [w;x;y;z])) [a;b;c;d] = vsc lam [a;b;c;d] -> -1/3 < lam ->
  lam = 1 /\ exists s, is_sign s /\ [a;b;c;d] = vsc s (qt w x y z).
Proof.
  intros Hq Hv HK Hl. rewrite (K3_structure w x y z Hq) in HK. revert HK. unfold_k. intros HK.
  injection HK as E1 E2 E3 E4.
  set (cc := x*a + y*b + z*c - w*d).
  assert (F1 : 4*cc*x = (3*lam+1)*a) by (unfold cc; lra).
  assert (F2 : 4*cc*y = (3*lam+1)*b) by (unfold cc; lra).
  assert (F3 : 4*cc*z = (3*lam+1)*c) by (unfold cc; lra).
  assert (F4 : 4*cc*(-w) = (3*lam+1)*d) by (unfold cc; lra).
  assert (G1 : 4*cc = (3*lam+1)*cc).
  { replace (4*cc) with (4*cc*(w*w+x*x+y*y+z*z)) by (rewrite Hq; ring).
    replace (4*cc*(w*w+x*x+y*y+z*z)) with (x*(4*cc*x) + y*(4*cc*y) + z*(4*cc*z) + (-w)*(4*cc*(-w))) by ring.
    rewrite F1, F2, F3, F4. unfold cc. ring. }
  assert (G2 : 4*(cc*cc) = 3*lam+1).
  { replace (3*lam+1) with ((3*lam+1)*(a*a+b*b+c*c+d*d)) by (rewrite Hv; ring).
    replace ((3*lam+1)*(a*a+b*b+c*c+d*d)) with (a*((3*lam+1)*a) + b*((3*lam+1)*b) + c*((3*lam+1)*c) + d*((3*lam+1)*d)) by ring.
    rewrite <- F1, <- F2, <- F3, <- F4. unfold cc. ring. }
  assert (Hcc : cc <> 0) by (intros Z; rewrite Z in G2; lra).
  assert (Hl1 : 3*lam+1 = 4) by (apply (Rmult_eq_reg_r cc); [lra|exact Hcc]).
  assert (Hc2 : cc*cc = 1) by lra.
  split; [lra|]. exists cc. split.
  - destruct (Rle_dec 0 cc); [left|right]; nra.
  - rewrite Hl1 in F1, F2, F3, F4. list_eq; lra.
Qed.

(* eigenvector selection, K2: any unit eigenvector for an eigenvalue that is neither 0 nor -1 is +-q~ *)
Lemma K2_select w x y z a b c d lam : w*w+x*x+y*y+z*z = 1 -> a*a+b*b+c*c+d*d = 1 ->
  mv4 (K2of (Rspec [w;x;y;z])) [a;b;c;d] = vsc lam [a;b;c;d] -> 0 < lam ->
  lam = 1 /\ exists s, is_sign s /\ [a;b;c;d] = vsc s (qt w x y z).
Proof.
  intros Hq Hv HK Hl. rewrite (K2_structure w x y z Hq) in HK. revert HK. unfold_k. intros HK.
  injection HK as E1 E2 E3 E4.
  set (cc := x*a + y*b + z*c - w*d). set (dd := y*a - x*b + w*c + z*d).
  assert (F1 : cc*x - dd*y = lam*a) by (unfold cc, dd; lra).
  assert (F2 : cc*y + dd*x = lam*b) by (unfold cc, dd; lra).
  assert (F3 : cc*z - dd*w = lam*c) by (unfold cc, dd; lra).
  assert (F4 : cc*(-w) - dd*z = lam*d) by (unfold cc, dd; lra).
  (* dot with p~ : -dd = lam dd, hence dd = 0 *)
  assert (G0 : - dd = lam*dd).
  { replace (- dd) with (- dd*(w*w+x*x+y*y+z*z)) by (rewrite Hq; ring).
    replace (- dd*(w*w+x*x+y*y+z*z)) with (y*(cc*x - dd*y) - x*(cc*y + dd*x) + w*(cc*z - dd*w) + z*(cc*(-w) - dd*z)) by ring.
    rewrite F1, F2, F3, F4. unfold dd. ring. }
  assert (Hdd : dd = 0) by nra.
  rewrite Hdd in F1, F2, F3, F4.
  assert (G1 : cc = lam*cc).
  { replace cc with (cc*(w*w+x*x+y*y+z*z)) at 1 by (rewrite Hq; ring).
    replace (cc*(w*w+x*x+y*y+z*z)) with (x*(cc*x - 0*y) + y*(cc*y + 0*x) + z*(cc*z - 0*w) + (-w)*(cc*(-w) - 0*z)) by ring.
    rewrite F1, F2, F3, F4. unfold cc. ring. }
  assert (G2 : cc*cc = lam).
  { replace lam with (lam*(a*a+b*b+c*c+d*d)) at 1 by (rewrite Hv; ring).
    replace (lam*(a*a+b*b+c*c+d*d)) with (a*(lam*a) + b*(lam*b) + c*(lam*c) + d*(lam*d)) by ring.
    rewrite <- F1, <- F2, <- F3, <- F4. unfold cc. ring. }
  assert (Hcc : cc <> 0) by (intros Z; rewrite Z in G2; lra).
  assert (Hl1 : lam = 1) by (apply (Rmult_eq_reg_r cc); [lra|exact Hcc]).
  split; [exact Hl1|]. exists cc. split.
  - destruct (Rle_dec 0 cc); [left|right]; nra.
  - rewrite Hl1 in F1, F2, F3, F4. list_eq; lra.
Qed.

Lemma close1_pos lam : close1 lam -> 0 < lam /\ -1/3 < lam.
Proof.
  unfold close1. rewrite Rabs_R1. intros H.
  assert (- (1/100000000 + 1/100000 * 1) <= lam - 1) by (pose proof (Rle_abs (- (lam - 1))); rewrite Rabs_Ropp in *; lra).
  lra.
Qed.

(* ---- the method relative to the contract of the eigen-solver -------------------------------------------------
   eig_select ver K stands for "numpy.linalg.eig/eigh followed by the column selection the code performs"
   (version 3: the column of the largest eigenvalue; versions 1, 2: the column whose eigenvalue passes isclose(., 1)).
   Contract (Section hypothesis, discharged as an explicit premise): on a symmetric matrix the selected pair is a real
   unit eigenpair; for version 3 its eigenvalue dominates every eigenvalue of K; for versions 1 and 2 it passes
   isclose(., 1).  Existence of such a pair is what K_eigvec_one provides. *)
Section Itzhack.
  Variable eig_select : nat -> list R -> R * list R.
  Definition eig_contract : Prop :=
    forall ver K, sym4 K ->
      let lam := fst (eig_select ver K) in let v := snd (eig_select ver K) in
      (exists a b c d, v = [a;b;c;d]) /\ vn2 v = 1 /\ mv4 K v = vsc lam v /\
      (ver = 3%nat -> forall mu u, vn2 u = 1 -> mv4 K u = vsc mu u -> mu <= lam) /\
      (ver <> 3%nat -> close1 lam).
  Definition itzhack_model (ver : nat) (A : list R) : list R :=
    let K := if Nat.eqb ver 1 then K2of A else K3of A in
    let q := unrollR (snd (eig_select ver K)) in
    map (fun c => c / sqrt (vn2 q)) q.

  Lemma itzhack_inverts_contract : eig_contract -> forall ver w x y z, w*w+x*x+y*y+z*z = 1 ->
    (ver = 1 \/ ver = 2 \/ ver = 3)%nat ->
    exists s, is_sign s /\ itzhack_model ver (Rspec [w;x;y;z]) = qsc s w x y z.
  Proof.
    intros HC ver w x y z Hq Hver. unfold itzhack_model.
    set (A := Rspec [w;x;y;z]).
    set (K := if Nat.eqb ver 1 then K2of A else K3of A).
    assert (Hsym : sym4 K) by (unfold K; destruct (Nat.eqb ver 1); apply K_symmetric).
    destruct (HC ver K Hsym) as ((a & b & c & d & Hv) & Hn & HK & H3 & H12).
    set (lam := fst (eig_select ver K)) in *. rewrite Hv in *. clear Hv.
    assert (Hn' : a*a+b*b+c*c+d*d = 1) by exact Hn.
    assert (Hsel : exists s, is_sign s /\ [a;b;c;d] = vsc s (qt w x y z)).
    { destruct Hver as [-> | [-> | ->]].
      - (* version 1: K2, isclose *)
        destruct (close1_pos lam (H12 ltac:(discriminate))) as [Hp _].
        exact (proj2 (K2_select w x y z a b c d lam Hq Hn' HK Hp)).
      - destruct (close1_pos lam (H12 ltac:(discriminate))) as [_ Hp].
        exact (proj2 (K3_select w x y z a b c d lam Hq Hn' HK Hp)).
      - (* version 3: the largest eigenvalue is at least 1 because q~ is an eigenvector for 1 *)
        assert (Hge : 1 <= lam).
        { apply (H3 eq_refl 1 (qt w x y z)).
          - unfold_k. rewrite <- Hq. ring.
          - change (mv4 (K3of (Rspec [w;x;y;z])) (qt w x y z) = vsc 1 (qt w x y z)).
            rewrite (proj1 (K_eigvec_one w x y z Hq)). unfold_k. list_eq; ring. }
        exact (proj2 (K3_select w x y z a b c d lam Hq Hn' HK ltac:(lra))). }
    destruct Hsel as (s & Hs & Hv). exists s. split; [exact Hs|].
    revert Hv. unfold_k. intros Hv. injection Hv as -> -> -> ->.
    pose proof (is_sign_sq s Hs) as Hs2.
    assert (E1 : - (s * - w) * - (s * - w) + s * x * (s * x) + s * y * (s * y) + s * z * (s * z) = 1).
    { replace (- (s * - w) * - (s * - w) + s * x * (s * x) + s * y * (s * y) + s * z * (s * z))
        with ((s*s)*(w*w+x*x+y*y+z*z)) by ring. rewrite Hs2, Hq. ring. }
    rewrite E1.
    rewrite sqrt_1. list_eq; field.
  Qed.
End Itzhack.

(* non-vacuity of the contract: for the identity rotation the solver that returns (1, (0,0,0,-1)) satisfies every
   clause that the proof uses on K3(I) = diag(-1/3,-1/3,-1/3,1) *)
Example K3_identity : K3of (Rspec [1;0;0;0]) = [-1/3;0;0;0; 0;-1/3;0;0; 0;0;-1/3;0; 0;0;0;1].
Proof. unfold_k. list_eq; field. Qed.
Example K3_identity_eigpair : mv4 (K3of (Rspec [1;0;0;0])) (qt 1 0 0 0) = vsc 1 (qt 1 0 0 0) /\ vn2 (qt 1 0 0 0) = 1.
Proof. rewrite K3_identity. unfold_k. split; [list_eq; field|ring]. Qed.

(* ---- the REAL code after the LAPACK call (version 3, the default) ---------------------------------------------
   C02_itzhack_post_v3 is regenerated from orientation.itzhack with the eigen-solver replaced by symbolic eigenvalues
   l0..l3 and eigenvector matrix (v_ij) (columns are eigenvectors): column selection by argmax, np.roll, negation of the
   scalar part and the final normalisation are those of the source.  If every returned column is a real unit eigenvector
   of K3(Rspec q) for its eigenvalue and the eigenvalue 1 of K3 (K_eigvec_one) is among those returned, the code
   returns +-q. *)
Definition eigpair (K : list R) (lam a b c d : R) : Prop := mv4 K [a;b;c;d] = vsc lam [a;b;c;d] /\ a*a+b*b+c*c+d*d = 1.

Ltac post_leaf w x y z Hq lam a b c d HP :=
  let Hl := fresh in assert (Hl : -1/3 < lam) by lra;
  let s := fresh "s" in let Hs := fresh "Hs" in let E := fresh "E" in
  destruct (K3_select w x y z a b c d lam Hq (proj2 HP) (proj1 HP) Hl) as (_ & s & Hs & E);
  revert E; cbv [vsc qt e List.nth]; intros E; injection E as -> -> -> ->;
  exists s; split; [exact Hs|];
  pose proof (is_sign_sq s Hs) as Hs2;
  (let e := goal_rad in replace e with 1 by (replace e with ((s*s)*(w*w+x*x+y*y+z*z)) by ring; rewrite Hs2, Hq; ring));
  rewrite sqrt_1; unfold qsc; val_eq; field.

Lemma itzhack_v3_code w x y z l0 l1 l2 l3 v00 v01 v02 v03 v10 v11 v12 v13 v20 v21 v22 v23 v30 v31 v32 v33 :
  w*w+x*x+y*y+z*z = 1 ->
  let K := K3of (Rspec [w;x;y;z]) in
  eigpair K l0 v00 v10 v20 v30 -> eigpair K l1 v01 v11 v21 v31 -> eigpair K l2 v02 v12 v22 v32 -> eigpair K l3 v03 v13 v23 v33 ->
  (l0 = 1 \/ l1 = 1 \/ l2 = 1 \/ l3 = 1) ->
  signed_q w x y z (C02_itzhack_post_v3_R l0 l1 l2 l3 v00 v01 v02 v03 v10 v11 v12 v13 v20 v21 v22 v23 v30 v31 v32 v33).
Proof.
  intros Hq K P0 P1 P2 P3 H1. unfold signed_q. cbv beta delta [C02_itzhack_post_v3_R]. cbv zeta.
  repeat destr_dec;
  first [ post_leaf w x y z Hq l0 v00 v10 v20 v30 P0 | post_leaf w x y z Hq l1 v01 v11 v21 v31 P1
        | post_leaf w x y z Hq l2 v02 v12 v22 v32 P2 | post_leaf w x y z Hq l3 v03 v13 v23 v33 P3 ].
Qed.
