(* C02_sarabandi.v — Sarabandi's method returns sgn(w) q for EVERY threshold eta < 3 (default 0.0) whenever w <> 0:
   on each of the 2^4 paths every component is |component| (the alternative branch nom/denom equals 4 p^2 because its
   denominator 3 - d_p = 4 (1 - p^2) is positive when d_p <= eta < 3), the sign step applies because q_w = |w| > 0,
   and sgn(4 w v) |v| = sgn(w) v. *)
From Coq Require Import Reals List Lra Psatz.
From AhrsLib Require Import Base Rot Dcm2q.
From AhrsGen Require Import C02gen_R.
Import ListNotations.
Open Scope R_scope.

Lemma sarabandi_inverts w x y z eta : w*w+x*x+y*y+z*z = 1 -> w <> 0 -> eta < 3 ->
  C02_sarabandi_q_R w x y z eta = Val (qsc (Rsgn w) w x y z).
Proof.
  intros Hunit Hw Heta. unit_open Hunit U. unfold C02_sarabandi_q_R. cbv zeta.
  rad_facts w x y z. sgn_facts w x y z Hw. w_facts w Hw.
  plain_gates.
  all: rad_rw.
  all: head_gate.
  all: atoms_finish w x y z Hu.
Qed.

Example sarabandi_example : C02_sarabandi_q_R (3/5) 0 (-4/5) 0 (1/2) = Val [3/5; 0; -4/5; 0].
Proof. rewrite sarabandi_inverts; [|field|lra|lra]. rewrite Rsgn_pos by lra. unfold qsc. val_eq; field. Qed.
