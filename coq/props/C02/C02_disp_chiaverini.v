(* C02_disp_chiaverini.v — the three dispatchers with method='chiaverini': each route returns sgn(w) q for w <> 0. *)
From Coq Require Import Reals List Lra Psatz.
From AhrsLib Require Import Base Rot Dcm2q.
From AhrsGen Require Import C02gen_R.
Import ListNotations.
Open Scope R_scope.

Lemma DCM_chiaverini w x y z : w*w+x*x+y*y+z*z = 1 -> w <> 0 -> is_out (Val (qsc (Rsgn w) w x y z)) (C02_DCM_chiaverini_q_R w x y z).
Proof. intros Hunit Hw. unit_open Hunit U. pose proof (Rabs_pos_lt w Hw) as Haw0. cbv beta delta [C02_DCM_chiaverini_q_R].
  walk2 ltac:(trio_rad w x y z U Hw Hu) ltac:(trio_fin w x y z Hw Hu). Qed.
Lemma QA_chiaverini w x y z : w*w+x*x+y*y+z*z = 1 -> w <> 0 -> is_out (Val (qsc (Rsgn w) w x y z)) (C02_QA_chiaverini_q_R w x y z).
Proof. intros Hunit Hw. unit_open Hunit U. pose proof (Rabs_pos_lt w Hw) as Haw0. cbv beta delta [C02_QA_chiaverini_q_R].
  walk2 ltac:(trio_rad w x y z U Hw Hu) ltac:(trio_fin w x y z Hw Hu). Qed.
Lemma Q_chiaverini w x y z : w*w+x*x+y*y+z*z = 1 -> w <> 0 -> is_out (Val (qsc (Rsgn w) w x y z)) (C02_Q_chiaverini_q_R w x y z).
Proof. intros Hunit Hw. unit_open Hunit U. pose proof (Rabs_pos_lt w Hw) as Haw0. cbv beta delta [C02_Q_chiaverini_q_R].
  walk2 ltac:(trio_rad w x y z U Hw Hu) ltac:(trio_fin w x y z Hw Hu). Qed.
