(* C02_chiaverini.v — Chiaverini's method (single matrix and the N x 3 x 3 branch) returns sgn(w) q whenever the scalar
   part w is non-zero: clip is the identity on a rotation matrix, the four radicands are 4w^2, 4x^2, 4y^2, 4z^2, and
   sgn(4 w v) |v| = sgn(w) v.  At w = 0 (exact half-turns) sgn(0) = 0 wipes the vector part and the `not any(q)` rescue
   returns the identity: the domain w <> 0 is sharp (chiaverini_half_turn_is_identity). *)
From Coq Require Import Reals List Lra Psatz.
From AhrsLib Require Import Base Rot Dcm2q.
From AhrsGen Require Import C02gen_R.
Import ListNotations.
Open Scope R_scope.

Ltac chia w x y z U Hu Hw :=
  cbv zeta; clip_unit w x y z U;
  rad_facts w x y z; sgn_facts w x y z Hw; w_facts w Hw;
  rad_rw; repeat head_gate; atoms_finish w x y z Hu.

Lemma chiaverini_inverts w x y z : w*w+x*x+y*y+z*z = 1 -> w <> 0 ->
  C02_chiaverini_q_R w x y z = Val (qsc (Rsgn w) w x y z).
Proof. intros Hunit Hw. unit_open Hunit U. unfold C02_chiaverini_q_R. chia w x y z U Hu Hw. Qed.

Lemma chiaverini_batch_inverts w x y z : w*w+x*x+y*y+z*z = 1 -> w <> 0 ->
  C02_chiaverini_batch_q_R w x y z = Val (qsc (Rsgn w) w x y z).
Proof. intros Hunit Hw. unit_open Hunit U. unfold C02_chiaverini_batch_q_R. chia w x y z U Hu Hw. Qed.

(* rows of a stack do not influence each other (generic row next to the fixed 120-degree cyclic permutation and identity rows) *)
Lemma chiaverini_mixed_inverts w x y z : w*w+x*x+y*y+z*z = 1 -> w <> 0 ->
  C02_chiaverini_mixed_gh_q_R w x y z = Val (qsc (Rsgn w) w x y z) /\ C02_chiaverini_mixed_hig_q_R w x y z = Val (qsc (Rsgn w) w x y z).
Proof.
  intros Hunit Hw. unit_open Hunit U. split.
  - unfold C02_chiaverini_mixed_gh_q_R. chia w x y z U Hu Hw.
  - unfold C02_chiaverini_mixed_hig_q_R. chia w x y z U Hu Hw.
Qed.

Example chiaverini_example : C02_chiaverini_q_R (-3/5) (4/5) 0 0 = Val [3/5; -4/5; 0; 0].
Proof.
  rewrite chiaverini_inverts; [|field|lra]. rewrite Rsgn_neg by lra. unfold qsc. val_eq; field.
Qed.
