(* C01_routes.v — every public quaternion->matrix / product / rotation route of the *regenerated*
   model equals the specification-level object of AhrsLib.Rot.  Proof scripts only use tactics
   that are insensitive to algebraically equivalent rewrites of the source (ring modulo the
   unit-norm hypotheses). *)
From Coq Require Import Reals List Lra.
From AhrsLib Require Import Base Rot.
From AhrsGen Require Import C01gen_R.
Import ListNotations.
Open Scope R_scope.

Ltac route := intros; orient_unit; cbv zeta; norm1; repeat gate_01; repeat gate_abs0; unfold_rot; val_eq; uring.

Definition unit4 (w x y z : R) : Prop := w*w + x*x + y*y + z*z = 1.

Lemma Q_to_DCM_spec w x y z : unit4 w x y z -> C01_Q_to_DCM_R w x y z = Val (Rspec [w;x;y;z]).
Proof. unfold unit4, C01_Q_to_DCM_R. route. Qed.
Lemma Q_to_DCM_S_spec w x y z : unit4 w x y z -> C01_Q_to_DCM_S_R w x y z = Val (Rspec [w;x;y;z]).
Proof. unfold unit4, C01_Q_to_DCM_S_R. route. Qed.
Lemma QA_to_DCM_spec w x y z : unit4 w x y z -> C01_QA_to_DCM_R w x y z = Val (Rspec [w;x;y;z]).
Proof. unfold unit4, C01_QA_to_DCM_R. route. Qed.
Lemma DCM_q_spec w x y z : unit4 w x y z -> C01_DCM_q_R w x y z = Val (Rspec [w;x;y;z]).
Proof. unfold unit4, C01_DCM_q_R. route. Qed.
Lemma DCM_fromq_spec w x y z : unit4 w x y z -> C01_DCM_fromq_R w x y z = Val (Rspec [w;x;y;z]).
Proof. unfold unit4, C01_DCM_fromq_R. route. Qed.
Lemma DCM_fromq_batch_spec w x y z : unit4 w x y z -> C01_DCM_fromq_batch_R w x y z = Val (Rspec [w;x;y;z]).
Proof. unfold unit4, C01_DCM_fromq_batch_R. route. Qed.
Lemma q2R_v1_spec w x y z : unit4 w x y z -> C01_q2R_v1_R w x y z = Val (Rspec [w;x;y;z]).
Proof. unfold unit4, C01_q2R_v1_R. route. Qed.
Lemma q2R_v2_spec w x y z : unit4 w x y z -> C01_q2R_v2_R w x y z = Val (Rspec [w;x;y;z]).
Proof. unfold unit4, C01_q2R_v2_R. route. Qed.
Lemma q2R_v1_batch_spec w x y z : unit4 w x y z -> C01_q2R_v1_batch_R w x y z = Val (Rspec [w;x;y;z]).
Proof. unfold unit4, C01_q2R_v1_batch_R. route. Qed.
Lemma q2R_v2_batch_spec w x y z : unit4 w x y z -> C01_q2R_v2_batch_R w x y z = Val (Rspec [w;x;y;z]).
Proof. unfold unit4, C01_q2R_v2_batch_R. route. Qed.

(* batch routes with N = 4 and N = 3 rows: row i of the result is the textbook matrix of row i *)
Definition R4 (w0 x0 y0 z0 w1 x1 y1 z1 w2 x2 y2 z2 w3 x3 y3 z3 : R) : list R :=
  Rspec [w0;x0;y0;z0] ++ Rspec [w1;x1;y1;z1] ++ Rspec [w2;x2;y2;z2] ++ Rspec [w3;x3;y3;z3].
Definition R3 (w0 x0 y0 z0 w1 x1 y1 z1 w2 x2 y2 z2 : R) : list R :=
  Rspec [w0;x0;y0;z0] ++ Rspec [w1;x1;y1;z1] ++ Rspec [w2;x2;y2;z2].
Ltac uring1 := first [ ring | solve [field] | match goal with H : ?a * ?a = _ |- _ => ring [H] end
                     | match goal with H : ?a * ?a = _ |- _ => solve [field_simplify_eq; [ring [H] | try lra ..]] end ].
Ltac norm1' :=
  repeat (match goal with
  | |- context [sqrt ?e] =>
      let H := fresh in assert (H : e = 1) by (div1; uring1); rewrite H; clear H; rewrite sqrt_1
  end; div1).
Ltac gate_abs0' :=
  match goal with
  | |- context [Rle_dec (Rabs ?e) ?c] =>
      let H := fresh in assert (H : Rabs e <= c) by (replace e with 0 by uring1; rewrite Rabs_R0; lra);
      destruct (Rle_dec (Rabs e) c); [clear H|contradiction]
  end.
Ltac routeN := intros; orient_unit; cbv zeta; norm1'; repeat gate_01; repeat gate_abs0';
               cbv [R4 R3 app]; unfold_rot; val_eq; uring1.

Lemma QA_to_DCM_N4_spec w0 x0 y0 z0 w1 x1 y1 z1 w2 x2 y2 z2 w3 x3 y3 z3 :
  unit4 w0 x0 y0 z0 -> unit4 w1 x1 y1 z1 -> unit4 w2 x2 y2 z2 -> unit4 w3 x3 y3 z3 ->
  C01_QA_to_DCM_N4_R w0 x0 y0 z0 w1 x1 y1 z1 w2 x2 y2 z2 w3 x3 y3 z3 = Val (R4 w0 x0 y0 z0 w1 x1 y1 z1 w2 x2 y2 z2 w3 x3 y3 z3).
Proof. unfold unit4, C01_QA_to_DCM_N4_R. routeN. Qed.
Lemma DCM_fromq_batch_N4_spec w0 x0 y0 z0 w1 x1 y1 z1 w2 x2 y2 z2 w3 x3 y3 z3 :
  unit4 w0 x0 y0 z0 -> unit4 w1 x1 y1 z1 -> unit4 w2 x2 y2 z2 -> unit4 w3 x3 y3 z3 ->
  C01_DCM_fromq_batch_N4_R w0 x0 y0 z0 w1 x1 y1 z1 w2 x2 y2 z2 w3 x3 y3 z3 = Val (R4 w0 x0 y0 z0 w1 x1 y1 z1 w2 x2 y2 z2 w3 x3 y3 z3).
Proof. unfold unit4, C01_DCM_fromq_batch_N4_R. routeN. Qed.
Lemma q2R_v1_batch_N4_spec w0 x0 y0 z0 w1 x1 y1 z1 w2 x2 y2 z2 w3 x3 y3 z3 :
  unit4 w0 x0 y0 z0 -> unit4 w1 x1 y1 z1 -> unit4 w2 x2 y2 z2 -> unit4 w3 x3 y3 z3 ->
  C01_q2R_v1_batch_N4_R w0 x0 y0 z0 w1 x1 y1 z1 w2 x2 y2 z2 w3 x3 y3 z3 = Val (R4 w0 x0 y0 z0 w1 x1 y1 z1 w2 x2 y2 z2 w3 x3 y3 z3).
Proof. unfold unit4, C01_q2R_v1_batch_N4_R. routeN. Qed.
Lemma q2R_v2_batch_N4_spec w0 x0 y0 z0 w1 x1 y1 z1 w2 x2 y2 z2 w3 x3 y3 z3 :
  unit4 w0 x0 y0 z0 -> unit4 w1 x1 y1 z1 -> unit4 w2 x2 y2 z2 -> unit4 w3 x3 y3 z3 ->
  C01_q2R_v2_batch_N4_R w0 x0 y0 z0 w1 x1 y1 z1 w2 x2 y2 z2 w3 x3 y3 z3 = Val (R4 w0 x0 y0 z0 w1 x1 y1 z1 w2 x2 y2 z2 w3 x3 y3 z3).
Proof. unfold unit4, C01_q2R_v2_batch_N4_R. routeN. Qed.
Lemma QA_to_DCM_N3_spec w0 x0 y0 z0 w1 x1 y1 z1 w2 x2 y2 z2 :
  unit4 w0 x0 y0 z0 -> unit4 w1 x1 y1 z1 -> unit4 w2 x2 y2 z2 ->
  C01_QA_to_DCM_N3_R w0 x0 y0 z0 w1 x1 y1 z1 w2 x2 y2 z2 = Val (R3 w0 x0 y0 z0 w1 x1 y1 z1 w2 x2 y2 z2).
Proof. unfold unit4, C01_QA_to_DCM_N3_R. routeN. Qed.
Lemma DCM_fromq_batch_N3_spec w0 x0 y0 z0 w1 x1 y1 z1 w2 x2 y2 z2 :
  unit4 w0 x0 y0 z0 -> unit4 w1 x1 y1 z1 -> unit4 w2 x2 y2 z2 ->
  C01_DCM_fromq_batch_N3_R w0 x0 y0 z0 w1 x1 y1 z1 w2 x2 y2 z2 = Val (R3 w0 x0 y0 z0 w1 x1 y1 z1 w2 x2 y2 z2).
Proof. unfold unit4, C01_DCM_fromq_batch_N3_R. routeN. Qed.
Lemma q2R_v1_batch_N3_spec w0 x0 y0 z0 w1 x1 y1 z1 w2 x2 y2 z2 :
  unit4 w0 x0 y0 z0 -> unit4 w1 x1 y1 z1 -> unit4 w2 x2 y2 z2 ->
  C01_q2R_v1_batch_N3_R w0 x0 y0 z0 w1 x1 y1 z1 w2 x2 y2 z2 = Val (R3 w0 x0 y0 z0 w1 x1 y1 z1 w2 x2 y2 z2).
Proof. unfold unit4, C01_q2R_v1_batch_N3_R. routeN. Qed.

Definition routes : list (R -> R -> R -> R -> outcome R) :=
  [C01_Q_to_DCM_R; C01_Q_to_DCM_S_R; C01_QA_to_DCM_R; C01_DCM_q_R; C01_DCM_fromq_R; C01_DCM_fromq_batch_R;
   C01_q2R_v1_R; C01_q2R_v2_R; C01_q2R_v1_batch_R; C01_q2R_v2_batch_R].

Lemma all_routes_spec w x y z : unit4 w x y z ->
  Forall (fun f => f w x y z = Val (Rspec [w;x;y;z])) routes.
Proof.
  intros H. unfold routes. repeat constructor;
  [apply Q_to_DCM_spec|apply Q_to_DCM_S_spec|apply QA_to_DCM_spec|apply DCM_q_spec|apply DCM_fromq_spec
  |apply DCM_fromq_batch_spec|apply q2R_v1_spec|apply q2R_v2_spec|apply q2R_v1_batch_spec|apply q2R_v2_batch_spec]; exact H.
Qed.

Lemma unit4_neg w x y z : unit4 w x y z -> unit4 (-w) (-x) (-y) (-z).
Proof. unfold unit4. intros H. rewrite <- H. ring. Qed.
Lemma unit4_conj w x y z : unit4 w x y z -> unit4 w (-x) (-y) (-z).
Proof. unfold unit4. intros H. rewrite <- H. ring. Qed.
Lemma unit4_mul a b c d w x y z : unit4 a b c d -> unit4 w x y z ->
  unit4 (a*w - b*x - c*y - d*z) (a*x + b*w + c*z - d*y) (a*y - b*z + c*w + d*x) (a*z + b*y - c*x + d*w).
Proof. unfold unit4. intros H1 H2. orient_unit. uring. Qed.

(* the product entry points *)
Lemma product_spec a b c d w x y z : unit4 a b c d ->
  C01_product_R a b c d w x y z = Val (qmul [a;b;c;d] [w;x;y;z]).
Proof. unfold unit4, C01_product_R. route. Qed.
Lemma mul_spec a b c d w x y z : unit4 a b c d -> unit4 w x y z ->
  C01_mul_R a b c d w x y z = Val (qmul [a;b;c;d] [w;x;y;z]).
Proof. unfold unit4, C01_mul_R. route. Qed.
Lemma q_prod_spec a b c d w x y z : C01_q_prod_R a b c d w x y z = Val (qmul [a;b;c;d] [w;x;y;z]).
Proof. unfold C01_q_prod_R. intros. unfold_rot. val_eq; ring. Qed.
Lemma rotate_by_spec a b c d w x y z : unit4 a b c d -> unit4 w x y z ->
  C01_rotate_by_R a b c d w x y z = Val (qmul [w;x;y;z] [a;b;c;d]).
Proof. unfold unit4, C01_rotate_by_R. route. Qed.

(* vector rotation *)
Lemma rotate_spec w x y z v0 v1 v2 : unit4 w x y z ->
  C01_rotate_R w x y z v0 v1 v2 = Val (mvec3 (Rspec [w;x;y;z]) [v0;v1;v2]).
Proof. unfold unit4, C01_rotate_R. route. Qed.
Lemma q_rot_spec w x y z v0 v1 v2 : unit4 w x y z ->
  C01_q_rot_R w x y z v0 v1 v2 = Val (mvec3 (mtr3 (Rspec [w;x;y;z])) [v0;v1;v2]).
Proof. unfold unit4, C01_q_rot_R. route. Qed.
