(* C01_routes.v — every public quaternion->matrix / product / rotation route of the *regenerated*
   model equals the specification-level object of AhrsLib.Rot.  Proof scripts only use tactics
   that are insensitive to algebraically equivalent rewrites of the source (ring modulo the
   unit-norm hypotheses). *)
From Coq Require Import Reals List Lra.
From AhrsLib Require Import Base Rot.
From AhrsGen Require Import C01gen_R.
Import ListNotations.
Open Scope R_scope.

Ltac route := intros; orient_unit; cbv zeta; norm1; repeat gate_01; repeat gate_abs0; unfold_rot; val_eq; uring.

Definition unit4 (w x y z : R) : Prop := w*w + x*x + y*y + z*z = 1.

Lemma Q_to_DCM_spec w x y z : unit4 w x y z -> C01_Q_to_DCM_R w x y z = Val (Rspec [w;x;y;z]).
Proof. unfold unit4, C01_Q_to_DCM_R. route. Qed.
Lemma Q_to_DCM_S_spec w x y z : unit4 w x y z -> C01_Q_to_DCM_S_R w x y z = Val (Rspec [w;x;y;z]).
Proof. unfold unit4, C01_Q_to_DCM_S_R. route. Qed.
Lemma QA_to_DCM_spec w x y z : unit4 w x y z -> C01_QA_to_DCM_R w x y z = Val (Rspec [w;x;y;z]).
Proof. unfold unit4, C01_QA_to_DCM_R. route. Qed.
Lemma DCM_q_spec w x y z : unit4 w x y z -> C01_DCM_q_R w x y z = Val (Rspec [w;x;y;z]).
Proof. unfold unit4, C01_DCM_q_R. route. Qed.
Lemma DCM_fromq_spec w x y z : unit4 w x y z -> C01_DCM_fromq_R w x y z = Val (Rspec [w;x;y;z]).
Proof. unfold unit4, C01_DCM_fromq_R. route. Qed.
Lemma DCM_fromq_batch_spec w x y z : unit4 w x y z -> C01_DCM_fromq_batch_R w x y z = Val (Rspec [w;x;y;z]).
Proof. unfold unit4, C01_DCM_fromq_batch_R. route. Qed.
Lemma q2R_v1_spec w x y z : unit4 w x y z -> C01_q2R_v1_R w x y z = Val (Rspec [w;x;y;z]).
Proof. unfold unit4, C01_q2R_v1_R. route. Qed.
Lemma q2R_v2_spec w x y z : unit4 w x y z -> C01_q2R_v2_R w x y z = Val (Rspec [w;x;y;z]).
Proof. unfold unit4, C01_q2R_v2_R. route. Qed.
Lemma q2R_v1_batch_spec w x y z : unit4 w x y z -> C01_q2R_v1_batch_R w x y z = Val (Rspec [w;x;y;z]).
Proof. unfold unit4, C01_q2R_v1_batch_R. route. Qed.
Lemma q2R_v2_batch_spec w x y z : unit4 w x y z -> C01_q2R_v2_batch_R w x y z = Val (Rspec [w;x;y;z]).
Proof. unfold unit4, C01_q2R_v2_batch_R. route. Qed.

Definition routes : list (R -> R -> R -> R -> outcome R) :=
  [C01_Q_to_DCM_R; C01_Q_to_DCM_S_R; C01_QA_to_DCM_R; C01_DCM_q_R; C01_DCM_fromq_R; C01_DCM_fromq_batch_R;
   C01_q2R_v1_R; C01_q2R_v2_R; C01_q2R_v1_batch_R; C01_q2R_v2_batch_R].

Lemma all_routes_spec w x y z : unit4 w x y z ->
  Forall (fun f => f w x y z = Val (Rspec [w;x;y;z])) routes.
Proof.
  intros H. unfold routes. repeat constructor;
  [apply Q_to_DCM_spec|apply Q_to_DCM_S_spec|apply QA_to_DCM_spec|apply DCM_q_spec|apply DCM_fromq_spec
  |apply DCM_fromq_batch_spec|apply q2R_v1_spec|apply q2R_v2_spec|apply q2R_v1_batch_spec|apply q2R_v2_batch_spec]; exact H.
Qed.

Lemma unit4_neg w x y z : unit4 w x y z -> unit4 (-w) (-x) (-y) (-z).
Proof. unfold unit4. intros H. rewrite <- H. ring. Qed.
Lemma unit4_conj w x y z : unit4 w x y z -> unit4 w (-x) (-y) (-z).
Proof. unfold unit4. intros H. rewrite <- H. ring. Qed.
Lemma unit4_mul a b c d w x y z : unit4 a b c d -> unit4 w x y z ->
  unit4 (a*w - b*x - c*y - d*z) (a*x + b*w + c*z - d*y) (a*y - b*z + c*w + d*x) (a*z + b*y - c*x + d*w).
Proof. unfold unit4. intros H1 H2. orient_unit. uring. Qed.

(* the product entry points *)
Lemma product_spec a b c d w x y z : unit4 a b c d ->
  C01_product_R a b c d w x y z = Val (qmul [a;b;c;d] [w;x;y;z]).
Proof. unfold unit4, C01_product_R. route. Qed.
Lemma mul_spec a b c d w x y z : unit4 a b c d -> unit4 w x y z ->
  C01_mul_R a b c d w x y z = Val (qmul [a;b;c;d] [w;x;y;z]).
Proof. unfold unit4, C01_mul_R. route. Qed.
Lemma q_prod_spec a b c d w x y z : C01_q_prod_R a b c d w x y z = Val (qmul [a;b;c;d] [w;x;y;z]).
Proof. unfold C01_q_prod_R. intros. unfold_rot. val_eq; ring. Qed.
Lemma rotate_by_spec a b c d w x y z : unit4 a b c d -> unit4 w x y z ->
  C01_rotate_by_R a b c d w x y z = Val (qmul [w;x;y;z] [a;b;c;d]).
Proof. unfold unit4, C01_rotate_by_R. route. Qed.

(* vector rotation *)
Lemma rotate_spec w x y z v0 v1 v2 : unit4 w x y z ->
  C01_rotate_R w x y z v0 v1 v2 = Val (mvec3 (Rspec [w;x;y;z]) [v0;v1;v2]).
Proof. unfold unit4, C01_rotate_R. route. Qed.
Lemma q_rot_spec w x y z v0 v1 v2 : unit4 w x y z ->
  C01_q_rot_R w x y z v0 v1 v2 = Val (mvec3 (mtr3 (Rspec [w;x;y;z])) [v0;v1;v2]).
Proof. unfold unit4, C01_q_rot_R. route. Qed.
