(* C01_nonunit.v — the normalising routes on ANY non-zero quaternion return the textbook matrix of q/|q| *)
From Coq Require Import Reals List Lra.
From AhrsLib Require Import Base Rot.
From AhrsGen Require Import C01gen_R.
From AhrsProps Require Import C01_routes.
Import ListNotations.
Open Scope R_scope.

Definition nrm (w x y z : R) : R := sqrt (w*w + x*x + y*y + z*z).
Definition nq (w x y z : R) : list R := [w / nrm w x y z; x / nrm w x y z; y / nrm w x y z; z / nrm w x y z].

(* every normalising route, on ANY non-zero quaternion, returns the textbook matrix of q/|q| *)
Ltac route_nz :=
  intros w x y z H;
  assert (Hs : 0 < sqrt (w*w + x*x + y*y + z*z)) by (apply sqrt_lt_R0; exact H);
  assert (Hn : sqrt (w*w + x*x + y*y + z*z) * sqrt (w*w + x*x + y*y + z*z) = w*w + x*x + y*y + z*z) by (apply sqrt_sqrt; lra);
  cbv zeta; unfold nq, nrm;
  (* the source may add the squares in another order (scalar-last storage): bring every radicand to one form *)
  repeat match goal with
  | |- context [sqrt ?e] =>
      lazymatch e with
      | (w*w + x*x + y*y + z*z) => fail
      | _ => replace e with (w*w + x*x + y*y + z*z) by ring
      end
  end;
  set (n := sqrt (w*w + x*x + y*y + z*z)) in *;
  assert (Hn0 : n <> 0) by lra;
  assert (Hu : (w/n)*(w/n) + (x/n)*(x/n) + (y/n)*(y/n) + (z/n)*(z/n) = 1) by (replace ((w/n)*(w/n) + (x/n)*(x/n) + (y/n)*(y/n) + (z/n)*(z/n)) with ((w*w + x*x + y*y + z*z) / (n*n)) by (field; exact Hn0); rewrite <- Hn; field; exact Hn0);
  set (a := w / n) in *; set (b := x / n) in *; set (c := y / n) in *; set (d := z / n) in *;
  clearbody a b c d;
  repeat match goal with
  | |- context [Req_EM_T 0 n] => destruct (Req_EM_T 0 n); [lra|]
  | |- context [Rlt_dec 0 n] => destruct (Rlt_dec 0 n); [|lra]
  end;
  clear Hn H Hs; clearbody n;
  orient_unit; norm1; repeat gate_01; repeat gate_abs0; unfold_rot; val_eq; uring.

Lemma Q_to_DCM_nz : forall w x y z, 0 < w*w+x*x+y*y+z*z -> C01_Q_to_DCM_R w x y z = Val (Rspec (nq w x y z)).
Proof. unfold C01_Q_to_DCM_R. route_nz. Qed.
Lemma Q_to_DCM_S_nz : forall w x y z, 0 < w*w+x*x+y*y+z*z -> C01_Q_to_DCM_S_R w x y z = Val (Rspec (nq w x y z)).
Proof. unfold C01_Q_to_DCM_S_R. route_nz. Qed.
Lemma QA_to_DCM_nz : forall w x y z, 0 < w*w+x*x+y*y+z*z -> C01_QA_to_DCM_R w x y z = Val (Rspec (nq w x y z)).
Proof. unfold C01_QA_to_DCM_R. route_nz. Qed.
Lemma DCM_q_nz : forall w x y z, 0 < w*w+x*x+y*y+z*z -> C01_DCM_q_R w x y z = Val (Rspec (nq w x y z)).
Proof. unfold C01_DCM_q_R. route_nz. Qed.
Lemma DCM_fromq_nz : forall w x y z, 0 < w*w+x*x+y*y+z*z -> C01_DCM_fromq_R w x y z = Val (Rspec (nq w x y z)).
Proof. unfold C01_DCM_fromq_R. route_nz. Qed.
Lemma DCM_fromq_batch_nz : forall w x y z, 0 < w*w+x*x+y*y+z*z -> C01_DCM_fromq_batch_R w x y z = Val (Rspec (nq w x y z)).
Proof. unfold C01_DCM_fromq_batch_R. route_nz. Qed.
Lemma q2R_v1_nz : forall w x y z, 0 < w*w+x*x+y*y+z*z -> C01_q2R_v1_R w x y z = Val (Rspec (nq w x y z)).
Proof. unfold C01_q2R_v1_R. route_nz. Qed.
Lemma q2R_v2_nz : forall w x y z, 0 < w*w+x*x+y*y+z*z -> C01_q2R_v2_R w x y z = Val (Rspec (nq w x y z)).
Proof. unfold C01_q2R_v2_R. route_nz. Qed.
Lemma q2R_v1_batch_nz : forall w x y z, 0 < w*w+x*x+y*y+z*z -> C01_q2R_v1_batch_R w x y z = Val (Rspec (nq w x y z)).
Proof. unfold C01_q2R_v1_batch_R. route_nz. Qed.
Lemma q2R_v2_batch_nz : forall w x y z, 0 < w*w+x*x+y*y+z*z -> C01_q2R_v2_batch_R w x y z = Val (Rspec (nq w x y z)).
Proof. unfold C01_q2R_v2_batch_R. route_nz. Qed.

Lemma all_routes_nz w x y z : 0 < w*w+x*x+y*y+z*z -> Forall (fun f => f w x y z = Val (Rspec (nq w x y z))) routes.
Proof.
  intros H. unfold routes. repeat constructor;
  [apply Q_to_DCM_nz|apply Q_to_DCM_S_nz|apply QA_to_DCM_nz|apply DCM_q_nz|apply DCM_fromq_nz|apply DCM_fromq_batch_nz
  |apply q2R_v1_nz|apply q2R_v2_nz|apply q2R_v1_batch_nz|apply q2R_v2_batch_nz]; exact H.
Qed.
Lemma nq_unit w x y z : 0 < w*w+x*x+y*y+z*z -> qnorm2 (nq w x y z) = 1.
Proof.
  intros H. assert (Hs : 0 < nrm w x y z) by (apply sqrt_lt_R0; exact H).
  assert (Hn : nrm w x y z * nrm w x y z = w*w+x*x+y*y+z*z) by (apply sqrt_sqrt; lra).
  unfold nq. cbv [qnorm2 e List.nth]. set (n := nrm w x y z) in *.
  replace (w/n*(w/n) + x/n*(x/n) + y/n*(y/n) + z/n*(z/n)) with ((w*w+x*x+y*y+z*z)/(n*n)) by (field; lra).
  rewrite <- Hn. field. lra.
Qed.
