(* C01.v — property C01: quaternions and rotation matrices are one rotation group.
   Only statements, each closed by `exact`, each followed by Print Assumptions. *)
From Coq Require Import Reals List Lra.
From AhrsLib Require Import Base Rot.
From AhrsGen Require Import C01gen_R.
From AhrsProps Require Import C01_routes C01_nonunit.
Import ListNotations.
Open Scope R_scope.

(* every public conversion route returns (never raises) the textbook rotation matrix, a proper rotation *)
Theorem C01_routes_are_rotations : forall w x y z, w*w + x*x + y*y + z*z = 1 ->
  Forall (fun f => f w x y z = Val (Rspec [w;x;y;z])) routes /\ SO3 (Rspec [w;x;y;z]).
Proof. intros w x y z H. split; [exact (all_routes_spec w x y z H)|exact (Rspec_SO3 w x y z H)]. Qed.
Print Assumptions C01_routes_are_rotations.

(* the same for ANY non-zero quaternion: every route normalises first, so it returns the matrix of q/|q|,
   which is a unit quaternion (hence a proper rotation by the theorem above) *)
Theorem C01_routes_normalise_first : forall w x y z, 0 < w*w + x*x + y*y + z*z ->
  Forall (fun f => f w x y z = Val (Rspec (nq w x y z))) routes /\ qnorm2 (nq w x y z) = 1.
Proof. intros w x y z H. split; [exact (all_routes_nz w x y z H)|exact (nq_unit w x y z H)]. Qed.
Print Assumptions C01_routes_normalise_first.

(* the array routes given N = 4 (square!) and N = 3 rows return, row by row, the textbook matrix of that row *)
Theorem C01_batch_rows : forall w0 x0 y0 z0 w1 x1 y1 z1 w2 x2 y2 z2 w3 x3 y3 z3,
  w0*w0 + x0*x0 + y0*y0 + z0*z0 = 1 -> w1*w1 + x1*x1 + y1*y1 + z1*z1 = 1 ->
  w2*w2 + x2*x2 + y2*y2 + z2*z2 = 1 -> w3*w3 + x3*x3 + y3*y3 + z3*z3 = 1 ->
  let r4 := Val (Rspec [w0;x0;y0;z0] ++ Rspec [w1;x1;y1;z1] ++ Rspec [w2;x2;y2;z2] ++ Rspec [w3;x3;y3;z3]) in
  let r3 := Val (Rspec [w0;x0;y0;z0] ++ Rspec [w1;x1;y1;z1] ++ Rspec [w2;x2;y2;z2]) in
  C01_QA_to_DCM_N4_R w0 x0 y0 z0 w1 x1 y1 z1 w2 x2 y2 z2 w3 x3 y3 z3 = r4 /\
  C01_DCM_fromq_batch_N4_R w0 x0 y0 z0 w1 x1 y1 z1 w2 x2 y2 z2 w3 x3 y3 z3 = r4 /\
  C01_q2R_v1_batch_N4_R w0 x0 y0 z0 w1 x1 y1 z1 w2 x2 y2 z2 w3 x3 y3 z3 = r4 /\
  C01_q2R_v2_batch_N4_R w0 x0 y0 z0 w1 x1 y1 z1 w2 x2 y2 z2 w3 x3 y3 z3 = r4 /\
  C01_QA_to_DCM_N3_R w0 x0 y0 z0 w1 x1 y1 z1 w2 x2 y2 z2 = r3 /\
  C01_DCM_fromq_batch_N3_R w0 x0 y0 z0 w1 x1 y1 z1 w2 x2 y2 z2 = r3 /\
  C01_q2R_v1_batch_N3_R w0 x0 y0 z0 w1 x1 y1 z1 w2 x2 y2 z2 = r3.
Proof.
  intros w0 x0 y0 z0 w1 x1 y1 z1 w2 x2 y2 z2 w3 x3 y3 z3 H0 H1 H2 H3 r4 r3.
  split; [exact (QA_to_DCM_N4_spec _ _ _ _ _ _ _ _ _ _ _ _ _ _ _ _ H0 H1 H2 H3)|].
  split; [exact (DCM_fromq_batch_N4_spec _ _ _ _ _ _ _ _ _ _ _ _ _ _ _ _ H0 H1 H2 H3)|].
  split; [exact (q2R_v1_batch_N4_spec _ _ _ _ _ _ _ _ _ _ _ _ _ _ _ _ H0 H1 H2 H3)|].
  split; [exact (q2R_v2_batch_N4_spec _ _ _ _ _ _ _ _ _ _ _ _ _ _ _ _ H0 H1 H2 H3)|].
  split; [exact (QA_to_DCM_N3_spec _ _ _ _ _ _ _ _ _ _ _ _ H0 H1 H2)|].
  split; [exact (DCM_fromq_batch_N3_spec _ _ _ _ _ _ _ _ _ _ _ _ H0 H1 H2)|exact (q2R_v1_batch_N3_spec _ _ _ _ _ _ _ _ _ _ _ _ H0 H1 H2)].
Qed.
Print Assumptions C01_batch_rows.

(* q and -q give the same matrix through every route *)
Theorem C01_neg_same_matrix : forall w x y z, w*w + x*x + y*y + z*z = 1 ->
  Forall (fun f => f (-w) (-x) (-y) (-z) = f w x y z) routes.
Proof.
  intros w x y z H.
  pose proof (all_routes_spec w x y z H) as A. pose proof (all_routes_spec _ _ _ _ (unit4_neg w x y z H)) as B.
  rewrite Forall_forall in *. intros f Hf. rewrite (A f Hf), (B f Hf). f_equal. exact (Rspec_neg w x y z).
Qed.
Print Assumptions C01_neg_same_matrix.

(* the conjugate gives the transpose through every route *)
Theorem C01_conj_transpose : forall w x y z, w*w + x*x + y*y + z*z = 1 ->
  Forall (fun f => f w (-x) (-y) (-z) = Val (mtr3 (Rspec [w;x;y;z]))) routes.
Proof.
  intros w x y z H. pose proof (all_routes_spec _ _ _ _ (unit4_conj w x y z H)) as B.
  rewrite Forall_forall in *. intros f Hf. rewrite (B f Hf). f_equal. exact (Rspec_conj w x y z).
Qed.
Print Assumptions C01_conj_transpose.

(* the matrix of the product is the product of the matrices, for the Hamilton product computed by
   every product entry point (method, operator, free function) *)
Theorem C01_homomorphism : forall a b c d w x y z, a*a + b*b + c*c + d*d = 1 -> w*w + x*x + y*y + z*z = 1 ->
  C01_product_R a b c d w x y z = Val (qmul [a;b;c;d] [w;x;y;z]) /\
  C01_mul_R a b c d w x y z = Val (qmul [a;b;c;d] [w;x;y;z]) /\
  C01_q_prod_R a b c d w x y z = Val (qmul [a;b;c;d] [w;x;y;z]) /\
  C01_rotate_by_R a b c d w x y z = Val (qmul [w;x;y;z] [a;b;c;d]) /\
  Rspec (qmul [a;b;c;d] [w;x;y;z]) = mmul3 (Rspec [a;b;c;d]) (Rspec [w;x;y;z]) /\
  Forall (fun f => f (a*w - b*x - c*y - d*z) (a*x + b*w + c*z - d*y) (a*y - b*z + c*w + d*x) (a*z + b*y - c*x + d*w)
                   = Val (mmul3 (Rspec [a;b;c;d]) (Rspec [w;x;y;z]))) routes.
Proof.
  intros a b c d w x y z Hp Hq.
  split; [exact (product_spec a b c d w x y z Hp)|].
  split; [exact (mul_spec a b c d w x y z Hp Hq)|].
  split; [exact (q_prod_spec a b c d w x y z)|].
  split; [exact (rotate_by_spec a b c d w x y z Hp Hq)|].
  split; [exact (Rspec_mul a b c d w x y z Hp Hq)|].
  pose proof (all_routes_spec _ _ _ _ (unit4_mul a b c d w x y z Hp Hq)) as B.
  rewrite Forall_forall in *. intros f Hf. rewrite (B f Hf). f_equal. exact (Rspec_mul a b c d w x y z Hp Hq).
Qed.
Print Assumptions C01_homomorphism.

(* rotating a vector = multiplying by the matrix = vector part of q v q* ; q_rot is the inverse rotation *)
Theorem C01_rotate : forall w x y z v0 v1 v2, w*w + x*x + y*y + z*z = 1 ->
  C01_rotate_R w x y z v0 v1 v2 = Val (mvec3 (Rspec [w;x;y;z]) [v0;v1;v2]) /\
  mvec3 (Rspec [w;x;y;z]) [v0;v1;v2] = sandwich [w;x;y;z] [v0;v1;v2] /\
  C01_q_rot_R w x y z v0 v1 v2 = Val (mvec3 (mtr3 (Rspec [w;x;y;z])) [v0;v1;v2]).
Proof.
  intros w x y z v0 v1 v2 H.
  split; [exact (rotate_spec w x y z v0 v1 v2 H)|].
  split; [exact (Rspec_sandwich w x y z v0 v1 v2 H)|exact (q_rot_spec w x y z v0 v1 v2 H)].
Qed.
Print Assumptions C01_rotate.

(* the hypotheses are inhabited by a non-trivial quaternion *)
Example C01_nonvacuous : (1/2)*(1/2) + (1/2)*(1/2) + (1/2)*(1/2) + (1/2)*(1/2) = 1 /\
  Rspec [1/2;1/2;1/2;1/2] = [0;0;1; 1;0;0; 0;1;0].
Proof. split; [lra|]. unfold_rot. list_eq; lra. Qed.
