(* C11_routes.v — hand model of the angle-driven DCM construction routes of ahrs/common/dcm.py
   (`rotation`, `rot_seq`, DCM(x=,y=,z=), DCM(rpy=), DCM(euler=), `from_axisangle`), which the tracing translator
   cannot run on a symbolic angle (`float(ang)`, `isinstance(x, (float, int))`).
   The model is written once over an abstract number type and instantiated over R (theorems) and over
   PrimFloat (run by vm_compute for the correspondence with the implementation).
   An elementary rotation is given by the pair (c, s) = (cos ang, sin ang); the early exits of `rotation`
   (angle 0, whole turns, unknown axis) return the identity, which is the same matrix as (c, s) = (1, 0). *)
From Coq Require Import List.
Import ListNotations.

Inductive axis := AX | AY | AZ.

Section Poly.
Variable T : Type.
Variables (zero one : T) (add sub mul div : T -> T -> T) (neg sqrt : T -> T).

Definition g (A : list T) (i : nat) : T := nth i A zero.
Definition I3m : list T := [one; zero; zero;  zero; one; zero;  zero; zero; one].
(* numpy's 3x3 matmul: (a0*b0 + a1*b1) + a2*b2 *)
Definition mm (A B : list T) : list T :=
  [add (add (mul (g A 0) (g B 0)) (mul (g A 1) (g B 3))) (mul (g A 2) (g B 6));
   add (add (mul (g A 0) (g B 1)) (mul (g A 1) (g B 4))) (mul (g A 2) (g B 7));
   add (add (mul (g A 0) (g B 2)) (mul (g A 1) (g B 5))) (mul (g A 2) (g B 8));
   add (add (mul (g A 3) (g B 0)) (mul (g A 4) (g B 3))) (mul (g A 5) (g B 6));
   add (add (mul (g A 3) (g B 1)) (mul (g A 4) (g B 4))) (mul (g A 5) (g B 7));
   add (add (mul (g A 3) (g B 2)) (mul (g A 4) (g B 5))) (mul (g A 5) (g B 8));
   add (add (mul (g A 6) (g B 0)) (mul (g A 7) (g B 3))) (mul (g A 8) (g B 6));
   add (add (mul (g A 6) (g B 1)) (mul (g A 7) (g B 4))) (mul (g A 8) (g B 7));
   add (add (mul (g A 6) (g B 2)) (mul (g A 7) (g B 5))) (mul (g A 8) (g B 8))].

(* dcm.rotation(ax, ang) with ca = c, sa = s *)
Definition elem (a : axis) (c s : T) : list T :=
  match a with
  | AX => [one; zero; zero;  zero; c; neg s;  zero; s; c]
  | AY => [c; zero; s;  zero; one; zero;  neg s; zero; c]
  | AZ => [c; neg s; zero;  s; c; zero;  zero; zero; one]
  end.

(* dcm.rot_seq(axes, angles): R = rotation(axes[0]) @ (rotation(axes[1]) @ ( ... @ I)) *)
Fixpoint rot_seq (l : list (axis * T * T)) : list T :=
  match l with
  | [] => I3m
  | (a, c, s) :: r => mm (elem a c s) (rot_seq r)
  end.

(* DCM(x=, y=, z=): ((I @ Rx) @ Ry) @ Rz *)
Definition dcm_xyz (cx sx cy sy cz sz : T) : list T :=
  mm (mm (mm I3m (elem AX cx sx)) (elem AY cy sy)) (elem AZ cz sz).
(* DCM(rpy=[a0,a1,a2]) = rot_seq('zyx', angles) *)
Definition dcm_rpy (c0 s0 c1 s1 c2 s2 : T) : list T := rot_seq [(AZ, c0, s0); (AY, c1, s1); (AX, c2, s2)].

(* DCM.from_axisangle(axis, angle): k = axis/|axis|, K = skew(k), I + sin*K + ((1-cos)*K) @ K *)
Definition skewm (k0 k1 k2 : T) : list T := [zero; neg k2; k1;  k2; zero; neg k0;  neg k1; k0; zero].
Definition madd (A B : list T) : list T :=
  [add (g A 0) (g B 0); add (g A 1) (g B 1); add (g A 2) (g B 2); add (g A 3) (g B 3); add (g A 4) (g B 4);
   add (g A 5) (g B 5); add (g A 6) (g B 6); add (g A 7) (g B 7); add (g A 8) (g B 8)].
Definition msc (k : T) (A : list T) : list T := map (mul k) A.
Definition rodrigues (a0 a1 a2 c s : T) : list T :=
  let n := sqrt (add (add (mul a0 a0) (mul a1 a1)) (mul a2 a2)) in
  let K := skewm (div a0 n) (div a1 n) (div a2 n) in
  madd (madd I3m (msc s K)) (mm (msc (sub one c) K) K).
End Poly.
