(* C03_letin.v — sharing-preserving form of the regenerated definitions.
   The kernel's conversion zeta-expands `let x := v in b` on both sides of every comparison, so any proof step that opens
   one `let` of a filter step costs the size of the step's let-DAG expanded as a TREE (minutes for AQUA / Madgwick MARG).
   tools/props/C03.py therefore prints each target a second time (same DAG, same printer for the expressions) with every
   `let x := v in b` written as `let_in v (fun x => b)`: `let_in` is a constant, its continuation an explicit lambda, so
   the conclusion of `let_in_intro` is SYNTACTICALLY the goal and each step costs the size of the term, not of the tree. *)
From Coq Require Import Reals List.
From AhrsLib Require Import Base.
Import ListNotations.
Open Scope R_scope.

Definition let_in (v : R) (k : R -> outcome R) : outcome R := k v.

Lemma let_in_intro (P : outcome R -> Prop) (v : R) (k : R -> outcome R) :
  (forall y, y = v -> P (k y)) -> P (let_in v k).
Proof. intros H. exact (H v eq_refl). Qed.

Lemma if_elim {A} {P Q : Prop} (c : {P} + {Q}) (a b : A) (G : A -> Prop) :
  (P -> G a) -> (Q -> G b) -> G (if c then a else b).
Proof. destruct c; auto. Qed.

(* walk the decision tree: every let becomes a variable with an equation, every `if` a case split with its hypothesis;
   `gate H` may close an infeasible branch from the branch hypothesis H; `leaf` is run at every remaining leaf *)
Ltac walkL gate leaf :=
  lazymatch goal with
  | |- ?P (let_in ?v ?k) =>
      let y := fresh "t_" in let Hy := fresh "E" y in
      refine (let_in_intro P v k _); intros y Hy; cbv beta; walkL gate leaf
  | |- ?P (if ?c then ?a else ?b) =>
      let H := fresh "C" in
      refine (if_elim c a b P _ _); intro H;
      [ first [ solve [gate H] | walkL gate leaf ] | first [ solve [gate H] | walkL gate leaf ] ]
  | |- _ => leaf
  end.
Ltac no_gate H := fail.
