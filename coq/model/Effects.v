(* Effects.v — effect language for array aliasing / in-place mutation / global state, its relational
   semantics over heaps of versioned cells, a points-to ("which caller arrays may this variable alias")
   analysis with per-callee summaries computed in call-graph order, and the soundness theorems.

   Promoted from notes/feasibility/effects_may_mutate_sound.v and extended with: copy, store, readglobal,
   call (with callee summaries), per-parameter label sets instead of one taint bit, a checked fixpoint at loops.
   No reals, no axioms: everything here is closed under the global context.

   Reading guide
     prog, fdef, table         the language: programs of one callable, the table of all callables
     st, exec                  concrete states (env : var -> option cell, ver : cell -> version, nxt, glob) and
                               the big-step relational semantics; `If` and `Loop` are non-deterministic, so a
                               statement about "every s' with exec p s s'" covers every path and loop count
     amap, ana, summ, summs_upto  the analysis; `ana` is run by vm_compute on the regenerated programs
     exec_frame                what any program (even one calling an unknown callee) cannot do: reach or change
                               a cell that was not reachable from its entry environment
     ana_sound                 the analysis over-approximates aliasing, mutation and global-state use
     summs_valid               the summaries computed in table order are sound (so calls may use them)
     may_mutate_sound, param_unchanged, pure_repeatable   the statements used by property C19                   *)
From Coq Require Import List Arith Bool Lia.
Import ListNotations.

Definition var := nat.
Definition cellid := nat.
Definition lbl := nat.      (* a label names one protected (caller) array: at top level, the index of a parameter *)
Definition gid := nat.      (* a piece of global mutable state: 0 = NumPy global RNG, 1 = module generator, 2 = clock ... *)
Definition fid := nat.      (* index of a callable in the table *)

Inductive prog :=
| Skip
| Fresh (x : var)                        (* x := new array (np.array, arithmetic, constructor) *)
| Alias (x : var) (ys : list var)        (* x := view/alias of one of ys (names, slices, .T, reshape, asarray, a if c else b) *)
| Copy (x y : var)                       (* x := np.copy(y): new cell, reads y *)
| InPlace (x : var)                      (* x op= ... ; x[...] = ... ; x.sort() ; out=x *)
| Store (x y : var)                      (* x[...] = y / x.attr = y / x.append(y) on a container: x is written AND may later yield y *)
| ReadGlobal (g : gid)                   (* draws from / advances global state g *)
| Call (r : var) (f : fid) (args : list var)   (* r := f(args) *)
| Seq (p q : prog)
| If (p q : prog)
| Loop (p : prog).

Record fdef := { f_nparams : nat; f_body : prog; f_ret : var }.   (* parameters are the variables 0 .. f_nparams-1 *)
Definition table := list fdef.

(* ------------------------------------------------------------------ concrete semantics *)
Record st := { env : var -> option cellid; ver : cellid -> nat; nxt : cellid; glob : gid -> nat }.

Definition upd {A} (f : nat -> A) (k : nat) (v : A) : nat -> A := fun j => if Nat.eqb j k then v else f j.

Definition bump (s : st) (oc : option cellid) : cellid -> nat :=
  match oc with Some c => upd (ver s) c (S (ver s c)) | None => ver s end.

Definition entry_env (s : st) (args : list var) : var -> option cellid :=
  fun k => match nth_error args k with Some a => env s a | None => None end.

Inductive exec (T : table) : prog -> st -> st -> Prop :=
| ESkip s : exec T Skip s s
| EFresh x s : exec T (Fresh x) s {| env := upd (env s) x (Some (nxt s)); ver := ver s; nxt := S (nxt s); glob := glob s |}
| ECopy x y s : exec T (Copy x y) s {| env := upd (env s) x (Some (nxt s)); ver := ver s; nxt := S (nxt s); glob := glob s |}
| EAlias x ys y s : In y ys ->
    exec T (Alias x ys) s {| env := upd (env s) x (env s y); ver := ver s; nxt := nxt s; glob := glob s |}
| EInPlace x s : exec T (InPlace x) s {| env := env s; ver := bump s (env s x); nxt := nxt s; glob := glob s |}
| EStore x y z s : In z [x; y] ->
    exec T (Store x y) s {| env := upd (env s) x (env s z); ver := bump s (env s x); nxt := nxt s; glob := glob s |}
| EReadGlobal g s : exec T (ReadGlobal g) s {| env := env s; ver := ver s; nxt := nxt s; glob := upd (glob s) g (S (glob s g)) |}
| ECall r f args fd s s1 : nth_error T f = Some fd ->
    exec T (f_body fd) {| env := entry_env s args; ver := ver s; nxt := nxt s; glob := glob s |} s1 ->
    exec T (Call r f args) s {| env := upd (env s) r (env s1 (f_ret fd)); ver := ver s1; nxt := nxt s1; glob := glob s1 |}
| ESeq p q s1 s2 s3 : exec T p s1 s2 -> exec T q s2 s3 -> exec T (Seq p q) s1 s3
| EIfL p q s1 s2 : exec T p s1 s2 -> exec T (If p q) s1 s2
| EIfR p q s1 s2 : exec T q s1 s2 -> exec T (If p q) s1 s2
| ELoop0 p s : exec T (Loop p) s s
| ELoopS p s1 s2 s3 : exec T p s1 s2 -> exec T (Loop p) s2 s3 -> exec T (Loop p) s1 s3.

Lemma upd_same {A} (f : nat -> A) k v : upd f k v k = v.
Proof. unfold upd. now rewrite Nat.eqb_refl. Qed.
Lemma upd_other {A} (f : nat -> A) k v j : j <> k -> upd f k v j = f j.
Proof. unfold upd. intros H. apply Nat.eqb_neq in H. now rewrite H. Qed.

(* every bound variable points below the allocation pointer *)
Definition wf (s : st) := forall x c, env s x = Some c -> c < nxt s.

(* What no program can do, whatever it calls: it can only reach cells reachable from its entry environment
   (or allocated by itself), and it can only change such cells. *)
Lemma exec_frame T p s s' : exec T p s s' -> wf s ->
  wf s' /\ nxt s <= nxt s' /\
  (forall x c, env s' x = Some c -> c < nxt s -> exists y, env s y = Some c) /\
  (forall c, c < nxt s -> (forall y, env s y <> Some c) -> ver s' c = ver s c).
Proof.
  unfold wf. induction 1; intros W.
  - repeat split; auto. intros x c E _. eauto.
  - repeat split; simpl; auto.
    + intros y c E. simpl in E. destruct (Nat.eq_dec y x) as [->|N].
      * rewrite upd_same in E. inversion E. lia.
      * rewrite upd_other in E by exact N. apply W in E. lia.
    + intros y c E L. destruct (Nat.eq_dec y x) as [->|N].
      * rewrite upd_same in E. inversion E. lia.
      * rewrite upd_other in E by exact N. eauto.
  - repeat split; simpl; auto.
    + intros z c E. simpl in E. destruct (Nat.eq_dec z x) as [->|N].
      * rewrite upd_same in E. inversion E. lia.
      * rewrite upd_other in E by exact N. apply W in E. lia.
    + intros z c E L. destruct (Nat.eq_dec z x) as [->|N].
      * rewrite upd_same in E. inversion E. lia.
      * rewrite upd_other in E by exact N. eauto.
  - repeat split; simpl; auto.
    + intros z c E. simpl in E. destruct (Nat.eq_dec z x) as [->|N].
      * rewrite upd_same in E. eauto.
      * rewrite upd_other in E by exact N. eauto.
    + intros z c E L. destruct (Nat.eq_dec z x) as [->|N].
      * rewrite upd_same in E. eauto.
      * rewrite upd_other in E by exact N. eauto.
  - repeat split; simpl; auto.
    + intros z c E _. eauto.
    + intros c L U. unfold bump. destruct (env s x) as [c0|] eqn:E; auto.
      rewrite upd_other; auto. intros ->. exact (U _ E).
  - repeat split; simpl; auto.
    + intros w c E. simpl in E. destruct (Nat.eq_dec w x) as [->|N].
      * rewrite upd_same in E. eauto.
      * rewrite upd_other in E by exact N. eauto.
    + intros w c E L. destruct (Nat.eq_dec w x) as [->|N].
      * rewrite upd_same in E. eauto.
      * rewrite upd_other in E by exact N. eauto.
    + intros c L U. unfold bump. destruct (env s x) as [c0|] eqn:E; auto.
      rewrite upd_other; auto. intros ->. exact (U _ E).
  - repeat split; simpl; auto. intros x c E _. eauto.
  - assert (W0 : wf {| env := entry_env s args; ver := ver s; nxt := nxt s; glob := glob s |}).
    { intros x c E. simpl in *. unfold entry_env in E. destruct (nth_error args x); [eauto|discriminate]. }
    destruct (IHexec W0) as (W1 & L1 & R1 & F1). simpl in *.
    repeat split; simpl; auto.
    + intros z c E. simpl in E. destruct (Nat.eq_dec z r) as [->|N].
      * rewrite upd_same in E. eauto.
      * rewrite upd_other in E by exact N. apply W in E. lia.
    + intros z c E L. destruct (Nat.eq_dec z r) as [->|N].
      * rewrite upd_same in E. destruct (R1 _ _ E L) as [y Hy]. unfold entry_env in Hy.
        destruct (nth_error args y); [eauto|discriminate].
      * rewrite upd_other in E by exact N. eauto.
    + intros c L U. apply F1; auto. intros y Hy. unfold entry_env in Hy.
      destruct (nth_error args y) as [a|]; [exact (U _ Hy)|discriminate].
  - destruct (IHexec1 W) as (W2 & L2 & R2 & F2). destruct (IHexec2 W2) as (W3 & L3 & R3 & F3).
    repeat split; auto; try lia.
    + intros x c E L. assert (L' : c < nxt s2) by lia. destruct (R3 _ _ E L') as [y Hy]. eauto.
    + intros c L U. rewrite F3, F2; auto; try lia.
      intros y Hy. destruct (R2 _ _ Hy L) as [z Hz]. exact (U _ Hz).
  - auto.
  - auto.
  - repeat split; auto. intros x c E _. eauto.
  - destruct (IHexec1 W) as (W2 & L2 & R2 & F2). destruct (IHexec2 W2) as (W3 & L3 & R3 & F3).
    repeat split; auto; try lia.
    + intros x c E L. assert (L' : c < nxt s2) by lia. destruct (R3 _ _ E L') as [y Hy]. eauto.
    + intros c L U. rewrite F3, F2; auto; try lia.
      intros y Hy. destruct (R2 _ _ Hy L) as [z Hz]. exact (U _ Hz).
Qed.

(* ------------------------------------------------------------------ abstract domain *)
(* amap: for every variable (index in the list) the set of labels whose protected cell it may point to *)
Definition amap := list (list lbl).
Definition get (m : amap) (x : var) : list lbl := nth x m [].
Fixpoint set (x : var) (v : list lbl) (m : amap) : amap :=
  match x, m with
  | 0, [] => [v]
  | 0, _ :: t => v :: t
  | S x', [] => [] :: set x' v []
  | S x', h :: t => h :: set x' v t
  end.
Definition memb (i : nat) (l : list nat) := existsb (Nat.eqb i) l.
Definition union (a b : list nat) := a ++ filter (fun i => negb (memb i a)) b.
Fixpoint join (m1 m2 : amap) : amap :=
  match m1, m2 with
  | [], m => m
  | m, [] => m
  | h1 :: t1, h2 :: t2 => union h1 h2 :: join t1 t2
  end.
Fixpoint dedup (l : list nat) : list nat :=
  match l with [] => [] | i :: t => let r := dedup t in if memb i r then r else i :: r end.
Definition inclb (a b : list nat) := forallb (fun i => memb i b) a.
Fixpoint leqb (m1 m2 : amap) : bool :=
  match m1, m2 with
  | [], _ => true
  | h1 :: t1, [] => inclb h1 [] && leqb t1 []
  | h1 :: t1, h2 :: t2 => inclb h1 h2 && leqb t1 t2
  end.

Lemma memb_In i l : memb i l = true <-> In i l.
Proof. unfold memb. rewrite existsb_exists. split.
  - intros [y [Hy E]]. apply Nat.eqb_eq in E. now subst.
  - intros H. exists i. split; [exact H | apply Nat.eqb_refl]. Qed.
Lemma In_union i a b : In i (union a b) <-> In i a \/ In i b.
Proof. unfold union. rewrite in_app_iff, filter_In. split.
  - intros [H|[H _]]; auto.
  - intros [H|H]; auto. destruct (memb i a) eqn:E.
    + left. now apply memb_In.
    + right. split; auto. Qed.
Lemma In_dedup i l : In i (dedup l) <-> In i l.
Proof. induction l as [|j t IH]; simpl; [tauto|]. destruct (memb j (dedup t)) eqn:E.
  - rewrite IH. split; auto. intros [<-|H]; auto. apply IH. now apply memb_In.
  - simpl. rewrite IH. tauto. Qed.
Lemma get_nil x : get [] x = [].
Proof. unfold get. now destruct x. Qed.
Lemma get_set_same x : forall v m, get (set x v m) x = v.
Proof. induction x; intros v m; destruct m; simpl; auto; apply IHx. Qed.
Lemma get_set_other x : forall y v m, x <> y -> get (set x v m) y = get m y.
Proof. unfold get. induction x; intros y v m N; destruct m, y; simpl; try congruence; auto.
  - now destruct y.
  - rewrite IHx by congruence. now destruct y. Qed.
Lemma In_get_join i : forall m1 m2 x, In i (get (join m1 m2) x) <-> In i (get m1 x) \/ In i (get m2 x).
Proof. induction m1 as [|h1 t1 IH]; intros m2 x.
  - simpl. rewrite get_nil. simpl. tauto.
  - destruct m2 as [|h2 t2].
    + simpl. rewrite get_nil. simpl. tauto.
    + destruct x; simpl.
      * unfold get; simpl. apply In_union.
      * unfold get in *; simpl. apply IH. Qed.
Lemma inclb_sound a b : inclb a b = true -> forall i, In i a -> In i b.
Proof. unfold inclb. rewrite forallb_forall. intros H i Hi. apply memb_In. auto. Qed.
Lemma leqb_sound : forall m1 m2, leqb m1 m2 = true -> forall x i, In i (get m1 x) -> In i (get m2 x).
Proof. induction m1 as [|h1 t1 IH]; intros m2 L x i Hi.
  - rewrite get_nil in Hi. destruct Hi.
  - destruct m2 as [|h2 t2]; simpl in L; apply andb_prop in L as [L1 L2].
    + destruct x; unfold get in *; simpl in *.
      * exact (inclb_sound _ _ L1 _ Hi).
      * pose proof (IH [] L2 x i Hi) as H. destruct x; simpl in H; exact H.
    + destruct x; unfold get in *; simpl in *.
      * exact (inclb_sound _ _ L1 _ Hi).
      * exact (IH _ L2 x i Hi). Qed.

(* ------------------------------------------------------------------ summaries and the analysis *)
(* summary of a callee, relative to its own parameters 0..s_np-1 *)
Record summ := { s_np : nat; s_mut : list nat; s_ret : list nat; s_glob : list gid }.

Definition R := (amap * list lbl * list gid)%type.   (* labels per variable after p; labels possibly mutated; globals used *)

Fixpoint lfp (F : amap -> option R) (fuel : nat) (A : amap) : option R :=
  match fuel with
  | 0 => None
  | S k => match F A with
           | None => None
           | Some (A', M, G) => if leqb A' A then Some (A, M, G) else lfp F k (join A A')
           end
  end.

Fixpoint size (p : prog) : nat :=
  match p with Seq p q | If p q => S (size p + size q) | Loop p => S (size p) | _ => 1 end.

Definition pick (argl : list (list lbl)) (idx : list nat) : list lbl := flat_map (fun k => nth k argl []) idx.

Section Analysis.
Variable S_ : list (option summ).   (* summaries of the callees analysed so far; None / missing = unknown callee *)
Variable gtop : list gid.           (* the global ids an unknown callee is assumed to touch *)

Fixpoint ana (p : prog) (a : amap) : option R :=
  match p with
  | Skip => Some (a, [], [])
  | Fresh x => Some (set x [] a, [], [])
  | Copy x _ => Some (set x [] a, [], [])
  | Alias x ys => Some (set x (dedup (flat_map (get a) ys)) a, [], [])
  | InPlace x => Some (a, get a x, [])
  | Store x y => Some (set x (dedup (get a x ++ get a y)) a, get a x, [])
  | ReadGlobal g => Some (a, [], [g])
  | Call r f args =>
      let argl := map (get a) args in
      match nth_error S_ f with
      | Some (Some sm) =>
          if length args <=? s_np sm
          then Some (set r (dedup (pick argl (s_ret sm))) a, dedup (pick argl (s_mut sm)), s_glob sm)
          else Some (set r (dedup (concat argl)) a, dedup (concat argl), gtop)
      | _ => Some (set r (dedup (concat argl)) a, dedup (concat argl), gtop)     (* unknown callee: may change and return any argument *)
      end
  | Seq p q =>
      match ana p a with
      | None => None
      | Some (a1, m1, g1) => match ana q a1 with
                             | None => None
                             | Some (a2, m2, g2) => Some (a2, m1 ++ m2, g1 ++ g2)
                             end
      end
  | If p q =>
      match ana p a with
      | None => None
      | Some (a1, m1, g1) => match ana q a with
                             | None => None
                             | Some (a2, m2, g2) => Some (join a1 a2, m1 ++ m2, g1 ++ g2)
                             end
      end
  | Loop p => lfp (ana p) (4 + size p) a      (* checked post-fixpoint; None if not reached within the fuel *)
  end.
End Analysis.

Definition idmap (n : nat) : amap := map (fun k => [k]) (seq 0 n).

Definition summarize (S_ : list (option summ)) (gtop : list gid) (fd : fdef) : option summ :=
  match ana S_ gtop (f_body fd) (idmap (f_nparams fd)) with
  | Some (a', M, G) => Some {| s_np := f_nparams fd; s_mut := dedup M; s_ret := dedup (get a' (f_ret fd)); s_glob := dedup G |}
  | None => None
  end.

(* summaries in table (= call-graph) order: callable k is analysed with the summaries of callables 0..k-1 *)
Fixpoint summs_upto (T : table) (gtop : list gid) (n : nat) : list (option summ) :=
  match n with
  | 0 => []
  | S k => let S' := summs_upto T gtop k in
           S' ++ [match nth_error T k with Some fd => summarize S' gtop fd | None => None end]
  end.
Definition summaries (T : table) (gtop : list gid) := summs_upto T gtop (length T).

(* ------------------------------------------------------------------ soundness *)
Section Soundness.
Variable T : table.
Variable gtop : list gid.

(* A labelling names the protected cells: lab i = Some c says "label i is (one name of) cell c".  Several labels may
   name one cell (the caller passed the same array twice), hence the existential shape of Inv and kept. *)
Definition labelled (lab : lbl -> option cellid) (c : cellid) := exists j, lab j = Some c.
Definition Inv (lab : lbl -> option cellid) (s : st) (a : amap) :=
  forall x c, env s x = Some c -> labelled lab c -> exists i, lab i = Some c /\ In i (get a x).
Definition bounded (lab : lbl -> option cellid) (s : st) := forall i c, lab i = Some c -> c < nxt s.
(* a protected cell none of whose labels is in M keeps its version *)
Definition kept (lab : lbl -> option cellid) (M : list lbl) (s s' : st) :=
  forall c, labelled lab c -> (forall i, lab i = Some c -> ~ In i M) -> ver s' c = ver s c.
Definition gkept (G : list gid) (s s' : st) := forall g, In g gtop -> ~ In g G -> glob s' g = glob s g.

(* what a summary promises about every execution of its callee, relative to the callee's own entry environment *)
Definition summary_ok (f : fid) (sm : summ) :=
  forall fd, nth_error T f = Some fd ->
  forall s s', wf s -> (forall x, s_np sm <= x -> env s x = None) -> exec T (f_body fd) s s' ->
    kept (env s) (s_mut sm) s s' /\
    (forall c, env s' (f_ret fd) = Some c -> labelled (env s) c -> exists k, env s k = Some c /\ In k (s_ret sm)) /\
    gkept (s_glob sm) s s'.

Definition valid (S_ : list (option summ)) := forall f sm, nth_error S_ f = Some (Some sm) -> summary_ok f sm.

Lemma Inv_mono lab s a b : (forall x i, In i (get a x) -> In i (get b x)) -> Inv lab s a -> Inv lab s b.
Proof. intros H I x c E L. destruct (I x c E L) as [i [Hi Hin]]. eauto. Qed.

Lemma kept_refl lab M s : kept lab M s s.
Proof. intros c _ _. reflexivity. Qed.
Lemma kept_trans lab M1 M2 s1 s2 s3 : kept lab M1 s1 s2 -> kept lab M2 s2 s3 -> kept lab (M1 ++ M2) s1 s3.
Proof. intros K1 K2 c L H. rewrite K2, K1; auto; intros i Hi N; apply (H i Hi); apply in_or_app; auto. Qed.
Lemma kept_trans_same lab M s1 s2 s3 : kept lab M s1 s2 -> kept lab M s2 s3 -> kept lab M s1 s3.
Proof. intros K1 K2 c L H. rewrite K2, K1; auto. Qed.
Lemma gkept_refl G s : gkept G s s.
Proof. intros g _ _. reflexivity. Qed.
Lemma gkept_trans G1 G2 s1 s2 s3 : gkept G1 s1 s2 -> gkept G2 s2 s3 -> gkept (G1 ++ G2) s1 s3.
Proof. intros K1 K2 g Hg H. rewrite K2, K1; auto; intros N; apply H; apply in_or_app; auto. Qed.
Lemma gkept_trans_same G s1 s2 s3 : gkept G s1 s2 -> gkept G s2 s3 -> gkept G s1 s3.
Proof. intros K1 K2 g Hg H. rewrite K2, K1; auto. Qed.

Lemma bounded_mono lab s s' : nxt s <= nxt s' -> bounded lab s -> bounded lab s'.
Proof. intros L B i c H. specialize (B i c H). lia. Qed.

Lemma lfp_spec F : forall fuel a A M G, lfp F fuel a = Some (A, M, G) ->
  (forall x i, In i (get a x) -> In i (get A x)) /\ exists A', F A = Some (A', M, G) /\ leqb A' A = true.
Proof.
  induction fuel as [|k IH]; intros a A M G H; simpl in H; [discriminate|].
  destruct (F a) as [[[A' M'] G']|] eqn:E; [|discriminate].
  destruct (leqb A' a) eqn:L.
  - inversion H; subst. split; [auto|]. exists A'. auto.
  - destruct (IH _ _ _ _ H) as [Hm Hex]. split; [|exact Hex].
    intros x i Hi. apply Hm. apply In_get_join. auto.
Qed.

Lemma nth_map_get (a : amap) args k arg : nth_error args k = Some arg -> nth k (map (get a) args) [] = get a arg.
Proof. revert k. induction args as [|h t IH]; intros [|k] H; simpl in *; try discriminate.
  - now inversion H.
  - auto. Qed.
Lemma In_nth_concat (i : nat) : forall (l : list (list nat)) k, In i (nth k l []) -> In i (concat l).
Proof. induction l as [|h t IH]; intros [|k] H; simpl in *; try contradiction; apply in_or_app; eauto. Qed.
Lemma In_pick i argl idx k : In k idx -> In i (nth k argl []) -> In i (pick argl idx).
Proof. intros Hk Hi. unfold pick. apply in_flat_map. eauto. Qed.


Lemma entry_reach_dec s args c :
  (exists k, entry_env s args k = Some c) \/ (forall k, entry_env s args k <> Some c).
Proof.
  assert (D : (exists a, In a args /\ env s a = Some c) \/ ~ (exists a, In a args /\ env s a = Some c)).
  { induction args as [|h t IH].
    - right. intros [a [[] _]].
    - destruct IH as [[a [Ha Ea]]|IH]; [left; exists a; simpl; auto|].
      destruct (env s h) as [c0|] eqn:E.
      + destruct (Nat.eq_dec c0 c) as [->|N]; [left; exists h; simpl; auto|].
        right. intros [a [[<-|Ha] Ea]]; [congruence|apply IH; eauto].
      + right. intros [a [[<-|Ha] Ea]]; [congruence|apply IH; eauto]. }
  destruct D as [[a [Ha Ea]]|D].
  - left. apply In_nth_error in Ha as [k Hk]. exists k. unfold entry_env. now rewrite Hk.
  - right. intros k Hk. apply D. unfold entry_env in Hk. destruct (nth_error args k) as [v|] eqn:E; [|discriminate].
    exists v. split; [eapply nth_error_In; eauto|auto].
Qed.

Section WithSummaries.
Variable S_ : list (option summ).
Hypothesis HS : valid S_.

(* the call case, unknown callee: frame reasoning only *)
Lemma call_havoc lab r f args fd a s s1 :
  nth_error T f = Some fd ->
  exec T (f_body fd) {| env := entry_env s args; ver := ver s; nxt := nxt s; glob := glob s |} s1 ->
  Inv lab s a -> wf s -> bounded lab s ->
  let argl := map (get a) args in
  let s' := {| env := upd (env s) r (env s1 (f_ret fd)); ver := ver s1; nxt := nxt s1; glob := glob s1 |} in
  Inv lab s' (set r (dedup (concat argl)) a) /\ kept lab (dedup (concat argl)) s s'.
Proof.
  intros Hf Hex I W B argl s'.
  assert (W0 : wf {| env := entry_env s args; ver := ver s; nxt := nxt s; glob := glob s |}).
  { intros x c E. simpl in *. unfold entry_env in E. destruct (nth_error args x); [eauto|discriminate]. }
  destruct (exec_frame _ _ _ _ Hex W0) as (W1 & L1 & R1 & F1). simpl in *.
  assert (ARG : forall c, labelled lab c -> forall k, entry_env s args k = Some c ->
                 exists i, lab i = Some c /\ In i (nth k argl [])).
  { intros c Lc k Hk. unfold entry_env in Hk. destruct (nth_error args k) as [arg|] eqn:En; [|discriminate].
    destruct (I _ _ Hk Lc) as [i [Hi Hin]]. exists i. split; auto. unfold argl. now rewrite (nth_map_get a _ _ _ En). }
  split.
  - intros x c E Lc. unfold s' in E. simpl in E. destruct (Nat.eq_dec x r) as [->|N].
    + rewrite upd_same in E. rewrite get_set_same.
      assert (Lt : c < nxt s) by (destruct Lc as [j Hj]; eauto).
      destruct (R1 _ _ E Lt) as [k Hk]. destruct (ARG c Lc k Hk) as [i [Hi Hin]].
      exists i. split; auto. apply In_dedup. eapply In_nth_concat; eauto.
    + rewrite upd_other in E by exact N. rewrite get_set_other by congruence. eauto.
  - intros c Lc H. unfold s'. simpl.
    assert (Lt : c < nxt s) by (destruct Lc as [j Hj]; eauto).
    apply F1; auto. intros k Hk. destruct (ARG c Lc k Hk) as [i [Hi Hin]].
    apply (H i Hi). apply In_dedup. eapply In_nth_concat; eauto.
Qed.

Theorem ana_sound lab : forall p a a' M G s s',
  ana S_ gtop p a = Some (a', M, G) -> exec T p s s' -> Inv lab s a -> wf s -> bounded lab s ->
  Inv lab s' a' /\ kept lab M s s' /\ gkept G s s'.
Proof.
  induction p as [|x|x ys|x y|x|x y|g|r f args|p IHp q IHq|p IHp q IHq|p IHp]; intros a a' M G s s' Ha Hex I W B.
  - (* Skip *) inversion Hex; subst. simpl in Ha. inversion Ha; subst. auto using kept_refl, gkept_refl.
  - (* Fresh *) inversion Hex; subst. simpl in Ha. inversion Ha; subst. split; [|split].
    + intros z c E Lc. simpl in E. destruct (Nat.eq_dec z x) as [->|N].
      * rewrite upd_same in E. inversion E; subst. destruct Lc as [j Hj]. specialize (B _ _ Hj). lia.
      * rewrite upd_other in E by exact N. rewrite get_set_other by congruence. eauto.
    + intros c _ _. reflexivity.
    + intros g _ _. reflexivity.
  - (* Alias *) inversion Hex; subst. simpl in Ha. inversion Ha; subst. split; [|split].
    + intros z c E Lc. simpl in E. destruct (Nat.eq_dec z x) as [->|N].
      * rewrite upd_same in E. rewrite get_set_same. destruct (I _ _ E Lc) as [i [Hi Hin]].
        exists i. split; auto. apply In_dedup, in_flat_map. eauto.
      * rewrite upd_other in E by exact N. rewrite get_set_other by congruence. eauto.
    + intros c _ _. reflexivity.
    + intros g _ _. reflexivity.
  - (* Copy *) inversion Hex; subst. simpl in Ha. inversion Ha; subst. split; [|split].
    + intros z c E Lc. simpl in E. destruct (Nat.eq_dec z x) as [->|N].
      * rewrite upd_same in E. inversion E; subst. destruct Lc as [j Hj]. specialize (B _ _ Hj). lia.
      * rewrite upd_other in E by exact N. rewrite get_set_other by congruence. eauto.
    + intros c _ _. reflexivity.
    + intros g _ _. reflexivity.
  - (* InPlace *) inversion Hex; subst. simpl in Ha. inversion Ha; subst. split; [|split].
    + exact I.
    + intros c Lc H. simpl. unfold bump. destruct (env s x) as [c0|] eqn:E; auto.
      destruct (Nat.eq_dec c c0) as [->|N]; [|now rewrite upd_other].
      destruct (I _ _ E Lc) as [i [Hi Hin]]. exfalso. exact (H i Hi Hin).
    + intros g _ _. reflexivity.
  - (* Store *) inversion Hex; subst. simpl in Ha. inversion Ha; subst. split; [|split].
    + intros w c E Lc. simpl in E. destruct (Nat.eq_dec w x) as [->|N].
      * rewrite upd_same in E. rewrite get_set_same. destruct (I _ _ E Lc) as [i [Hi Hin]].
        exists i. split; auto. apply In_dedup, in_or_app.
        match goal with Hz : In _ [_; _] |- _ => destruct Hz as [<-|[<-|[]]]; auto end.
      * rewrite upd_other in E by exact N. rewrite get_set_other by congruence. eauto.
    + intros c Lc H. simpl. unfold bump. destruct (env s x) as [c0|] eqn:E; auto.
      destruct (Nat.eq_dec c c0) as [->|N]; [|now rewrite upd_other].
      destruct (I _ _ E Lc) as [i [Hi Hin]]. exfalso. exact (H i Hi Hin).
    + intros g _ _. reflexivity.
  - (* ReadGlobal *) inversion Hex; subst. simpl in Ha. inversion Ha; subst. split; [|split].
    + exact I.
    + intros c _ _. reflexivity.
    + intros g' _ N. simpl. rewrite upd_other; auto. intros ->. apply N. now left.
  - (* Call *) inversion Hex; subst.
    match goal with Hx : nth_error T f = Some _ |- _ => rename Hx into Hf end.
    match goal with Hx : exec T (f_body _) _ _ |- _ => rename Hx into Hbody end.
    assert (HAVOC : Some (set r (dedup (concat (map (get a) args))) a, dedup (concat (map (get a) args)), gtop) = Some (a', M, G) ->
                    Inv lab {| env := upd (env s) r (env s1 (f_ret fd)); ver := ver s1; nxt := nxt s1; glob := glob s1 |} a' /\
                    kept lab M s {| env := upd (env s) r (env s1 (f_ret fd)); ver := ver s1; nxt := nxt s1; glob := glob s1 |} /\
                    gkept G s {| env := upd (env s) r (env s1 (f_ret fd)); ver := ver s1; nxt := nxt s1; glob := glob s1 |}).
    { intros E. inversion E; subst. destruct (call_havoc lab r f args fd a s s1 Hf Hbody I W B) as [H1 H2].
      split; [exact H1|split; [exact H2|]]. intros g Hg N. contradiction. }
    simpl in Ha. destruct (nth_error S_ f) as [[sm|]|] eqn:Es; try (apply HAVOC; exact Ha).
    destruct (length args <=? s_np sm) eqn:Len; [|apply HAVOC; exact Ha].
    apply Nat.leb_le in Len. inversion Ha; subst. clear HAVOC Ha.
    set (s0 := {| env := entry_env s args; ver := ver s; nxt := nxt s; glob := glob s |}) in *.
    assert (W0 : wf s0).
    { intros x c E. simpl in *. unfold entry_env in E. destruct (nth_error args x); [eauto|discriminate]. }
    assert (N0 : forall x, s_np sm <= x -> env s0 x = None).
    { intros x Hx. simpl. unfold entry_env. destruct (nth_error args x) eqn:En; auto.
      assert (x < length args) by (apply nth_error_Some; congruence). lia. }
    destruct (HS _ _ Es fd Hf s0 s1 W0 N0 Hbody) as (Km & Kr & Kg).
    destruct (exec_frame _ _ _ _ Hbody W0) as (W1 & L1 & R1 & F1). simpl in L1, R1, F1.
    set (argl := map (get a) args).
    assert (ARG : forall c, labelled lab c -> forall k, entry_env s args k = Some c ->
                   exists i, lab i = Some c /\ In i (nth k argl [])).
    { intros c Lc k Hk. unfold entry_env in Hk. destruct (nth_error args k) as [arg|] eqn:En; [|discriminate].
      destruct (I _ _ Hk Lc) as [i [Hi Hin]]. exists i. split; auto. unfold argl. now rewrite (nth_map_get a _ _ _ En). }
    split; [|split].
    + intros x c E Lc. simpl in E. destruct (Nat.eq_dec x r) as [->|N].
      * rewrite upd_same in E. rewrite get_set_same.
        assert (Lt : c < nxt s) by (destruct Lc as [j Hj]; eauto).
        destruct (R1 _ _ E Lt) as [k0 Hk0].
        destruct (Kr c E (ex_intro _ k0 Hk0)) as [k [Hk Hin]].
        destruct (ARG c Lc k Hk) as [i [Hi Hi2]]. exists i. split; auto. apply In_dedup. eapply In_pick; eauto.
      * rewrite upd_other in E by exact N. rewrite get_set_other by congruence. eauto.
    + intros c Lc H. simpl.
      assert (Lt : c < nxt s) by (destruct Lc as [j Hj]; eauto).
      destruct (entry_reach_dec s args c) as [[k0 Hk0]|NR].
      * change (ver s c) with (ver s0 c). apply Km; [exists k0; exact Hk0|].
        intros k Hk Hin. simpl in Hk. destruct (ARG c Lc k Hk) as [i [Hi Hi2]].
        apply (H i Hi). apply In_dedup. eapply In_pick; eauto.
      * apply F1; auto.
    + intros g Hg N. simpl. change (glob s g) with (glob s0 g). apply Kg; auto.
  - (* Seq *) simpl in Ha. destruct (ana S_ gtop p a) as [[[a1 m1] g1]|] eqn:E1; [|discriminate].
    destruct (ana S_ gtop q a1) as [[[a2 m2] g2]|] eqn:E2; [|discriminate]. inversion Ha; subst.
    inversion Hex; subst.
    match goal with Hx : exec T p _ _ |- _ => rename Hx into X1 end.
    match goal with Hx : exec T q _ _ |- _ => rename Hx into X2 end.
    destruct (IHp _ _ _ _ _ _ E1 X1 I W B) as (I1 & K1 & G1).
    destruct (exec_frame _ _ _ _ X1 W) as (W2 & L2 & _ & _).
    destruct (IHq _ _ _ _ _ _ E2 X2 I1 W2 (bounded_mono _ _ _ L2 B)) as (I2 & K2 & G2).
    split; [exact I2|split]; eauto using kept_trans, gkept_trans.
  - (* If *) simpl in Ha. destruct (ana S_ gtop p a) as [[[a1 m1] g1]|] eqn:E1; [|discriminate].
    destruct (ana S_ gtop q a) as [[[a2 m2] g2]|] eqn:E2; [|discriminate]. inversion Ha; subst.
    inversion Hex; subst.
    + match goal with Hx : exec T p _ _ |- _ => rename Hx into X1 end.
      destruct (IHp _ _ _ _ _ _ E1 X1 I W B) as (I1 & K1 & G1). split; [|split].
      * eapply Inv_mono; [|exact I1]. intros x i Hi. apply In_get_join. auto.
      * intros c Lc H. apply K1; auto. intros i Hi N. apply (H i Hi). apply in_or_app. auto.
      * intros g Hg N. apply G1; auto. intros N'. apply N. apply in_or_app. auto.
    + match goal with Hx : exec T q _ _ |- _ => rename Hx into X1 end.
      destruct (IHq _ _ _ _ _ _ E2 X1 I W B) as (I1 & K1 & G1). split; [|split].
      * eapply Inv_mono; [|exact I1]. intros x i Hi. apply In_get_join. auto.
      * intros c Lc H. apply K1; auto. intros i Hi N. apply (H i Hi). apply in_or_app. auto.
      * intros g Hg N. apply G1; auto. intros N'. apply N. apply in_or_app. auto.
  - (* Loop *) change (lfp (ana S_ gtop p) (4 + size p) a = Some (a', M, G)) in Ha.
    destruct (lfp_spec _ _ _ _ _ _ Ha) as [Hm [A' [EA LA]]].
    assert (IA : Inv lab s a') by (eapply Inv_mono; eauto).
    clear I Ha Hm. remember (Loop p) as lp eqn:Elp.
    induction Hex; inversion Elp; subst.
    + auto using kept_refl, gkept_refl.
    + destruct (IHp _ _ _ _ _ _ EA Hex1 IA W B) as (I1 & K1 & G1).
      destruct (exec_frame _ _ _ _ Hex1 W) as (W2 & L2 & _ & _).
      assert (I1' : Inv lab s2 a') by (eapply Inv_mono; [|exact I1]; apply leqb_sound; exact LA).
      destruct (IHHex2 eq_refl W2 (bounded_mono _ _ _ L2 B) I1') as (I2 & K2 & G2).
      split; [exact I2|split]; eauto using kept_trans_same, gkept_trans_same.
Qed.
End WithSummaries.
End Soundness.

(* ------------------------------------------------------------------ summaries are sound; top-level statements *)
Section Top.
Variable T : table.
Variable gtop : list gid.

Lemma idmap_get n k : k < n -> get (idmap n) k = [k].
Proof. intros H. unfold idmap, get.
  rewrite nth_indep with (d' := (fun j => [j]) 0) by (rewrite map_length, seq_length; exact H).
  rewrite (map_nth (fun j => [j]) (seq 0 n) 0 k), seq_nth by exact H. reflexivity. Qed.

Lemma summarize_ok S_ (HS : valid T gtop S_) f fd sm :
  nth_error T f = Some fd -> summarize S_ gtop fd = Some sm -> summary_ok T gtop f sm.
Proof.
  intros Hf Hs fd' Hf' s s' W N Hex. rewrite Hf in Hf'. inversion Hf'; subst fd'. clear Hf'.
  unfold summarize in Hs. destruct (ana S_ gtop (f_body fd) (idmap (f_nparams fd))) as [[[a' M] G]|] eqn:E; [|discriminate].
  inversion Hs; subst sm; simpl in *. clear Hs.
  assert (I0 : Inv (env s) s (idmap (f_nparams fd))).
  { intros x c Ex _. exists x. split; auto.
    destruct (le_lt_dec (f_nparams fd) x) as [L|L]; [rewrite (N _ L) in Ex; discriminate|].
    rewrite idmap_get by exact L. now left. }
  assert (B0 : bounded (env s) s) by (intros i c Hi; eauto).
  destruct (ana_sound T gtop S_ HS (env s) _ _ _ _ _ _ _ E Hex I0 W B0) as (I1 & K1 & G1).
  split; [|split].
  - intros c Lc H. apply K1; auto. intros i Hi Hin. apply (H i Hi). now apply In_dedup.
  - intros c Ec Lc. destruct (I1 _ _ Ec Lc) as [k [Hk Hin]]. exists k. split; auto. now apply In_dedup.
  - intros g Hg N'. apply G1; auto. intros Hin. apply N'. now apply In_dedup.
Qed.

Lemma summs_length n : length (summs_upto T gtop n) = n.
Proof. induction n; simpl; auto. rewrite app_length. simpl. lia. Qed.

Lemma summs_nth : forall n f sm, nth_error (summs_upto T gtop n) f = Some (Some sm) ->
  exists fd, nth_error T f = Some fd /\ summarize (summs_upto T gtop f) gtop fd = Some sm.
Proof.
  induction n as [|n IH]; intros f sm H; simpl in H.
  - destruct f; discriminate.
  - destruct (lt_dec f n) as [L|L].
    + rewrite nth_error_app1 in H by (rewrite summs_length; exact L). eauto.
    + rewrite nth_error_app2 in H by (rewrite summs_length; lia). rewrite summs_length in H.
      destruct (f - n) as [|d] eqn:D; simpl in H; [|destruct d; discriminate].
      assert (f = n) by lia. subst f. destruct (nth_error T n) as [fd|]; [|discriminate].
      inversion H. eauto.
Qed.

(* the summaries computed in table order are sound: by induction on the table index, each callable being
   analysed with the (sound) summaries of the callables before it *)
Theorem summs_valid : forall n, valid T gtop (summs_upto T gtop n).
Proof.
  induction n as [|n IH]; intros f sm H.
  - destruct f; discriminate.
  - destruct (lt_dec f n) as [L|L].
    + simpl in H. rewrite nth_error_app1 in H by (rewrite summs_length; exact L). eauto.
    + destruct (summs_nth _ _ _ H) as [fd [Hf Hs]].
      assert (f < S n) by (rewrite <- (summs_length (S n)); apply nth_error_Some; congruence).
      assert (f = n) by lia. subst f. eapply summarize_ok; eauto.
Qed.

Definition analysis (f : fid) : option summ :=
  match nth_error (summaries T gtop) f with Some (Some sm) => Some sm | _ => None end.
(* the parameters (indices) an in-place operation or a store of callable f may reach; None = analysis gave up *)
Definition may_mutate (f : fid) : option (list nat) := option_map s_mut (analysis f).
Definition globals_used (f : fid) : option (list gid) := option_map s_glob (analysis f).
Definition may_return (f : fid) : option (list nat) := option_map s_ret (analysis f).

Lemma analysis_ok f sm : analysis f = Some sm ->
  summary_ok T gtop f sm /\ forall fd, nth_error T f = Some fd -> s_np sm = f_nparams fd.
Proof.
  unfold analysis, summaries. intros H.
  destruct (nth_error (summs_upto T gtop (length T)) f) as [[sm'|]|] eqn:E; try discriminate. inversion H; subst sm'.
  split; [exact (summs_valid _ _ _ E)|].
  intros fd Hf. destruct (summs_nth _ _ _ E) as [fd' [Hf' Hs]]. rewrite Hf in Hf'. inversion Hf'; subst fd'.
  unfold summarize in Hs. destruct (ana _ _ _ _) as [[[a' M] G]|]; [|discriminate]. inversion Hs. reflexivity.
Qed.

(* a call from outside: only the parameters are bound *)
Definition entry (n : nat) (s : st) := wf s /\ forall x, n <= x -> env s x = None.
Definition params_unchanged (s s' : st) := forall k c, env s k = Some c -> ver s' c = ver s c.
Definition globals_unchanged (s s' : st) := forall g, In g gtop -> glob s' g = glob s g.

(* finest statement: a caller array all of whose parameter positions are outside may_mutate keeps its version,
   on every path and for every loop count, whatever the callees do *)
Theorem param_unchanged f fd sm : nth_error T f = Some fd -> analysis f = Some sm ->
  forall s s', entry (f_nparams fd) s -> exec T (f_body fd) s s' ->
  forall c, (exists k, env s k = Some c) -> (forall k, env s k = Some c -> ~ In k (s_mut sm)) -> ver s' c = ver s c.
Proof.
  intros Hf Ha s s' [W N] Hex c Lc H. destruct (analysis_ok _ _ Ha) as [Ok Np].
  rewrite <- (Np _ Hf) in N. destruct (Ok fd Hf s s' W N Hex) as (K & _ & _). apply K; auto.
Qed.

(* SOUNDNESS of may_mutate: empty set => no parameter's array is changed *)
Theorem may_mutate_sound f fd : nth_error T f = Some fd -> may_mutate f = Some [] ->
  forall s s', entry (f_nparams fd) s -> exec T (f_body fd) s s' -> params_unchanged s s'.
Proof.
  unfold may_mutate. intros Hf Hm s s' He Hex k c Ek.
  destruct (analysis f) as [sm|] eqn:Ha; [|discriminate]. simpl in Hm. inversion Hm as [Hm'].
  eapply param_unchanged; eauto. intros k' _. rewrite Hm'. intros [].
Qed.

Theorem globals_sound f fd : nth_error T f = Some fd -> globals_used f = Some [] ->
  forall s s', entry (f_nparams fd) s -> exec T (f_body fd) s s' -> globals_unchanged s s'.
Proof.
  unfold globals_used. intros Hf Hm s s' [W N] Hex g Hg.
  destruct (analysis f) as [sm|] eqn:Ha; [|discriminate]. simpl in Hm. inversion Hm as [Hm'].
  destruct (analysis_ok _ _ Ha) as [Ok Np]. rewrite <- (Np _ Hf) in N.
  destruct (Ok fd Hf s s' W N Hex) as (_ & _ & G). apply G; auto. rewrite Hm'. intros [].
Qed.

(* Repeatability.  A second call with the same arguments starts from `reenter s s'`: the bindings of the first call,
   the heap and global state the first call left behind.  `same_inputs` says that everything a call can read of its
   inputs (which arrays it was given, their contents, the global state) is what the first call saw. *)
Definition reenter (s s' : st) : st := {| env := env s; ver := ver s'; nxt := nxt s'; glob := glob s' |}.
Definition same_inputs (s1 s2 : st) :=
  (forall k, env s2 k = env s1 k) /\ (forall k c, env s1 k = Some c -> ver s2 c = ver s1 c) /\
  (forall g, In g gtop -> glob s2 g = glob s1 g).

Inductive calls (fd : fdef) : nat -> st -> st -> Prop :=
| calls0 s : calls fd 0 s s
| callsS n s s1 s2 : exec T (f_body fd) s s1 -> calls fd n (reenter s s1) s2 -> calls fd (S n) s s2.

Theorem pure_repeatable f fd : nth_error T f = Some fd -> may_mutate f = Some [] -> globals_used f = Some [] ->
  forall n s s', entry (f_nparams fd) s -> calls fd n s s' ->
  entry (f_nparams fd) (reenter s s') /\ same_inputs s (reenter s s').
Proof.
  intros Hf Hm Hg. induction n as [|n IH]; intros s s' He Hc; inversion Hc; subst.
  - match goal with |- entry _ (reenter ?a ?a) /\ _ => destruct a end. split; [exact He|]. repeat split; auto.
  - match goal with X : exec T _ _ _ |- _ => rename X into Hex end.
    match goal with X : calls _ _ _ _ |- _ => rename X into Hrest end.
    pose proof (may_mutate_sound _ _ Hf Hm _ _ He Hex) as PU.
    pose proof (globals_sound _ _ Hf Hg _ _ He Hex) as GU.
    destruct He as [W N].
    destruct (exec_frame _ _ _ _ Hex W) as (W1 & L1 & _ & _).
    assert (He1 : entry (f_nparams fd) (reenter s s1)).
    { split; [|exact N]. intros x c E. simpl in *. specialize (W _ _ E). lia. }
    destruct (IH _ _ He1 Hrest) as [[W2 N2] (S1 & S2 & S3)]. simpl in *.
    split; [split; auto|]. repeat split; simpl; auto.
    + intros k c E. rewrite (S2 _ _ E). exact (PU _ _ E).
    + intros g Hgt. rewrite (S3 _ Hgt). exact (GU _ Hgt).
Qed.
End Top.
