(* C12_lists.v — hand-written executable models of the list bookkeeping around SLERP:
     ahrs.utils.core.get_nan_intervals, QuaternionArray.remove_jumps (= orientation.q_correct),
     QuaternionArray.slerp_nan.
   The models follow the structure of the Python code (index lists, chunks, slice updates) and are
   polymorphic in the row type, so the same definitions are (i) run by vm_compute on float rows /
   tokens in the correspondence check and (ii) instantiated with real quaternions in the theorems.
   A row is `option A`: None is a NaN row, i.e. a row with AT LEAST ONE NaN component (get_nan_intervals reduces with
   np.any(np.isnan(data), axis=1); a difference with such a row has a NaN norm, so it is never a jump; slerp_nan overwrites
   the whole row).  Rows containing +-inf are not NaN rows for the code (np.isnan) and are outside the property (unit rows).
   No Reals here: the file is axiom-free. *)
From Coq Require Import List Arith Bool.
Import ListNotations.

(* ---------------------------------------------------------------------------------------
   get_nan_intervals(data):
       isnan_list  = any(isnan(data), axis=1)
       nan_indices = where(isnan_list)[0]
       intervals   = split(nan_indices, where(diff(nan_indices) > 1)[0] + 1)
       return [(iv[0], iv[-1]) for iv in intervals]          ([] when there is no NaN index: the repaired behaviour)
   --------------------------------------------------------------------------------------- *)
(* np.where(mask)[0] *)
Definition positions (m : list bool) : list nat :=
  filter (fun i => nth i m false) (seq 0 (length m)).

(* split an increasing index list where consecutive entries differ by more than 1; keep (first, last) of each chunk *)
Fixpoint chunks (l : list nat) : list (nat * nat) :=
  match l with
  | [] => []
  | a :: r => match chunks r with
              | (s, e) :: tl => if s =? S a then (a, e) :: tl else (a, a) :: (s, e) :: tl
              | [] => [(a, a)]
              end
  end.

Definition get_nan_intervals (m : list bool) : list (nat * nat) := chunks (positions m).

Section Rows.
  Variable A : Type.
  Variable negx : A -> A.                       (* row * -1.0 *)
  Variable jump : A -> A -> bool.               (* norm(b - a) > 1 *)
  Variable interp : A -> A -> nat -> nat -> A.  (* interp a b k n = slerp(a, b, [k/n]) *)

  Local Notation row := (option A).
  Definition isnan (r : row) : bool := match r with None => true | Some _ => false end.
  Definition nan_mask (rows : list row) : list bool := map isnan rows.
  Definition neg_row (r : row) : row := match r with None => None | Some a => Some (negx a) end.

  (* ---------------------------------------------------------------------------------------
     remove_jumps / q_correct:
         q_diff = diff(array, axis=0)
         jumps  = nonzero(where(norm(q_diff, axis=1) > 1, 1, 0))[0] + 1
         if len(jumps) % 2: jumps = append(jumps, [len(q_diff) + 1])
         for j in jumps.reshape((len(jumps)//2, 2)): array[j[0]:j[1]] *= -1.0
     A difference with a NaN row has NaN norm, and NaN > 1 is False.
     --------------------------------------------------------------------------------------- *)
  Definition jump_row (a b : row) : bool :=
    match a, b with Some x, Some y => jump x y | _, _ => false end.
  Fixpoint jump_flags (rows : list row) : list bool :=        (* norm(diff) > 1, one flag per consecutive pair *)
    match rows with
    | a :: ((b :: _) as r) => jump_row a b :: jump_flags r
    | _ => []
    end.
  Definition jump_indices (rows : list row) : list nat := map S (positions (jump_flags rows)).
  Fixpoint pair_up (N : nat) (l : list nat) : list (nat * nat) :=
    match l with
    | [] => []
    | [a] => [(a, N)]
    | a :: b :: r => (a, b) :: pair_up N r
    end.
  (* arr[a:b] *= -1, rows numbered from pos *)
  Fixpoint neg_slice (pos : nat) (arr : list row) (a b : nat) : list row :=
    match arr with
    | [] => []
    | x :: r => (if (a <=? pos) && (pos <? b) then neg_row x else x) :: neg_slice (S pos) r a b
    end.
  Definition remove_jumps (rows : list row) : list row :=
    fold_left (fun arr (j : nat * nat) => neg_slice 0 arr (fst j) (snd j))
              (pair_up (length rows) (jump_indices rows)) rows.

  (* ---------------------------------------------------------------------------------------
     slerp_nan:
         self.remove_jumps()
         out = copy(self.array)
         for (i0, i1) in get_nan_intervals(self.array):
             out[i0:i1+1] = slerp(self.array[i0-1], self.array[i1+1], linspace(0, 1, i1-i0+3)[1:-1])
     The model is defined (Some) exactly when every NaN run is interior.  A run starting at row 0 makes the
     code read row -1 (the last row) and a run ending at the last row raises IndexError: both are outside
     the property (interior runs) and the model answers None there.
     --------------------------------------------------------------------------------------- *)
  (* arr[s : s+len(vals)] = vals *)
  Fixpoint upd (arr : list row) (s : nat) (vals : list row) : list row :=
    match arr with
    | [] => []
    | x :: r => match s with
                | S s' => x :: upd r s' vals
                | O => match vals with
                       | [] => x :: r
                       | v :: vs => v :: upd r O vs
                       end
                end
    end.
  Definition interpolants (a b : A) (L : nat) : list row :=
    map (fun k => Some (interp a b k (S L))) (seq 1 L).
  Definition fill_one (src : list row) (acc : option (list row)) (iv : nat * nat) : option (list row) :=
    match acc with
    | None => None
    | Some arr =>
        match fst iv with
        | O => None
        | S s' => match nth s' src None, nth (S (snd iv)) src None with
                  | Some a, Some b => Some (upd arr (S s') (interpolants a b (snd iv - s')))
                  | _, _ => None
                  end
        end
    end.
  Definition fill_nan (src : list row) : option (list row) :=
    fold_left (fill_one src) (get_nan_intervals (nan_mask src)) (Some src).
  Definition slerp_nan (rows : list row) : option (list row) := fill_nan (remove_jumps rows).
End Rows.

Arguments isnan {A}.
Arguments nan_mask {A}.
Arguments neg_row {A}.
Arguments jump_row {A}.
Arguments jump_flags {A}.
Arguments jump_indices {A}.
Arguments neg_slice {A}.
Arguments remove_jumps {A}.
Arguments upd {A}.
Arguments interpolants {A}.
Arguments fill_one {A}.
Arguments fill_nan {A}.
Arguments slerp_nan {A}.
