(* C06_scan.v — state machines for property C06 (batch = streaming; deterministic; isolated).
   Hand-written, independent of /repo, generic in the step function.  No reals, no axioms.

   Part 1  the constructor loop  Q[t] = update(Q[t-1], data[t])  as an indexed array loop, the streamed
           run, and  batch_eq_stream.
   Part 2  machines over one shared store: footprints, determinism, interleaving/projection.
   Part 3  the effect language the extractor (tools/pyfx_c06) emits for every method of a filter class, its
           store semantics with uninterpreted value functions, the footprint analysis and its soundness
           (non-interference, confinement of writes), the taint closure over __init__, and the boolean
           checker  frame_ok_gen  with its soundness lemmas. *)
From Coq Require Import String.
From Coq Require Import List Arith Bool Lia.
Import ListNotations.
Set Implicit Arguments.

(* ------------------------------------------------------------------------------------------ *)
(* Part 1 : scan, indexed batch loop, streaming                                                *)
(* ------------------------------------------------------------------------------------------ *)

Fixpoint scanl {A B : Type} (f : A -> B -> A) (a : A) (xs : list B) : list A :=
  match xs with [] => [] | x :: r => let a' := f a x in a' :: scanl f a' r end.

(* Q[n] = x  (out-of-range index leaves the array alone) *)
Fixpoint upd {A : Type} (n : nat) (x : A) (l : list A) : list A :=
  match l with
  | [] => []
  | a :: r => match n with 0 => x :: r | S k => a :: upd k x r end
  end.

Lemma upd_app : forall (A : Type) (pre l : list A) n x, upd (length pre + n) x (pre ++ l) = pre ++ upd n x l.
Proof. induction pre as [|a pre IH]; simpl; intros; [reflexivity | f_equal; apply IH]. Qed.

Lemma upd_length : forall (A : Type) (l : list A) n x, length (upd n x l) = length l.
Proof. induction l as [|a l IH]; intros [|n] x; simpl; auto. Qed.

Section Scan.
  (* Qt: what update returns and receives back (the attitude); It: one sample (gyr[t], acc[t], mag[t]);
     Ht: everything else the instance carries between calls (P, b, alpha ... the whole `self`) *)
  Variables (Qt It Ht : Type) (dq : Qt) (di : It).
  Variable step : Ht -> Qt -> It -> Qt * Ht.

  (* for t in range(t0, t0+fuel): Q[t] = self.update(Q[t-1], data[t])     -- reads the row it wrote last turn *)
  Fixpoint loop (fuel t : nat) (h : Ht) (Q : list Qt) (data : list It) : list Qt * Ht :=
    match fuel with
    | 0 => (Q, h)
    | S f => let '(q', h') := step h (nth (t - 1) Q dq) (nth t data di) in
             loop f (S t) h' (upd t q' Q) data
    end.

  (* Q = zeros((N,4)); Q[0] = q0; for t in range(1, N): ... ; return Q *)
  Definition batch (h0 : Ht) (q0 : Qt) (data : list It) : list Qt * Ht :=
    loop (length data - 1) 1 h0 (q0 :: repeat dq (length data - 1)) data.

  (* the caller keeps q and feeds one sample at a time *)
  Fixpoint stream (h : Ht) (q : Qt) (xs : list It) : list Qt * Ht :=
    match xs with
    | [] => ([], h)
    | x :: r => let '(q', h') := step h q x in
                let '(l, hf) := stream h' q' r in (q' :: l, hf)
    end.

  Lemma loop_inv : forall xs pre q h dpre, length dpre = S (length pre) ->
    loop (length xs) (S (length pre)) h (pre ++ q :: repeat dq (length xs)) (dpre ++ xs) =
    let '(l, hf) := stream h q xs in (pre ++ q :: l, hf).
  Proof.
    induction xs as [|a xs IH]; intros pre q h dpre Hd.
    - reflexivity.
    - cbn [length loop stream repeat].
      replace (S (length pre) - 1) with (length pre) by lia.
      rewrite nth_middle. rewrite <- Hd, nth_middle.
      destruct (step h q a) as [q' h'].
      replace (S (length dpre)) with (S (S (length pre))) by lia.
      replace (upd (length dpre) q' (pre ++ q :: dq :: repeat dq (length xs)))
        with ((pre ++ [q]) ++ q' :: repeat dq (length xs)).
      2:{ rewrite Hd. replace (S (length pre)) with (length pre + 1) by lia. rewrite upd_app. simpl.
          rewrite <- app_assoc. reflexivity. }
      replace (dpre ++ a :: xs) with ((dpre ++ [a]) ++ xs) by (rewrite <- app_assoc; reflexivity).
      replace (S (length pre)) with (length (pre ++ [q])) by (rewrite app_length; simpl; lia).
      rewrite IH.
      + destruct (stream h' q' xs) as [l hf]. rewrite <- app_assoc. reflexivity.
      + rewrite !app_length. simpl. lia.
  Qed.

  (* the N attitudes of the constructor = q0 followed by the N-1 streamed attitudes; same final instance state *)
  Theorem batch_eq_stream : forall h0 q0 d0 data,
    batch h0 q0 (d0 :: data) = let '(l, hf) := stream h0 q0 data in (q0 :: l, hf).
  Proof.
    intros. unfold batch. cbn [length]. replace (S (length data) - 1) with (length data) by lia.
    exact (loop_inv data [] q0 h0 [d0] eq_refl).
  Qed.

  Lemma stream_length : forall xs h q, length (fst (stream h q xs)) = length xs.
  Proof.
    induction xs as [|x xs IH]; intros; simpl; [reflexivity|].
    destruct (step h q x) as [q' h']. specialize (IH h' q'). destruct (stream h' q' xs). simpl in *. lia.
  Qed.

  (* streaming is a scan of the joint state (q, h) *)
  Lemma stream_scanl : forall xs h q,
    fst (stream h q xs) = map fst (scanl (fun (s : Qt * Ht) x => step (snd s) (fst s) x) (q, h) xs).
  Proof.
    induction xs as [|x xs IH]; intros; simpl; [reflexivity|].
    destruct (step h q x) as [q' h'] eqn:E. specialize (IH h' q'). destruct (stream h' q' xs). simpl in *.
    rewrite IH. reflexivity.
  Qed.
End Scan.

(* ------------------------------------------------------------------------------------------ *)
(* Part 2 : machines over one shared store                                                     *)
(* ------------------------------------------------------------------------------------------ *)
Section Store.
  Variables (Loc Val : Type).
  Definition store := Loc -> Val.
  Definition agree (F : Loc -> Prop) (s s' : store) : Prop := forall l, F l -> s l = s' l.

  Lemma agree_refl F s : agree F s s. Proof. intros l _; reflexivity. Qed.
  Lemma agree_sym F s s' : agree F s s' -> agree F s' s. Proof. intros H l Hl; symmetry; auto. Qed.
  Lemma agree_trans F s1 s2 s3 : agree F s1 s2 -> agree F s2 s3 -> agree F s1 s3.
  Proof. intros H1 H2 l Hl. rewrite (H1 l Hl). auto. Qed.
  Lemma agree_sub (F G : Loc -> Prop) s s' : (forall l, G l -> F l) -> agree F s s' -> agree G s s'.
  Proof. intros S H l Hl; auto. Qed.

  Section Machine.
    Variables (In Out : Type).
    Definition mstep := store -> In -> Out * store.
    (* output and the F-part of the next store are functions of the input and the F-part of the store *)
    Definition reads_only (F : Loc -> Prop) (f : mstep) : Prop :=
      forall s s' x, agree F s s' -> fst (f s x) = fst (f s' x) /\ agree F (snd (f s x)) (snd (f s' x)).
    (* nothing outside F is modified *)
    Definition writes_only (F : Loc -> Prop) (f : mstep) : Prop :=
      forall s x l, ~ F l -> snd (f s x) l = s l.

    Fixpoint run (f : mstep) (s : store) (xs : list In) : list Out * store :=
      match xs with
      | [] => ([], s)
      | x :: r => let '(o, s1) := f s x in let '(l, sf) := run f s1 r in (o :: l, sf)
      end.

    (* a run is a function of the inputs and of the footprint part of the store: repeating it in a world that
       differs anywhere else gives the same outputs *)
    Theorem deterministic : forall F f, reads_only F f -> forall xs s s', agree F s s' ->
      fst (run f s xs) = fst (run f s' xs) /\ agree F (snd (run f s xs)) (snd (run f s' xs)).
    Proof.
      intros F f Hr. induction xs as [|x xs IH]; intros s s' Ha; simpl.
      - split; [reflexivity|exact Ha].
      - destruct (Hr s s' x Ha) as [Ho Hs].
        destruct (f s x) as [o s1]; destruct (f s' x) as [o' s1']. simpl in *. subst o'.
        destruct (IH s1 s1' Hs) as [Hl Hf].
        destruct (run f s1 xs) as [l sf]; destruct (run f s1' xs) as [l' sf']. simpl in *. subst l'. split; auto.
    Qed.
  End Machine.

  Section Two.
    Variables (InA OutA InB OutB : Type).
    Variables (fA : mstep InA OutA) (fB : mstep InB OutB).

    Fixpoint run2 (s : store) (evs : list (InA + InB)) : list (OutA + OutB) * store :=
      match evs with
      | [] => ([], s)
      | inl a :: r => let '(o, s1) := fA s a in let '(l, sf) := run2 s1 r in (inl o :: l, sf)
      | inr b :: r => let '(o, s1) := fB s b in let '(l, sf) := run2 s1 r in (inr o :: l, sf)
      end.

    Fixpoint projL {X Y : Type} (l : list (X + Y)) : list X :=
      match l with [] => [] | inl x :: r => x :: projL r | inr _ :: r => projL r end.
    Fixpoint projR {X Y : Type} (l : list (X + Y)) : list Y :=
      match l with [] => [] | inr y :: r => y :: projR r | inl _ :: r => projR r end.

    Variables (FA FB : Loc -> Prop).
    Hypothesis disjoint : forall l, FA l -> FB l -> False.

    (* any interleaving of the calls of two machines with disjoint footprints: what A returns is what A returns
       when run alone on its own calls (from any store that agrees with the joint one on A's footprint) *)
    Theorem interleave_isolated_A : reads_only FA fA -> writes_only FB fB ->
      forall evs s s', agree FA s s' ->
        projL (fst (run2 s evs)) = fst (run fA s' (projL evs)) /\
        agree FA (snd (run2 s evs)) (snd (run fA s' (projL evs))).
    Proof.
      intros HrA HwB. induction evs as [|[a|b] evs IH]; intros s s' Ha; simpl.
      - split; [reflexivity|exact Ha].
      - destruct (HrA s s' a Ha) as [Ho Hs].
        destruct (fA s a) as [o s1]; destruct (fA s' a) as [o' s1']. simpl in *. subst o'.
        destruct (IH s1 s1' Hs) as [Hl Hf].
        destruct (run2 s1 evs) as [l sf]; destruct (run fA s1' (projL evs)) as [l' sf']. simpl in *.
        rewrite Hl. split; auto.
      - assert (Hs : agree FA (snd (fB s b)) s').
        { intros l Hl. rewrite (HwB s b l); [auto|]. intro Hb; exact (disjoint Hl Hb). }
        destruct (fB s b) as [o s1]. simpl in Hs.
        destruct (IH s1 s' Hs) as [Hl Hf].
        destruct (run2 s1 evs) as [l sf]. simpl in *. split; auto.
    Qed.

    Theorem interleave_isolated_B : reads_only FB fB -> writes_only FA fA ->
      forall evs s s', agree FB s s' ->
        projR (fst (run2 s evs)) = fst (run fB s' (projR evs)) /\
        agree FB (snd (run2 s evs)) (snd (run fB s' (projR evs))).
    Proof.
      intros HrB HwA. induction evs as [|[a|b] evs IH]; intros s s' Ha; simpl.
      - split; [reflexivity|exact Ha].
      - assert (Hs : agree FB (snd (fA s a)) s').
        { intros l Hl. rewrite (HwA s a l); [auto|]. intro Hb; exact (disjoint Hb Hl). }
        destruct (fA s a) as [o s1]. simpl in Hs.
        destruct (IH s1 s' Hs) as [Hl Hf].
        destruct (run2 s1 evs) as [l sf]. simpl in *. split; auto.
      - destruct (HrB s s' b Ha) as [Ho Hs].
        destruct (fB s b) as [o s1]; destruct (fB s' b) as [o' s1']. simpl in *. subst o'.
        destruct (IH s1 s1' Hs) as [Hl Hf].
        destruct (run2 s1 evs) as [l sf]; destruct (run fB s1' (projR evs)) as [l' sf']. simpl in *.
        rewrite Hl. split; auto.
    Qed.
  End Two.
End Store.

(* ------------------------------------------------------------------------------------------ *)
(* Part 3 : effect language of a filter class, semantics, footprint analysis, checker           *)
(* ------------------------------------------------------------------------------------------ *)

(* a location of the world: attribute `a` of instance number `inst`, or a piece of global mutable state
   ("np.random", a module-level generator, a default-argument array) *)
Inductive loc := LAttr (inst : nat) (a : string) | LGlob (g : string).
Definition loc_eq_dec : forall x y : loc, {x = y} + {x <> y}.
Proof. decide equality; try apply string_dec; apply Nat.eq_dec. Defined.

(* what the extractor emits for a method body (structure-preserving abstraction of the Python AST) *)
Inductive cmd :=
| Skip
| Rd (a : string)              (* the value of self.a flows into what the method knows *)
| Wr (a : string)              (* self.a is (re)bound or updated in place from what the method knows *)
| Glob (g : string)            (* global mutable state g is read and advanced *)
| Call (m : string)            (* self.m(...) *)
| Seq (c1 c2 : cmd)
| If (c1 c2 : cmd)             (* branch decided by what the method knows *)
| Loop (c : cmd).              (* repetition, count decided by what the method knows *)

Definition table := list (string * cmd).
Fixpoint lookup (t : table) (m : string) : option cmd :=
  match t with [] => None | (k, c) :: r => if string_dec k m then Some c else lookup r m end.

Inductive access := ARd (a : string) | AWr (a : string) | AGl (g : string).

Fixpoint iterN {A : Type} (k : nat) (f : A -> A) (x : A) : A :=
  match k with 0 => x | S k' => f (iterN k' f x) end.

Section Sem.
  Variable Val : Type.
  (* uninterpreted value functions: the theorems hold for every choice of them *)
  Variables (mix : Val -> Val -> Val) (wr : string -> Val -> Val) (gl : string -> Val -> Val)
            (test : Val -> bool) (count : Val -> nat).
  Variable tbl : table.
  Variable self : nat.

  Definition wstore := store loc Val.
  Definition setl (s : wstore) (l : loc) (v : Val) : wstore := fun l' => if loc_eq_dec l' l then v else s l'.

  (* v = "what the method knows so far" (its arguments, then everything it has read) *)
  Fixpoint exec (n : nat) (c : cmd) (s : wstore) (v : Val) : wstore * Val :=
    match n with
    | 0 => (s, v)
    | S k =>
      match c with
      | Skip => (s, v)
      | Rd a => (s, mix v (s (LAttr self a)))
      | Wr a => (setl s (LAttr self a) (wr a v), v)
      | Glob g => let v' := mix v (s (LGlob g)) in (setl s (LGlob g) (gl g v'), v')
      | Call m => match lookup tbl m with Some b => exec k b s v | None => (s, v) end
      | Seq c1 c2 => let '(s1, v1) := exec k c1 s v in exec k c2 s1 v1
      | If c1 c2 => if test v then exec k c1 s v else exec k c2 s v
      | Loop b => iterN (count v) (fun sv => exec k b (fst sv) (snd sv)) (s, v)
      end
    end.

  (* footprint: every access the method may perform, through its callees, to the same depth *)
  Fixpoint foot (n : nat) (c : cmd) : list access :=
    match n with
    | 0 => []
    | S k =>
      match c with
      | Skip => []
      | Rd a => [ARd a]
      | Wr a => [AWr a]
      | Glob g => [AGl g]
      | Call m => match lookup tbl m with Some b => foot k b | None => [] end
      | Seq c1 c2 => foot k c1 ++ foot k c2
      | If c1 c2 => foot k c1 ++ foot k c2
      | Loop b => foot k b
      end
    end.

  (* the depth n is enough: no construct is cut off by the fuel (so exec n is the real, untruncated run) *)
  Fixpoint saturated (n : nat) (c : cmd) : bool :=
    match n with
    | 0 => false
    | S k =>
      match c with
      | Skip | Rd _ | Wr _ | Glob _ => true
      | Call m => match lookup tbl m with Some b => saturated k b | None => false end
      | Seq c1 c2 => saturated k c1 && saturated k c2
      | If c1 c2 => saturated k c1 && saturated k c2
      | Loop b => saturated k b
      end
    end.

  Lemma saturated_stable : forall n c, saturated n c = true -> forall s v, exec (S n) c s v = exec n c s v.
  Proof.
    induction n as [|n IH]; intros c Hs s v; [discriminate|].
    destruct c; try reflexivity; cbn [saturated] in Hs.
    - change (exec (S (S n)) (Call m) s v) with (match lookup tbl m with Some b => exec (S n) b s v | None => (s, v) end).
      change (exec (S n) (Call m) s v) with (match lookup tbl m with Some b => exec n b s v | None => (s, v) end).
      destruct (lookup tbl m); [apply IH; exact Hs|reflexivity].
    - apply andb_true_iff in Hs. destruct Hs as [H1 H2].
      change (exec (S (S n)) (Seq c1 c2) s v) with (let '(s1, v1) := exec (S n) c1 s v in exec (S n) c2 s1 v1).
      change (exec (S n) (Seq c1 c2) s v) with (let '(s1, v1) := exec n c1 s v in exec n c2 s1 v1).
      rewrite (IH c1 H1). destruct (exec n c1 s v). apply IH; exact H2.
    - apply andb_true_iff in Hs. destruct Hs as [H1 H2].
      change (exec (S (S n)) (If c1 c2) s v) with (if test v then exec (S n) c1 s v else exec (S n) c2 s v).
      change (exec (S n) (If c1 c2) s v) with (if test v then exec n c1 s v else exec n c2 s v).
      rewrite (IH c1 H1), (IH c2 H2). reflexivity.
    - change (exec (S (S n)) (Loop c) s v) with (iterN (count v) (fun sv => exec (S n) c (fst sv) (snd sv)) (s, v)).
      change (exec (S n) (Loop c) s v) with (iterN (count v) (fun sv => exec n c (fst sv) (snd sv)) (s, v)).
      generalize (count v) as k. induction k as [|k IHk]; [reflexivity|]. cbn [iterN]. rewrite IHk. apply IH; exact Hs.
  Qed.

  Definition rloc (ft : list access) (l : loc) : Prop :=
    (exists a, l = LAttr self a /\ In (ARd a) ft) \/ (exists g, l = LGlob g /\ In (AGl g) ft).
  Definition wloc (ft : list access) (l : loc) : Prop :=
    (exists a, l = LAttr self a /\ In (AWr a) ft) \/ (exists g, l = LGlob g /\ In (AGl g) ft).

  Lemma rloc_app_l ft1 ft2 l : rloc ft1 l -> rloc (ft1 ++ ft2) l.
  Proof. intros [[a [E H]]|[g [E H]]]; [left; exists a|right; exists g]; split; auto; apply in_or_app; auto. Qed.
  Lemma rloc_app_r ft1 ft2 l : rloc ft2 l -> rloc (ft1 ++ ft2) l.
  Proof. intros [[a [E H]]|[g [E H]]]; [left; exists a|right; exists g]; split; auto; apply in_or_app; auto. Qed.
  Lemma wloc_app ft1 ft2 l : ~ wloc (ft1 ++ ft2) l -> ~ wloc ft1 l /\ ~ wloc ft2 l.
  Proof.
    intros N; split; intros [[a [E H]]|[g [E H]]]; apply N;
      solve [left; exists a; split; auto; apply in_or_app; auto | right; exists g; split; auto; apply in_or_app; auto].
  Qed.

  Lemma agree_setl (F : loc -> Prop) s s' l x : agree F s s' -> agree F (setl s l x) (setl s' l x).
  Proof. intros H l' Hl'. unfold setl. destruct (loc_eq_dec l' l); auto. Qed.

  (* NON-INTERFERENCE: if two worlds agree on a set F that contains everything the footprint says may be read,
     the method learns the same things (returns the same value) and the worlds still agree on F afterwards *)
  Theorem exec_noninterference : forall n c (F : loc -> Prop),
    (forall l, rloc (foot n c) l -> F l) ->
    forall s s' v, agree F s s' ->
      snd (exec n c s v) = snd (exec n c s' v) /\ agree F (fst (exec n c s v)) (fst (exec n c s' v)).
  Proof.
    induction n as [|n IH]; intros c F HF s s' v Ha; [split; [reflexivity|exact Ha]|].
    destruct c; cbn [exec foot] in *.
    - split; [reflexivity|exact Ha].
    - assert (E : s (LAttr self a) = s' (LAttr self a)).
      { apply Ha, HF. left. exists a. split; [reflexivity|left; reflexivity]. }
      rewrite E. split; [reflexivity|exact Ha].
    - split; [reflexivity|]. apply agree_setl; exact Ha.
    - assert (E : s (LGlob g) = s' (LGlob g)).
      { apply Ha, HF. right. exists g. split; [reflexivity|left; reflexivity]. }
      rewrite E. split; [reflexivity|]. apply agree_setl; exact Ha.
    - destruct (lookup tbl m) as [b|]; [apply IH; auto|split; [reflexivity|exact Ha]].
    - destruct (IH c1 F (fun l H => HF l (rloc_app_l _ H)) s s' v Ha) as [Ev Es].
      destruct (exec n c1 s v) as [s1 v1]; destruct (exec n c1 s' v) as [s1' v1']. simpl in *. subst v1'.
      apply IH; [intros l H; apply HF, rloc_app_r; exact H|exact Es].
    - destruct (test v); apply IH; auto; intros l H; apply HF; [apply rloc_app_l|apply rloc_app_r]; exact H.
    - generalize (count v) as k. induction k as [|k IHk]; [split; [reflexivity|exact Ha]|].
      cbn [iterN]. destruct IHk as [Ev Es]. rewrite Ev. apply IH; auto.
  Qed.

  (* CONFINEMENT: a location outside the write footprint keeps its value *)
  Theorem exec_confined : forall n c s v l, ~ wloc (foot n c) l -> fst (exec n c s v) l = s l.
  Proof.
    induction n as [|n IH]; intros c s v l Hn; [reflexivity|].
    destruct c; cbn [exec foot] in *; try reflexivity.
    - simpl. unfold setl. destruct (loc_eq_dec l (LAttr self a)) as [E|]; [|reflexivity].
      exfalso. apply Hn. left. exists a. split; [exact E|left; reflexivity].
    - simpl. unfold setl. destruct (loc_eq_dec l (LGlob g)) as [E|]; [|reflexivity].
      exfalso. apply Hn. right. exists g. split; [exact E|left; reflexivity].
    - destruct (lookup tbl m); [apply IH; exact Hn|reflexivity].
    - destruct (wloc_app _ _ Hn) as [H1 H2].
      pose proof (IH c1 s v l H1) as E1. destruct (exec n c1 s v) as [s1 v1]. simpl in E1.
      rewrite (IH c2 s1 v1 l H2). exact E1.
    - destruct (wloc_app _ _ Hn) as [H1 H2]. destruct (test v); apply IH; assumption.
    - generalize (count v) as k. induction k as [|k IHk]; [reflexivity|].
      cbn [iterN]. rewrite IH; [exact IHk|exact Hn].
  Qed.

  (* a public method as a machine step: arguments in, returned knowledge out *)
  Definition mcall (n : nat) (m : string) : mstep loc Val Val Val :=
    fun s x => let '(s', v) := exec n (Call m) s x in (v, s').
End Sem.

(* ---------------- taint of __init__ : which attributes are assigned from constructor DATA ------------- *)
Inductive src := SParam (p : string) | SAttr (a : string) | SGlobal (g : string).

Definition mem (x : string) (l : list string) : bool := existsb (fun y => if string_dec x y then true else false) l.
Lemma mem_In x l : mem x l = true <-> In x l.
Proof.
  unfold mem. rewrite existsb_exists. split.
  - intros [y [Hy E]]. destruct (string_dec x y); [subst; exact Hy|discriminate].
  - intros H. exists x. split; [exact H|]. destruct (string_dec x x); [reflexivity|contradiction].
Qed.

Definition src_tainted (dparams T : list string) (s : src) : bool :=
  match s with SParam p => mem p dparams | SAttr a => mem a T | SGlobal _ => true end.

(* one round: every attribute with a tainted source joins *)
Definition taint_round (dparams : list string) (deps : list (string * list src)) (T : list string) : list string :=
  T ++ map fst (filter (fun d => negb (mem (fst d) T) && existsb (src_tainted dparams T) (snd d)) deps).
Fixpoint taint_iter (n : nat) dparams deps T : list string :=
  match n with 0 => T | S k => taint_iter k dparams deps (taint_round dparams deps T) end.
Definition data_attrs dparams deps : list string := taint_iter (S (length deps)) dparams deps [].
(* closure test: one more round adds nothing *)
Definition taint_closed dparams deps (T : list string) : bool :=
  forallb (fun d => mem (fst d) T || negb (existsb (src_tainted dparams T) (snd d))) deps.
Lemma taint_closed_sound dparams deps T : taint_closed dparams deps T = true ->
  forall a ss s, In (a, ss) deps -> In s ss -> src_tainted dparams T s = true -> In a T.
Proof.
  unfold taint_closed. rewrite forallb_forall. intros H a ss s Hd Hs Ht.
  specialize (H (a, ss) Hd). simpl in H. apply orb_true_iff in H. destruct H as [H|H]; [apply mem_In; exact H|].
  apply negb_true_iff in H. assert (existsb (src_tainted dparams T) ss = true) by (apply existsb_exists; exists s; auto).
  congruence.
Qed.

(* ---------------- the loop shape of _compute_all ------------------------------------------------------ *)
(* one `for t in range(lo, N): Q[t] = self.callee(Q[t-1]?, self.d1[t], ..., extras)` (or the comprehension form) *)
Record loopfact := { lcallee : string; llo : nat; lprev : bool;   (* first argument is Q[t-1] *)
                     ldata : list string;                          (* attributes indexed by [t], in order *)
                     lextra : list string }.                       (* other self.<attr> passed whole (e.g. self.Dt) *)

Record filt := {
  fname : string;
  fmethods : table;                       (* effect program of every method of the class *)
  fupdates : list string;                 (* the per-sample entry points *)
  fdparams : list string;                 (* constructor parameters that carry sensor DATA *)
  finit : list (string * list src);       (* __init__ (with its helpers, without _compute_all): attr <- sources *)
  fcarried : list string;                 (* declared carried state *)
  floops : list loopfact;                 (* loops of _compute_all that have the expected shape *)
  fbadloops : nat;                        (* loops of _compute_all that do not *)
}.

Definition FUEL := 40.

Definition fdata (f : filt) : list string := data_attrs (fdparams f) (finit f).
Definition fassigned (f : filt) : list string := map fst (finit f).
Definition fcfg (f : filt) : list string := let D := fdata f in filter (fun a => negb (mem a D)) (fassigned f).

(* the checker.  G = global state the statement allows as an explicit input (the NumPy seed);
   E = attributes allowed although they are assigned from data (used only by `_partial` statements);
   C, K, D = configuration, carried and data attributes (computed once) *)
Definition access_ok_pre (G E C K D : list string) (a : access) : bool :=
  match a with
  | ARd x => mem x E || ((mem x C || mem x K) && negb (mem x D))
  | AWr x => mem x K
  | AGl g => mem g G
  end.
Definition access_ok (G E : list string) (f : filt) (a : access) : bool :=
  access_ok_pre G E (fcfg f) (fcarried f) (fdata f) a.

Definition frame_ok_gen (G E : list string) (f : filt) (u : string) : bool :=
  let D := fdata f in let C := fcfg f in
  mem u (fupdates f) && saturated (fmethods f) FUEL (Call u) &&
  taint_closed (fdparams f) (finit f) D &&
  forallb (access_ok_pre G E C (fcarried f) D) (foot (fmethods f) FUEL (Call u)).

Definition frame_ok := frame_ok_gen [] [].

Definition loop_ok_pre (U C D : list string) (l : loopfact) : bool :=
  mem (lcallee l) U && (if lprev l then Nat.eqb (llo l) 1 else true) &&
  forallb (fun d => mem d D) (ldata l) &&
  forallb (fun e => mem e C) (lextra l).
(* _compute_all is made of loops  Q[t] = update(Q[t-1], data[t], cfg...)  only, at least one:
   the callee is a declared per-sample entry point, a loop that feeds back Q[t-1] starts at t = 1, every indexed
   argument is a constructor-data attribute, every other argument a configuration attribute *)
Definition loops_ok (f : filt) : bool :=
  let D := fdata f in let C := fcfg f in
  Nat.eqb (fbadloops f) 0 && negb (Nat.eqb (length (floops f)) 0) && forallb (loop_ok_pre (fupdates f) C D) (floops f).

(* the footprint of instance number i of a filter: configuration, carried state, allowed extras and globals *)
Definition Fof (G E : list string) (f : filt) (i : nat) (l : loc) : Prop :=
  match l with
  | LAttr j a => j = i /\ (In a E \/ In a (fcfg f) \/ In a (fcarried f))
  | LGlob g => In g G
  end.

Section Sound.
  Variable Val : Type.
  Variables (mix : Val -> Val -> Val) (wr : string -> Val -> Val) (gl : string -> Val -> Val)
            (test : Val -> bool) (count : Val -> nat).

  Definition ustep (f : filt) (i : nat) (u : string) : mstep loc Val Val Val :=
    mcall mix wr gl test count (fmethods f) i FUEL u.

  Lemma frame_reads G E f u i : frame_ok_gen G E f u = true -> reads_only (Fof G E f i) (ustep f i u).
  Proof.
    unfold frame_ok_gen. cbv zeta. rewrite !andb_true_iff. intros [[[_ _] _] Hall]. rewrite forallb_forall in Hall.
    intros s s' x Ha. unfold ustep, mcall.
    destruct (@exec_noninterference Val mix wr gl test count (fmethods f) i FUEL (Call u) (Fof G E f i)) with (s := s) (s' := s') (v := x)
      as [Ev Es]; [|exact Ha|].
    - intros l [[a [El Hin]]|[g [El Hin]]]; subst l; specialize (Hall _ Hin); cbn [access_ok_pre] in Hall.
      + split; [reflexivity|]. apply orb_true_iff in Hall. destruct Hall as [H|H]; [left; apply mem_In; exact H|].
        apply andb_true_iff in H. destruct H as [H _]. apply orb_true_iff in H.
        destruct H as [H|H]; apply mem_In in H; auto.
      + apply mem_In; exact Hall.
    - destruct (exec mix wr gl test count (fmethods f) i FUEL (Call u) s x) as [s1 v1].
      destruct (exec mix wr gl test count (fmethods f) i FUEL (Call u) s' x) as [s1' v1']. cbn [fst snd] in *. split; auto.
  Qed.

  Lemma frame_writes G E f u i : frame_ok_gen G E f u = true -> writes_only (Fof G E f i) (ustep f i u).
  Proof.
    unfold frame_ok_gen. cbv zeta. rewrite !andb_true_iff. intros [[[_ _] _] Hall]. rewrite forallb_forall in Hall.
    intros s x l Hn. unfold ustep, mcall.
    pose proof (@exec_confined Val mix wr gl test count (fmethods f) i FUEL (Call u) s x l) as Hc.
    destruct (exec mix wr gl test count (fmethods f) i FUEL (Call u) s x) as [s1 v1]. cbn [fst snd] in *. apply Hc.
    intros [[a [El Hin]]|[g [El Hin]]]; subst l; specialize (Hall _ Hin); cbn [access_ok_pre] in Hall; apply Hn; cbn [Fof].
    - split; [reflexivity|]. right; right. apply mem_In; exact Hall.
    - apply mem_In; exact Hall.
  Qed.

  (* the depth FUEL loses nothing: one more level of fuel gives the same run *)
  Lemma frame_untruncated G E f u i : frame_ok_gen G E f u = true ->
    forall s x, exec mix wr gl test count (fmethods f) i (S FUEL) (Call u) s x = exec mix wr gl test count (fmethods f) i FUEL (Call u) s x.
  Proof.
    unfold frame_ok_gen. cbv zeta. rewrite !andb_true_iff. intros [[[_ Hs] _] _] s x. apply saturated_stable; exact Hs.
  Qed.

  (* every attribute the update may read is not assigned from constructor data (unless explicitly allowed) *)
  Lemma frame_reads_no_data G E f u : frame_ok_gen G E f u = true ->
    forall a, In (ARd a) (foot (fmethods f) FUEL (Call u)) -> In a E \/ ~ In a (fdata f).
  Proof.
    unfold frame_ok_gen. cbv zeta. rewrite !andb_true_iff. intros [_ Hall] a Hin. rewrite forallb_forall in Hall.
    specialize (Hall _ Hin). cbn [access_ok_pre] in Hall. apply orb_true_iff in Hall. destruct Hall as [H|H]; [left; apply mem_In; exact H|].
    right. apply andb_true_iff in H. destruct H as [_ H]. apply negb_true_iff in H. intro Hi. apply mem_In in Hi. congruence.
  Qed.

  Lemma frame_no_global f u : frame_ok f u = true -> forall g, ~ In (AGl g) (foot (fmethods f) FUEL (Call u)).
  Proof.
    unfold frame_ok, frame_ok_gen. cbv zeta. rewrite !andb_true_iff. intros [_ Hall] g Hin. rewrite forallb_forall in Hall.
    specialize (Hall _ Hin). cbn [access_ok_pre] in Hall. discriminate.
  Qed.

  Lemma Fof_disjoint f g i j l : i <> j -> Fof [] [] f i l -> Fof [] [] g j l -> False.
  Proof. destruct l; cbn [Fof]; [intros N [E1 _] [E2 _]; congruence|intros _ []]. Qed.
End Sound.
