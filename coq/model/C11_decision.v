(* C11_decision.v — hand model of the accept / reject decision of the three constructors
   Quaternion(q), QuaternionArray(q), DCM(M) as a function of
     (container kind, dtype kind, shape, content class)  ->  Ok | ValueError | TypeError.
   It is tied to the code by an exhaustive comparison over a finite grid (tools/props/C11.py, `grid`).
   No real numbers are involved: this file is axiom-free. *)
From Coq Require Import List Bool Arith.
Import ListNotations.

Inductive verdict := Ok | VErr | TErr.
Inductive ctor := Quat | QArr | Dcm.
(* what is passed as the first argument *)
Inductive cont := Nd | Lst | Tup          (* numpy array, list, tuple (nested to the given shape) *)
                | IntPos | IntNonPos | BoolT | BoolF | FloatS | StrS | NoneS.   (* a bare scalar / string / nothing *)
(* dtype numpy infers for the data: float64, int64, float32, int32, bool, complex128, str, object (a None inside) *)
Inductive dk := F64 | I64 | F32 | I32 | Bool | C128 | Str | Obj.
(* content classes: Generic = finite, no zero row, (for ...x3x3 shapes: a proper rotation);
   Zero = all zeros; ZeroRow = last row zero; NaN = one entry NaN; Reflect / Scaled = 3x3 blocks with
   determinant -1 / multiplied by 2 *)
Inductive content := Generic | Zero | ZeroRow | NaN | Reflect | Scaled.

Fixpoint size (s : list nat) : nat := match s with [] => 1 | a :: r => a * size r end.

Definition is_vec34 (s : list nat) : bool :=
  match s with [3] | [4] => true | _ => false end.
Definition is_N34 (s : list nat) : bool :=
  match s with [_; 3] | [_; 4] => true | _ => false end.
Definition is_33 (s : list nat) : bool :=
  match s with [3; 3] | [_; 3; 3] => true | _ => false end.

(* an empty list / tuple carries no element type: numpy makes it float64 *)
Definition eff_dk (k : cont) (d : dk) (s : list nat) : dk :=
  match k with Nd => d | _ => if Nat.eqb (size s) 0 then F64 else d end.
(* ahrs.utils.core._assert_numerical_iterable: dtype must be exactly int64 or float64 *)
Definition numeric (d : dk) : bool := match d with F64 | I64 => true | _ => false end.

Definition bad_content (x : content) : bool := match x with Generic => false | _ => true end.

Definition decide_array (c : ctor) (k : cont) (d0 : dk) (s : list nat) (x : content) : verdict :=
  let d := eff_dk k d0 s in
  match c with
  | Quat =>
      if negb (numeric d) then TErr
      else if negb (is_vec34 s) then VErr
      else match x with Generic => Ok | _ => VErr end
  | QArr =>
      (* numpy.array(q, dtype=float): python complex inside a list cannot be converted; complex arrays drop
         their imaginary part; numeric strings and bools convert; None becomes NaN *)
      match d, k with
      | C128, Lst | C128, Tup => TErr
      | _, _ =>
          if negb (is_N34 s) then VErr
          else if Nat.eqb (size s) 0 then Ok
          else match d, x with
               | Obj, _ => VErr
               | _, Generic | _, Reflect | _, Scaled => Ok      (* rows of a 3x3 block are just 3-vectors here *)
               | _, _ => VErr
               end
      end
  | Dcm =>
      if negb (numeric d) then TErr
      else if negb (is_33 s) then VErr
      else match x with Generic => Ok | _ => VErr end
  end.

Definition decide (c : ctor) (k : cont) (d : dk) (s : list nat) (x : content) : verdict :=
  match k with
  | Nd | Lst | Tup => decide_array c k d s x
  | NoneS => Ok                                         (* default: identity *)
  | IntPos => match c with QArr => Ok | _ => TErr end   (* QuaternionArray(n): n random attitudes *)
  | IntNonPos => match c with QArr => VErr | _ => TErr end
  | BoolF => match c with QArr => VErr | _ => TErr end  (* isinstance(False, int): QuaternionArray(False) asks for 0 attitudes *)
  | BoolT | FloatS | StrS => TErr
  end.

(* ---- facts about the decision itself (all shapes, not only the grid) ---------------------------- *)
(* nothing that cannot be a rotation is ever accepted: zero vectors / zero rows / NaNs by every constructor,
   reflections and scaled matrices by DCM *)
Theorem decide_never_accepts_invalid : forall c k d s x,
  (k = Nd \/ k = Lst \/ k = Tup) -> size s <> 0 ->
  (x = Zero \/ x = ZeroRow \/ x = NaN \/ (c = Dcm /\ (x = Reflect \/ x = Scaled))) ->
  decide c k d s x <> Ok.
Proof.
  intros c k d s x Hk Hs Hx. apply Nat.eqb_neq in Hs.
  unfold decide, decide_array, eff_dk.
  destruct Hk as [ -> | [ -> | -> ] ]; rewrite ?Hs;
  destruct c; destruct d; cbn [numeric negb];
  try (destruct (is_vec34 s)); try (destruct (is_N34 s)); try (destruct (is_33 s)); cbn [negb];
  decompose [or and] Hx; subst; try discriminate; intros E; discriminate E.
Qed.

(* acceptance needs the right shape *)
Theorem decide_ok_shape : forall c k d s x, (k = Nd \/ k = Lst \/ k = Tup) -> decide c k d s x = Ok ->
  match c with Quat => is_vec34 s | QArr => is_N34 s | Dcm => is_33 s end = true.
Proof.
  intros c k d s x Hk. unfold decide, decide_array, eff_dk.
  destruct Hk as [ -> | [ -> | -> ] ]; destruct c; destruct d; destruct (Nat.eqb (size s) 0); cbn [numeric negb];
  try (destruct (is_vec34 s)); try (destruct (is_N34 s)); try (destruct (is_33 s)); cbn [negb];
  intros E; try reflexivity; try discriminate E; destruct x; discriminate E.
Qed.
