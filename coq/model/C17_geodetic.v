(* C17_geodetic.v — hand model of ahrs.common.frames.ecef2geodetic (ahrs/common/frames.py:196-296), whose
   tolerance-terminated `while` cannot be translated as a whole.  The loop body is the map T below; the loop
   is a fuel-bounded recursion with the code's exit test.  Tie to the code: props/C17/C17_geodetic.v PROVES that
   the regenerated, K-times unrolled trace of the public function equals this model with the same fuel, and the
   correspondence check runs that regenerated definition against the implementation.
   Independent of generated code. *)
From Coq Require Import Reals List Lra.
From AhrsLib Require Import Base.
Import ListNotations.
Open Scope R_scope.

(* square of the first eccentricity, as the code computes it *)
Definition ecc2 (a b : R) : R := (a ^ 2 - b ^ 2) / a ^ 2.
(* prime-vertical radius of curvature at latitude phi (radians) *)
Definition Nrad (a b phi : R) : R := a / sqrt (1 - ecc2 a b * (sin phi) ^ 2).
(* one pass through the loop body: phi_i = arctan2(z + e^2 N(phi_{i-1}) sin(phi_{i-1}), p) *)
Definition Tgeo (a b p z phi : R) : R := atan2 (z + ecc2 a b * Nrad a b phi * sin phi) p.
(* initial estimate *)
Definition phi_init (a b p z : R) : R := atan2 z ((1 - ecc2 a b) * p).
(* threshold of the exit test *)
Definition geo_delta : R := 1 / 100000000.
(* height formula  h = p / cos(lat) - N *)
Definition geo_height (p lat N : R) : R := p / cos lat - N.

(* while abs(lat_old - lat) > delta: N = N(lat); lat_old = lat; lat = T(lat).   None = fuel exhausted *)
Fixpoint geo_loop (fuel : nat) (a b p z lat_old lat N : R) : option (R * R) :=
  if Rlt_dec geo_delta (Rabs (lat_old - lat)) then
    match fuel with
    | O => None
    | S f => geo_loop f a b p z lat (Tgeo a b p z lat) (Nrad a b lat)
    end
  else Some (lat, N).

(* the whole function (with N initialised before the loop, i.e. the repaired code) *)
Definition ecef2geodetic_model (fuel : nat) (a b x y z : R) : outcome R :=
  let p := sqrt (x ^ 2 + y ^ 2) in
  let l0 := phi_init a b p z in
  match geo_loop fuel a b p z 0 l0 (Nrad a b l0) with
  | None => Raise OtherError
  | Some (lat, N) => Val [lat * (180 / PI); atan2 y x * (180 / PI); geo_height p lat N]
  end.

(* geodetic2ecef in radians, for comparison *)
Definition geodetic2ecef_spec (a b phi lam h : R) : list R :=
  [(Nrad a b phi + h) * cos phi * cos lam;
   (Nrad a b phi + h) * cos phi * sin lam;
   (Nrad a b phi * (1 - ecc2 a b) + h) * sin phi].
