(* C02_itzhack.v — hand model of the part of orientation.itzhack that precedes the LAPACK call: the symmetric
   4x4 matrices K2 (version 1) and K3 (versions 2, 3) built from the nine entries of the DCM, written ONCE over an
   abstract carrier and instantiated over R (theorems) and over PrimFloat (correspondence: the harness captures the
   matrix the real function hands to numpy.linalg.eig/eigh and compares it with KF evaluated by vm_compute).
   Also the post-processing of the selected eigenvector: roll by one, negate the scalar part. *)
From Coq Require Import Reals List.
From Coq Require Import Uint63. From Coq Require Import PrimFloat.
Import ListNotations.

Section K.
  Variable T : Type.
  Variables (add sub : T -> T -> T) (opp : T -> T) (divc : T -> T -> T) (two three : T).
  Notation "a + b" := (add a b).
  Notation "a - b" := (sub a b).
  Notation "- a" := (opp a).
  (* row-major 4x4; d11..d33 are dcm[0,0]..dcm[2,2] as in the source *)
  Definition K2g (d11 d12 d13 d21 d22 d23 d31 d32 d33 : T) : list T :=
    map (fun a => divc a two)
      [ d11-d22; d21+d12; d31; -d32;
        d21+d12; d22-d11; d32; d31;
        d31; d32; (-d11)-d22; d12-d21;
        -d32; d31; d12-d21; d11+d22 ].
  Definition K3g (d11 d12 d13 d21 d22 d23 d31 d32 d33 : T) : list T :=
    map (fun a => divc a three)
      [ (d11-d22)-d33; d21+d12; d31+d13; d23-d32;
        d21+d12; (d22-d11)-d33; d32+d23; d31-d13;
        d31+d13; d32+d23; (d33-d11)-d22; d12-d21;
        d23-d32; d31-d13; d12-d21; (d11+d22)+d33 ].
  (* q = np.roll(v, 1); q[0] *= -1 *)
  Definition unrollg (v : list T) : list T :=
    match v with [a; b; c; d] => [- d; a; b; c] | _ => v end.
End K.

Definition K2R := K2g R Rplus Rminus Ropp Rdiv 2%R.
Definition K3R := K3g R Rplus Rminus Rdiv 3%R.
Definition unrollR := unrollg R Ropp.
Definition K2F := K2g float PrimFloat.add PrimFloat.sub PrimFloat.opp PrimFloat.div 2%float.
Definition K3F := K3g float PrimFloat.add PrimFloat.sub PrimFloat.div 3%float.
