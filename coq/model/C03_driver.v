(* C03_driver.v — hand-written model of the `_compute_all` drivers of ahrs.filters (class B code).
   Recursive filters:   Q[0] = init(sample 0);  Q[t] = step(Q[t-1], sample t)   for t = 1 .. N-1
   Single-frame ones:   Q[t] = estimate(sample t)                               for t = 0 .. N-1
   Generic in the state, the sample type and the step: the theorems hold for ANY step function, so they do not
   depend on which filter is plugged in.  No real numbers here: the file is axiom-free. *)
From Coq Require Import List.
Import ListNotations.

Section Driver.
  Variables (St Sample : Type).
  Variable step : St -> Sample -> St.
  Variable init : Sample -> St.

  (* the loop `for t in range(1, N): Q[t] = step(Q[t-1], s[t])` started from state s *)
  Fixpoint scan (s : St) (l : list Sample) : list St :=
    match l with
    | [] => []
    | x :: l' => let s' := step s x in s' :: scan s' l'
    end.

  Definition batch (h : list Sample) : list St :=
    match h with
    | [] => []
    | x0 :: tl => init x0 :: scan (init x0) tl
    end.

  Lemma scan_length : forall l s, length (scan s l) = length l.
  Proof. induction l as [|x l IH]; intros s; simpl; [reflexivity|]. rewrite IH. reflexivity. Qed.

  (* exactly one output per input sample, for every history length *)
  Theorem length_batch : forall h, length (batch h) = length h.
  Proof. intros [|x0 tl]; simpl; [reflexivity|]. rewrite scan_length. reflexivity. Qed.

  (* an invariant established by `init` and preserved by `step` on admissible samples holds for every output *)
  Lemma scan_invariant (P : St -> Prop) (G : Sample -> Prop) :
    (forall s x, P s -> G x -> P (step s x)) -> forall l s, P s -> Forall G l -> Forall P (scan s l).
  Proof.
    intros Hs. induction l as [|x l IH]; intros s Ps HG; simpl; [constructor|].
    inversion HG as [|? ? Gx Gl]; subst. constructor; [apply Hs; assumption|]. apply IH; [apply Hs; assumption|assumption].
  Qed.

  Theorem batch_invariant (P : St -> Prop) (G : Sample -> Prop) :
    (forall x, G x -> P (init x)) -> (forall s x, P s -> G x -> P (step s x)) ->
    forall h, Forall G h -> Forall P (batch h).
  Proof.
    intros Hi Hs [|x0 tl] HG; simpl; [constructor|]. inversion HG as [|? ? G0 Gt]; subst.
    constructor; [apply Hi; assumption|]. apply scan_invariant with (G := G); [assumption|apply Hi; assumption|assumption].
  Qed.

End Driver.

Section Pointwise.
  Variables (Out Sample : Type).
  Variable estimate : Sample -> Out.
  (* `np.array([self.estimate(acc[t], mag[t]) for t in range(num_samples)])` *)
  Definition pointwise (h : list Sample) : list Out := map estimate h.
  Theorem length_pointwise : forall h, length (pointwise h) = length h.
  Proof. intros h. apply map_length. Qed.
  Theorem pointwise_invariant (P : Out -> Prop) (G : Sample -> Prop) :
    (forall x, G x -> P (estimate x)) -> forall h, Forall G h -> Forall P (pointwise h).
  Proof. intros H h. induction 1; simpl; constructor; auto. Qed.
End Pointwise.
