(* C15_wmm_object.v — the WMM object of ahrs/utils/wmm.py as a state machine (hand-written model).

   What the model rests on is NOT written here: the record `facts` is filled in, on every run, by the Python-ast walk of
   the current working tree (tools/props/C15.py -> gen/C15facts.v): which methods replace the tables self.c / self.cd by
   fresh ones ("reload"), which multiply the Schmidt factors into them in place ("scale"), under which condition on the
   `date` argument, what the constructor's guard evaluates to at latitude/longitude 0, and which date value the
   constructor hands to the method.  The numeric content (file -> tables, the scale factors, the harmonic synthesis) is
   abstract: the theorems hold for every choice, the executable instance at the end is a term algebra that records what
   was loaded and how often it was scaled, and is run against real objects by the correspondence check.

   No real numbers here: the file is axiom-free. *)
From Coq Require Import List Bool Arith.
Import ListNotations.

(* which date value __init__ passes to magnetic_field *)
Inductive date_pass :=
| PassGiven      (* the caller's `date` argument, unchanged (None stays None) *)
| PassCalendar   (* self.date     : the calendar date reset_date derived (rounded to a day) *)
| PassDecimal    (* self.date_dec *)
| PassNone       (* a literal None *)
| PassDefault.   (* nothing: the method's default argument *)

Record facts := {
  reset_reloads : bool;          (* reset_coefficients assigns fresh self.c and self.cd on every path, and scales nothing *)
  denorm_in_place : bool;        (* denormalize_coefficients updates entries of self.c / self.cd in place *)
  field_reloads_if_date : bool;  (* magnetic_field(date=<not None>): a reload on every path before the first in-place scaling *)
  field_reloads_if_none : bool;  (* magnetic_field(date=None): the same *)
  field_scales : bool;           (* magnetic_field reaches an in-place scaling of the tables *)
  ctor_resets_first : bool;      (* __init__ starts with a reload *)
  ctor_guard_00 : bool;          (* truth of the guard around the constructor's computation at lat = 0, lon = 0 *)
  ctor_guard_0x : bool;          (* lat = 0, lon <> 0 *)
  ctor_guard_x0 : bool;          (* lat <> 0, lon = 0 *)
  ctor_guard_xx : bool;          (* neither is 0 *)
  ctor_date : date_pass;
  method_zero_branch : bool;     (* some branch of the method can single out latitude 0 or longitude 0 *)
  default_date_frozen : bool;    (* the default of magnetic_field's date parameter is a call evaluated at import *)
  no_hidden_state : bool         (* no instance / class / module level state besides the declared attributes is written by one
                                    public method or property and read by another (no memoisation, no shared cache) *)
}.

(* the numeric content of the class, abstract: every theorem below holds for every `world` *)
Record world := {
  w_Date : Type; w_Place : Type; w_Frame : Type; w_File : Type; w_Coef : Type; w_Elem : Type;
  w_file_of : w_Date -> w_File;            (* reset_date: date -> coefficient file (and with it the epoch) *)
  w_load : w_File -> w_Coef;               (* load_coefficients: fresh, unscaled tables *)
  w_scale : w_Coef -> w_Coef;              (* the Schmidt factors S[m,n] multiplied into every entry (place independent) *)
  w_synth : w_Coef -> w_Date -> w_Place -> w_Frame -> w_Elem;    (* synthesis from once-scaled tables, generic path *)
  w_synth0 : w_Coef -> w_Date -> w_Place -> w_Frame -> w_Elem;   (* whatever a zero-sensitive branch would compute instead *)
  w_cal : w_Date -> w_Date;                (* the date as re-read from self.date (calendar day) *)
  w_dec : w_Date -> w_Date;                (* the date as re-read from self.date_dec *)
  w_today : w_Date;                        (* wall clock *)
  w_coef0 : w_Coef;                        (* attribute content before any load (none) *)
  w_lat0 : w_Place -> bool;                (* latitude == 0 *)
  w_lon0 : w_Place -> bool;                (* longitude == 0 *)
  w_stale : option w_Elem -> option w_Elem (* what a reader would see through an undeclared cache, if there were one *)
}.

Section Object.
  Variable w : world.
  Variable fx : facts.
  Notation Date := (w_Date w). Notation Place := (w_Place w). Notation Frame := (w_Frame w).
  Notation File := (w_File w). Notation Coef := (w_Coef w). Notation Elem := (w_Elem w).
  Notation file_of := (w_file_of w). Notation load := (w_load w). Notation scale := (w_scale w).
  Notation synth := (w_synth w). Notation synth0 := (w_synth0 w). Notation cal := (w_cal w). Notation dec := (w_dec w).
  Notation today := (w_today w). Notation coef0 := (w_coef0 w). Notation lat0 := (w_lat0 w). Notation lon0 := (w_lon0 w).

  Record state := { coef : Coef; sdate : Date; sframe : Frame; answer : option Elem }.

  Definition reset_coefficients (st : state) (d : Date) : state :=
    {| coef := if reset_reloads fx then load (file_of d) else coef st; sdate := d; sframe := sframe st; answer := answer st |}.

  Definition denormalize_coefficients (st : state) : state :=
    {| coef := if denorm_in_place fx then scale (coef st) else coef st; sdate := sdate st; sframe := sframe st; answer := answer st |}.

  (* assigning w.frame between calls *)
  Definition set_frame (st : state) (fr : Frame) : state :=
    {| coef := coef st; sdate := sdate st; sframe := fr; answer := answer st |}.

  (* what the readers (the attributes X..GV, the magnetic_elements dictionary, geodetic_vector) show *)
  Definition observe (st : state) : option Elem := if no_hidden_state fx then answer st else w_stale w (answer st).

  Definition reloads (od : option Date) : bool :=
    match od with Some _ => field_reloads_if_date fx | None => field_reloads_if_none fx end.

  Definition special (p : Place) : bool := method_zero_branch fx && (lat0 p || lon0 p).

  (* magnetic_field(lat, lon, h, date): new state and the elements it stores *)
  Definition field (st : state) (p : Place) (od : option Date) : state * Elem :=
    let st1 := if reloads od then reset_coefficients st (match od with Some d => d | None => sdate st end) else st in
    let c1 := scale (coef st1) in
    let e := (if special p then synth0 else synth) c1 (sdate st1) p (sframe st1) in
    ({| coef := if field_scales fx then c1 else coef st1; sdate := sdate st1; sframe := sframe st1; answer := Some e |}, e).

  Definition ctor_guard (p : Place) : bool :=
    match lat0 p, lon0 p with
    | true, true => ctor_guard_00 fx | true, false => ctor_guard_0x fx
    | false, true => ctor_guard_x0 fx | false, false => ctor_guard_xx fx
    end.

  Definition ctor_arg (od : option Date) (d : Date) : option Date :=
    match ctor_date fx with
    | PassGiven => od | PassCalendar => Some (cal d) | PassDecimal => Some (dec d) | PassNone => None | PassDefault => Some today
    end.

  (* WMM(date, lat, lon, h, frame) *)
  Definition given (od : option Date) : Date := match od with Some d => d | None => today end.
  Definition new0 (od : option Date) (fr : Frame) : state :=      (* after the constructor's reset, before its computation *)
    {| coef := if ctor_resets_first fx && reset_reloads fx then load (file_of (given od)) else coef0;
       sdate := given od; sframe := fr; answer := None |}.
  Definition new (od : option Date) (p : Place) (fr : Frame) : state :=
    if ctor_guard p then fst (field (new0 od fr) p (ctor_arg od (given od))) else new0 od fr.
  (* the date the constructor's answer is for *)
  Definition ctor_eff (od : option Date) : Date := match ctor_arg od (given od) with Some x => x | None => given od end.

  (* what the property demands: a function of (date, place, frame) alone *)
  Definition pure (d : Date) (p : Place) (fr : Frame) : Elem := synth (scale (load (file_of d))) d p fr.

  Inductive call := Field (p : Place) (od : option Date) | Reset (d : Date) | Denorm | SetFrame (fr : Frame).

  (* answers of the Field calls of a sequence, in order *)
  Fixpoint run (st : state) (cs : list call) : list Elem :=
    match cs with
    | [] => []
    | Field p od :: r => let '(st', e) := field st p od in e :: run st' r
    | Reset d :: r => run (reset_coefficients st d) r
    | Denorm :: r => run (denormalize_coefficients st) r
    | SetFrame fr :: r => run (set_frame st fr) r
    end.

  Fixpoint final (st : state) (cs : list call) : state :=
    match cs with
    | [] => st
    | Field p od :: r => final (fst (field st p od)) r
    | Reset d :: r => final (reset_coefficients st d) r
    | Denorm :: r => final (denormalize_coefficients st) r
    | SetFrame fr :: r => final (set_frame st fr) r
    end.

  (* the specification of a run: only the object's date and frame are carried along *)
  Fixpoint spec (d : Date) (fr : Frame) (cs : list call) : list Elem :=
    match cs with
    | [] => []
    | Field p od :: r => let d' := match od with Some x => x | None => d end in pure d' p fr :: spec d' fr r
    | Reset d' :: r => spec d' fr r
    | Denorm :: r => spec d fr r
    | SetFrame fr' :: r => spec d fr' r
    end.

  Definition all_fields_reload (cs : list call) : Prop := forall p od, In (Field p od) cs -> reloads od = true.

  Lemma field_reloading st p od : reset_reloads fx = true -> method_zero_branch fx = false -> reloads od = true ->
    let d := match od with Some d => d | None => sdate st end in
    snd (field st p od) = pure d p (sframe st) /\ sdate (fst (field st p od)) = d /\ sframe (fst (field st p od)) = sframe st.
  Proof.
    intros Hr Hz Hl. unfold field, special, pure. rewrite Hl, Hz. cbn. rewrite Hr. repeat split.
  Qed.

  (* THE theorem: if every Field call of the sequence reloads before it scales, then every answer is the pure function of
     (its date or the object's date, its place, the object's frame) -- whatever the earlier calls were, whatever the state *)
  Theorem history_independent : reset_reloads fx = true -> method_zero_branch fx = false ->
    forall cs st, all_fields_reload cs -> run st cs = spec (sdate st) (sframe st) cs.
  Proof.
    intros Hr Hz cs. induction cs as [|c r IH]; intros st Hall; [reflexivity|].
    assert (Hrest : all_fields_reload r) by (intros p od Hin; apply (Hall p od); right; exact Hin).
    destruct c as [p od|d| |fr'].
    - assert (Hl : reloads od = true) by (apply (Hall p od); left; reflexivity).
      destruct (field_reloading st p od Hr Hz Hl) as (Ha & Hd & Hf).
      cbn [run spec]. destruct (field st p od) as [st' e] eqn:E. cbn [fst snd] in *.
      rewrite (IH st' Hrest), Hd, Hf, Ha. reflexivity.
    - cbn [run spec]. rewrite (IH _ Hrest). reflexivity.
    - cbn [run spec]. rewrite (IH _ Hrest). reflexivity.
    - cbn [run spec]. rewrite (IH _ Hrest). reflexivity.
  Qed.

  (* the object's date after a sequence of calls, as the specification sees it *)
  Fixpoint date_after (d : Date) (cs : list call) : Date :=
    match cs with
    | [] => d
    | Field _ od :: r => date_after (match od with Some x => x | None => d end) r
    | Reset d' :: r => date_after d' r
    | Denorm :: r => date_after d r
    | SetFrame _ :: r => date_after d r
    end.

  Fixpoint frame_after (fr : Frame) (cs : list call) : Frame :=
    match cs with
    | [] => fr
    | SetFrame fr' :: r => frame_after fr' r
    | _ :: r => frame_after fr r
    end.

  Lemma spec_app d fr cs1 cs2 :
    spec d fr (cs1 ++ cs2) = spec d fr cs1 ++ spec (date_after d cs1) (frame_after fr cs1) cs2.
  Proof.
    revert d fr. induction cs1 as [|c r IH]; intros d fr; [reflexivity|].
    destruct c as [p od|d'| |fr']; cbn [app spec date_after frame_after]; rewrite IH; reflexivity.
  Qed.

  (* the k-th answer, after ANY history on ANY object of the same frame, is the answer of a fresh evaluation *)
  Corollary last_answer_independent : reset_reloads fx = true -> method_zero_branch fx = false ->
    forall pre st p od dflt, all_fields_reload pre -> reloads od = true ->
    last (run st (pre ++ [Field p od])) dflt =
      pure (match od with Some x => x | None => date_after (sdate st) pre end) p (frame_after (sframe st) pre).
  Proof.
    intros Hr Hz pre st p od dflt Hp Ho.
    rewrite history_independent; auto.
    - rewrite spec_app. cbn [spec]. apply last_last.
    - intros q oq Hin. apply in_app_or in Hin. destruct Hin as [Hin|[Hin|[]]]; [apply (Hp q oq Hin)|].
      injection Hin as <- <-. exact Ho.
  Qed.

  (* constructor: when it computes at all, its answer is the pure function at the date it hands on *)
  Theorem ctor_answer od p fr : ctor_resets_first fx = true -> reset_reloads fx = true -> method_zero_branch fx = false ->
    field_reloads_if_date fx = true -> ctor_guard p = true -> answer (new od p fr) = Some (pure (ctor_eff od) p fr).
  Proof.
    intros Hc Hr Hz Hd Hg. unfold new, ctor_eff. rewrite Hg. unfold field, special, pure, new0. rewrite Hz, Hc, Hr. cbn.
    destruct (ctor_arg od (given od)) as [x|]; cbn.
    - rewrite Hd. cbn. rewrite Hr. reflexivity.
    - destruct (field_reloads_if_none fx); cbn; rewrite ?Hr; reflexivity.
  Qed.

  (* the readers show the stored answer: nothing else is remembered *)
  Theorem observe_is_answer st : no_hidden_state fx = true -> observe st = answer st.
  Proof. intros H. unfold observe. rewrite H. reflexivity. Qed.

  (* changing only the frame and asking again gives the pure answer of the new frame *)
  Theorem frame_switch_requery st p d fr' : reset_reloads fx = true -> method_zero_branch fx = false ->
    field_reloads_if_date fx = true -> no_hidden_state fx = true ->
    let st1 := fst (field st p (Some d)) in let st2 := fst (field (set_frame st1 fr') p (Some d)) in
    observe st1 = Some (pure d p (sframe st)) /\ observe st2 = Some (pure d p fr').
  Proof.
    intros Hr Hz Hd Hn. cbn zeta. rewrite !observe_is_answer by exact Hn.
    unfold field, special, pure, set_frame. rewrite Hz. cbn. rewrite Hd. cbn. rewrite Hr. split; reflexivity.
  Qed.

  Theorem ctor_skips od p fr : ctor_guard p = false -> answer (new od p fr) = None.
  Proof. intros Hg. unfold new. rewrite Hg. reflexivity. Qed.

  (* the method with an explicit date, on any object *)
  Theorem method_answer st p d : reset_reloads fx = true -> method_zero_branch fx = false -> field_reloads_if_date fx = true ->
    snd (field st p (Some d)) = pure d p (sframe st).
  Proof. intros Hr Hz Hd. exact (proj1 (field_reloading st p (Some d) Hr Hz Hd)). Qed.

  Theorem ctor_eq_method d p fr st : ctor_resets_first fx = true -> reset_reloads fx = true -> method_zero_branch fx = false ->
    field_reloads_if_date fx = true -> ctor_guard p = true -> ctor_date fx = PassGiven -> sframe st = fr ->
    answer (new (Some d) p fr) = Some (snd (field st p (Some d))).
  Proof.
    intros Hc Hr Hz Hd Hg Hp Hf. rewrite ctor_answer, method_answer, Hf by assumption. unfold ctor_eff, ctor_arg. rewrite Hp. reflexivity.
  Qed.

  (* with the calendar date handed on, the constructor answers the method's question for the ROUNDED date *)
  Theorem ctor_eq_method_at_calendar d p fr st : ctor_resets_first fx = true -> reset_reloads fx = true -> method_zero_branch fx = false ->
    field_reloads_if_date fx = true -> ctor_guard p = true -> ctor_date fx = PassCalendar -> sframe st = fr ->
    answer (new (Some d) p fr) = Some (snd (field st p (Some (cal d)))).
  Proof.
    intros Hc Hr Hz Hd Hg Hp Hf. rewrite ctor_answer, method_answer, Hf by assumption. unfold ctor_eff, ctor_arg. rewrite Hp. reflexivity.
  Qed.

  Theorem guard_total : ctor_guard_00 fx = true -> ctor_guard_0x fx = true -> ctor_guard_x0 fx = true -> ctor_guard_xx fx = true ->
    forall p, ctor_guard p = true.
  Proof. intros A B C D p. unfold ctor_guard. destruct (lat0 p), (lon0 p); assumption. Qed.

  Theorem no_special_path : method_zero_branch fx = false -> forall p, special p = false.
  Proof. intros Hz p. unfold special. rewrite Hz. reflexivity. Qed.

  (* the defect mechanism: a date=None call that does not reload scales the already scaled tables once more *)
  Theorem second_none_call_rescales st p d : reset_reloads fx = true -> method_zero_branch fx = false ->
    field_reloads_if_date fx = true -> field_reloads_if_none fx = false -> field_scales fx = true ->
    run st [Field p (Some d); Field p None] =
      [pure d p (sframe st); synth (scale (scale (load (file_of d)))) d p (sframe st)].
  Proof.
    intros Hr Hz Hd Hn Hs. cbn [run]. unfold field, special, pure. rewrite Hz. cbn. rewrite Hd, Hn, Hs. cbn. rewrite Hr. reflexivity.
  Qed.
End Object.

(* ------------------------------------------------------------------------------------------------------------------
   Executable instance: a term algebra.  Dates and places are tokens (nat); a coefficient table is (token of the date it
   was loaded for, number of times it has been scaled since); an answer lists what it was computed from.  The harness
   interprets the tokens (t + 1000 = the calendar date the object derived from date t, t + 2000 = its date_dec, 999 = today)
   and compares, call by call, with what a real object does. *)
Definition xplace := (nat * bool * bool)%type.       (* index, latitude == 0, longitude == 0 *)
Definition xcoef := (nat * nat)%type.
Definition xelem := list nat.                        (* [loaded-for; scaled; date; place; frame; special] *)
Definition b2n (b : bool) : nat := if b then 1 else 0.
Definition xsynth (sp : nat) (c : xcoef) (d : nat) (p : xplace) (fr : bool) : xelem :=
  [fst c; snd c; d; fst (fst p); b2n fr; sp].
Definition xworld : world := {|
  w_Date := nat; w_Place := xplace; w_Frame := bool; w_File := nat; w_Coef := xcoef; w_Elem := xelem;
  w_file_of := fun d => d; w_load := fun f => (f, 0); w_scale := fun c => (fst c, S (snd c));
  w_synth := xsynth 0; w_synth0 := xsynth 1; w_cal := fun d => d + 1000; w_dec := fun d => d + 2000; w_today := 999;
  w_coef0 := (0, 77); w_lat0 := fun p => snd (fst p); w_lon0 := fun p => snd p; w_stale := fun _ => Some [77] |}.
Definition xcall := call xworld.
Definition XField (p : xplace) (od : option nat) : xcall := Field xworld p od.
Definition XReset (d : nat) : xcall := Reset xworld d.
Definition XDenorm : xcall := Denorm xworld.
Definition XSetFrame (fr : bool) : xcall := SetFrame xworld fr.

(* per Field call: reloaded? :: answer; for the other calls an empty row *)
Fixpoint xrun (fx : facts) (st : state xworld) (cs : list xcall) : list (list nat) :=
  match cs with
  | [] => []
  | Field _ p od :: r => let '(st', e) := field xworld fx st p od in (b2n (reloads xworld fx od) :: e) :: xrun fx st' r
  | Reset _ d :: r => [] :: xrun fx (reset_coefficients xworld fx st d) r
  | Denorm _ :: r => [] :: xrun fx (denormalize_coefficients xworld fx st) r
  | SetFrame _ fr :: r => [] :: xrun fx (set_frame xworld st fr) r
  end.

(* a whole session: constructor, then calls.  First row: the constructor's answer ([] if it computed nothing) *)
Definition xsession (fx : facts) (od : option nat) (p : xplace) (fr : bool) (cs : list xcall) : list (list nat) :=
  let st := new xworld fx od p fr in
  (match answer xworld st with Some e => e | None => [] end) :: xrun fx st cs.
