(* C14_wmm.v — hand-written executable model of ahrs/utils/wmm.py (class WMM), written once,
   generic in the number type, and instantiated
     - at R            (the theorems of coq/props/C14 are about this instance),
     - at PrimFloat    (run by vm_compute and compared with the implementation on every check run),
     - at polynomials  (only the Legendre recursion; in coq/props/C14/C14_poly.v, for the reflection).
   Every definition follows the order of the floating-point operations of the Python source, so that
   the float instance reproduces the implementation up to the rounding of `**` (see notes/design/C14.md).

   Source lines (ahrs/utils/wmm.py): load_coefficients 419-469 -> `load`; reset_date 506-543 ->
   `epoch_of_date`; denormalize_coefficients 545-688 -> `kq`, `leg_row`, `leg2`, `S0`, `sfac`, `Smn`;
   magnetic_field 690-838 -> `cs`, `core`. *)
From Coq Require Import List ZArith QArith Bool Lia.
Import ListNotations.
Close Scope Q_scope.

(* ------------------------------------------------------------------------------------------ *)
(* number types                                                                                 *)
(* ------------------------------------------------------------------------------------------ *)
Record ROps (T : Type) := mkROps {
  r0 : T; r1 : T; radd : T -> T -> T; rsub : T -> T -> T; rmul : T -> T -> T; rQ : Q -> T }.
Arguments r0 {T}. Arguments r1 {T}. Arguments radd {T}. Arguments rsub {T}. Arguments rmul {T}. Arguments rQ {T}.

Record Ops (T : Type) := mkOps {
  o0 : T; o1 : T; oadd : T -> T -> T; osub : T -> T -> T; omul : T -> T -> T; odiv : T -> T -> T;
  oZ : Z -> T; osqrt : T -> T; ois0 : T -> bool }.
Arguments o0 {T}. Arguments o1 {T}. Arguments oadd {T}. Arguments osub {T}. Arguments omul {T}.
Arguments odiv {T}. Arguments oZ {T}. Arguments osqrt {T}. Arguments ois0 {T}.

(* a rational constant p/q is the quotient of the two integers, as in Python's int/int *)
Definition rops_of {T} (OP : Ops T) : ROps T :=
  mkROps T (o0 OP) (o1 OP) (oadd OP) (osub OP) (omul OP)
         (fun q => odiv OP (oZ OP (Qnum q)) (oZ OP (Zpos (Qden q)))).

(* k[m,n] = ((n-1)^2 - m^2) / ((2n-1)(2n-3))   (wmm.py:675) *)
Definition kq (m n : nat) : Q :=
  Qred (inject_Z ((Z.of_nat n - 1) ^ 2 - Z.of_nat m ^ 2)%Z / inject_Z ((2 * Z.of_nat n - 1) * (2 * Z.of_nat n - 3))%Z)%Q.

(* ------------------------------------------------------------------------------------------ *)
(* Legendre recursion (Gauss-normalised functions P^{n,m} and their co-latitude derivatives)     *)
(* ------------------------------------------------------------------------------------------ *)
Section Legendre.
  Context {T : Type} (OP : ROps T).
  Variables s c : T.                      (* sin, cos of the geocentric latitude *)
  Local Notation "a +! b" := (radd OP a b) (at level 50, left associativity).
  Local Notation "a -! b" := (rsub OP a b) (at level 50, left associativity).
  Local Notation "a *! b" := (rmul OP a b) (at level 40, left associativity).

  Definition entry : Type := (T * T)%type.            (* (P[m,n], dP[m,n]) *)
  Definition get (row : list entry) (m : nat) : entry := nth m row (r0 OP, r0 OP).

  (* row n (orders m = 0..n) from rows n-1 and n-2   (wmm.py:681-686) *)
  Definition leg_entry (n : nat) (row1 row2 : list entry) (m : nat) : entry :=
    if Nat.eqb m n then
      let '(p1, d1) := get row1 (m - 1) in
      (c *! p1, c *! d1 +! s *! p1)
    else
      let '(p1, d1) := get row1 m in
      let '(p2, d2) := get row2 m in
      let k := rQ OP (kq m n) in
      (s *! p1 -! k *! p2, s *! d1 -! c *! p1 -! k *! d2).
  Definition leg_row (n : nat) (row1 row2 : list entry) : list entry :=
    map (leg_entry n row1 row2) (seq 0 (S n)).

  (* (row n, row n-1) *)
  Fixpoint leg2 (n : nat) : list entry * list entry :=
    match n with
    | O => ([(r1 OP, r0 OP)], [])
    | S k => let '(a, b) := leg2 k in (leg_row (S k) a b, a)
    end.
  Definition legrow (n : nat) : list entry := fst (leg2 n).
  Definition Pmn (n m : nat) : T := fst (get (legrow n) m).
  Definition dPmn (n m : nat) : T := snd (get (legrow n) m).

  (* the same rows computed once and shared: [row n; row n-1; ...; row 0] *)
  Fixpoint leg_upto (n : nat) : list (list entry) :=
    match n with
    | O => [[(r1 OP, r0 OP)]]
    | S k => let prev := leg_upto k in leg_row (S k) (nth 0 prev []) (nth 1 prev []) :: prev
    end.
  Definition tabP (N : nat) (rows : list (list entry)) (n m : nat) : T := fst (get (nth (N - n) rows []) m).
  Definition tabdP (N : nat) (rows : list (list entry)) (n m : nat) : T := snd (get (nth (N - n) rows []) m).
End Legendre.

(* ------------------------------------------------------------------------------------------ *)
(* the rest of the algorithm                                                                    *)
(* ------------------------------------------------------------------------------------------ *)
Definition NMAX : nat := 12.

Record row (T : Type) := mkRow { rn : nat; rm : nat; rg : T; rh : T; rgd : T; rhd : T }.
Arguments rn {T}. Arguments rm {T}. Arguments rg {T}. Arguments rh {T}. Arguments rgd {T}. Arguments rhd {T}.
Arguments mkRow {T}.

Definition mat (T : Type) := nat -> nat -> T.
Definition upd {T} (M : mat T) (i j : nat) (v : T) : mat T :=
  fun i' j' => if Nat.eqb i' i && Nat.eqb j' j then v else M i' j'.

Section Algorithm.
  Context {T : Type} (OP : Ops T).
  Local Notation "a +! b" := (oadd OP a b) (at level 50, left associativity).
  Local Notation "a -! b" := (osub OP a b) (at level 50, left associativity).
  Local Notation "a *! b" := (omul OP a b) (at level 40, left associativity).
  Local Notation "a /! b" := (odiv OP a b) (at level 40, left associativity).
  Local Notation ZZ := (oZ OP).
  Local Notation zn n := (oZ OP (Z.of_nat n)).

  (* load_coefficients: the packed matrices c (g above/on the diagonal as c[m,n], h below it as c[n,m-1]) *)
  Definition load_step (acc : mat T * mat T) (r : row T) : mat T * mat T :=
    let '(c, cd) := acc in
    let c := upd c (rm r) (rn r) (rg r) in
    let cd := upd cd (rm r) (rn r) (rgd r) in
    if Nat.eqb (rm r) 0 then (c, cd)
    else (upd c (rn r) (rm r - 1) (rh r), upd cd (rn r) (rm r - 1) (rhd r)).
  Definition zero_mat : mat T := fun _ _ => o0 OP.
  Definition load (rows : list (row T)) : mat T * mat T := fold_left load_step rows (zero_mat, zero_mat).

  (* Schmidt factors   (wmm.py:672, 677) *)
  Fixpoint S0 (n : nat) : T :=
    match n with
    | O => o1 OP
    | S k => S0 k *! ZZ (2 * Z.of_nat n - 1)%Z /! zn n
    end.
  Definition sfac (n m : nat) : T :=
    osqrt OP (ZZ (Z.of_nat (n - m + 1) * (if Nat.eqb m 1 then 2 else 1))%Z /! zn (n + m)).
  Fixpoint Smn (n m : nat) : T :=
    match m with
    | O => S0 n
    | S j => Smn n j *! sfac n m
    end.

  Fixpoint opow (x : T) (k : nat) : T := match k with O => o1 OP | S j => x *! opow x j end.

  Definition fsum (l : list nat) (f : nat -> T) : T := fold_left (fun acc i => acc +! f i) l (o0 OP).

  Section Core.
    Variables c cd : mat T.               (* packed coefficients and secular terms *)
    Variable dt : T.                      (* t - t0 *)
    Variables s' c' : T.                  (* sin, cos of the geocentric latitude *)
    Variables sl cl : T.                  (* sin, cos of the longitude *)
    Variable ar : T.                      (* a / r *)
    Variables cpsi spsi : T.              (* cos, sin of (phi' - phi) *)

    (* cos(m lambda), sin(m lambda)   (wmm.py:781-787) *)
    Fixpoint cs (m : nat) : T * T :=
      match m with
      | O => (o1 OP, o0 OP)
      | S j => let '(cp, sp) := cs j in (cl *! cp -! sl *! sp, sl *! cp +! cl *! sp)
      end.
    Definition cpm (m : nat) : T := fst (cs m).
    Definition spm (m : nat) : T := snd (cs m).

    Variables Pt dPt : nat -> nat -> T.   (* P[m,n], dP[m,n] of denormalize_coefficients, as Pt n m *)
    Variable St : nat -> nat -> T.        (* S[m,n], as St n m *)
    Definition R' := rops_of OP.

    (* scaled and time-advanced coefficients   (wmm.py:678-679, 687-688, 801, 806) *)
    Definition gh_g (n m : nat) : T := c m n *! St n m +! dt *! (cd m n *! St n m).
    Definition gh_h (n m : nat) : T := c n (m - 1) *! St n m +! dt *! (cd n (m - 1) *! St n m).
    Definition gchs (n m : nat) : T :=
      if Nat.eqb m 0 then gh_g n m *! cpm m else gh_g n m *! cpm m +! gh_h n m *! spm m.
    Definition gshc (n m : nat) : T :=
      if Nat.eqb m 0 then gh_g n m *! spm m else gh_g n m *! spm m -! gh_h n m *! cpm m.

    Definition x_p (n : nat) : T := fsum (seq 0 (S n)) (fun m => gchs n m *! dPt n m).
    Definition y_p (n : nat) : T := fsum (seq 0 (S n)) (fun m => zn m *! gshc n m *! Pt n m).
    Definition z_p (n : nat) : T := fsum (seq 0 (S n)) (fun m => gchs n m *! Pt n m).
    Definition arn2 (n : nat) : T := opow ar (n + 2).

    Definition Xp : T := fsum (seq 1 NMAX) (fun n => arn2 n *! x_p n).
    Definition Yp : T := fsum (seq 1 NMAX) (fun n => arn2 n *! y_p n).
    Definition Zp : T := fold_left (fun acc n => acc -! zn (n + 1) *! arn2 n *! z_p n) (seq 1 NMAX) (o0 OP).
    (* the special case of the geographic poles   (wmm.py:813-816) *)
    Definition Bp : T :=
      fold_left (fun acc n => let b := acc +! arn2 n *! gshc n 1 in
                              if Nat.ltb 1 n then b *! (s' -! rQ R' (kq 1 n)) else b) (seq 1 NMAX) (o0 OP).
    Definition Yf : T := if ois0 OP c' then Bp else Yp /! c'.

    (* rotation to geodetic axes   (wmm.py:822-824) *)
    Definition core_with : T * T * T :=
      (Xp *! cpsi -! Zp *! spsi, Yf, Xp *! spsi +! Zp *! cpsi).
  End Core.

  (* magnetic_field from the packed coefficients and the trigonometric values to X, Y, Z *)
  Definition core (c cd : mat T) (dt s' c' sl cl ar cpsi spsi : T) : T * T * T :=
    let rows := leg_upto (rops_of OP) s' c' NMAX in
    let stab := map (fun n => map (Smn n) (seq 0 (S n))) (seq 0 (S NMAX)) in
    core_with c cd dt s' c' sl cl ar cpsi spsi (tabP (rops_of OP) NMAX rows) (tabdP (rops_of OP) NMAX rows)
              (fun n m => nth m (nth n stab []) (o0 OP)).
End Algorithm.

(* date -> coefficient file   (wmm.py:537-543): 0 = WMM2015, 1 = WMM2020, 2 = WMM2025.
   Generic in an ordered type given by its "less than" test. *)
Definition epoch_of_date {T} (ltb : T -> T -> bool) (y2020 y2025 : T) (date : T) : nat :=
  if ltb date y2020 then 0 else if ltb date y2025 then 1 else 2.

(* straight-line programs: the second rendering of regenerated polynomial targets (gen/C14prog.v, written by
   tools/props/C14.py; semantics and use in coq/props/C14/C14_ssa.v).  Operands are indices of earlier instructions. *)
Inductive instr :=
| IC (q : Q)                 (* rational constant *)
| IA (k : nat)               (* atom k *)
| IAdd (i j : nat) | ISub (i j : nat) | IMul (i j : nat)
| INeg (i : nat)
| IPow (i : nat) (n : nat).

(* ------------------------------------------------------------------------------------------ *)
(* instances                                                                                    *)
(* ------------------------------------------------------------------------------------------ *)
From Coq Require Import Reals.
Definition OpsR : Ops R :=
  mkOps R 0%R 1%R Rplus Rminus Rmult Rdiv IZR sqrt (fun x => if Req_EM_T x 0%R then true else false).

From Coq Require Import Uint63. From Coq Require Import PrimFloat.
Definition fZ (z : Z) : float :=
  match z with
  | Z0 => 0%float
  | Zpos p => PrimFloat.of_uint63 (Uint63.of_pos p)
  | Zneg p => PrimFloat.opp (PrimFloat.of_uint63 (Uint63.of_pos p))
  end.
Definition OpsF : Ops float :=
  mkOps float 0%float 1%float PrimFloat.add PrimFloat.sub PrimFloat.mul PrimFloat.div fZ PrimFloat.sqrt
        (fun x => PrimFloat.eqb x 0%float).
(* the binary64 number nearest to a decimal rational p/q with |p|, q < 2^53 (what strtod returns) *)
Definition fQ (q : Q) : float := PrimFloat.div (fZ (Qnum q)) (fZ (Zpos (Qden q))).
